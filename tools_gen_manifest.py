#!/venv/bin/python
"""Regenerates MANIFEST.json from sa/props.py (claimed checks) and the not-applicable
table below.  Run after changing the set of rules of a property."""
import json
import os
import subprocess
import sys
sys.path.insert(0, os.path.dirname(os.path.abspath(__file__)))
from sa.props import PROPS, NOT_APPLICABLE, MANIFEST_TEXT

BASE = json.load(open('/root/.vp/BASELINE.json'))
fix_commits = subprocess.run(['git', '-C', '/repo', 'log', '--format=%h %s', '005d6e3..HEAD'],
                             capture_output=True, text=True).stdout.splitlines()
checks = []
for pid in sorted(PROPS):
    sp = PROPS[pid]
    mt = MANIFEST_TEXT[pid]
    checks.append({
        'property_id': pid,
        'quick_cmd': './check %s --tier quick' % pid,
        'thorough_cmd': './check %s --tier thorough' % pid,
        'evidence_file': '/verif/evidence/%s.json' % pid,
        'replay_cmd_template': './check %s --tier quick --replay {path}' % pid,
        'engine': 'sa',
        'level_claimed': {'category': 'other', 'text': mt['level'], 'design_ref': mt['design_ref']},
        'level_note': mt['note'],
        'technique': mt['technique'],
    })
man = {
    'version': 1,
    'setup_cmd': 'true',
    'hooks': {
        'guard': 'MATZE_DD_YALAFI_VERIF',
        'enable': 'no hooks: the checks are static analyses of the source and need no instrumentation',
        'baseline_off_cmd': BASE['cmd'].replace('--junitxml=<file>', '').strip(),
        'source_commits': [],
        'add_only': True,
    },
    'engines': [{
        'name': 'sa', 'path': '/verif/sa',
        'serves_properties': sorted(PROPS),
        'kind_free_text': 'repository-specific static analyser on the Python ast (stdlib only, '
                          '/venv/bin/python): program model with callee resolution, structured '
                          'data-flow interpreters (ownership, taint, symbolic affine lengths, '
                          'boolean decision tables), guard-fact extraction, table evaluation',
    }],
    'checks': checks,
    'not_applicable': [{'property_id': k, 'reason': v} for k, v in sorted(NOT_APPLICABLE.items())],
    'notes': 'Static analysis only: every check re-parses /repo/yalafi on each run and decides '
             'structural necessary conditions of its property (DESIGN.md sections 3 and 4 say '
             'which clauses are decided and which are not). Exit 2 + ANALYSIS-ERROR = the checker '
             'itself could not run (vanished anchor, vacuous rule). Defects of the repository '
             'found by the rules were repaired by unguarded "fix:" commits in /repo: '
             + '; '.join(fix_commits) + '. They are recorded as fixed in known_findings.json.',
}
json.dump(man, open(os.path.join(os.path.dirname(os.path.abspath(__file__)), 'MANIFEST.json'), 'w'),
          indent=1, ensure_ascii=False)
print('MANIFEST.json: %d checks, %d not applicable' % (len(checks), len(man['not_applicable'])))
