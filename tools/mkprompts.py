#!/venv/bin/python
"""Prepare a round of seed / neutral sub-agent jobs: scratch worktrees of /repo under <base>/<name>
and one prompt.txt per job under <base>/out/<name>/.  The prompts contain nothing from /verif
except the property text and one line per change that already exists (so that the agents look
elsewhere).   usage: mkprompts.py seeds <base> [ids...]   |   mkprompts.py neutral <base>"""
import glob
import json
import os
import re
import subprocess
import sys

HERE = os.path.dirname(os.path.dirname(os.path.abspath(__file__)))

SEED = '''You are helping to evaluate how well a verification effort can detect subtle regressions in the open-source project matze-dd/YaLafi (a pure-Python LaTeX-to-plain-text filter with position mapping, plus a LanguageTool proofreading shell).

You have your OWN scratch git worktree of the repository at: {wt}   (work ONLY there; never touch /repo or /verif, never read anything under /verif).
Python interpreter: /venv/bin/python . Run commands with the worktree as current directory, so that `import yalafi` picks up your copy. Other jobs on this machine run the same test suite concurrently and the shell tests use the fixed port 8081, so ALWAYS run the full suite inside a private network namespace:
    unshare -rn sh -c 'ip link set lo up; cd {wt} && PATH=/venv/bin:$PATH /venv/bin/python -m pytest -q -p no:cacheprovider -x'        (454 tests, ~35 s; no network is available)

The property under study:
--------------------------------------------------------------------
Property {pid}: {title}

Statement: {statement}

Quantifier: {quant}

Why the existing tests cannot settle it: {why}
--------------------------------------------------------------------

TASK. Produce THREE independent, realistic source changes ("seeded defects") to the code under yalafi/ in your worktree. Each one must
  (a) BREAK the property above (on at least one input / configuration / history),
  (b) still import/compile, and still PASS THE COMPLETE EXISTING TEST SUITE unchanged (run it and confirm: 454 passed),
  (c) look like a plausible maintainer edit (a refactoring gone slightly wrong, an "optimisation", a dropped guard or copy, an off-by-one, a changed table entry, state hoisted to module level, a generalisation that is too generous, ...), touching only a few lines - NOT an obviously malicious or bizarre change,
  (d) need something SPECIFIC to manifest - an unusual input, a particular layout, a second use/call, a fault close to the end of the text, a multi-step sequence, or two cooperating sites that each look fine alone - rather than failing on ordinary use at once.
The three changes should use DIFFERENT mechanisms / code locations from each other. Only change files under yalafi/ (not tests).

For each change k = 1, 2, 3 write into {out}/k/ :
  - patch.diff : output of `git diff` in the worktree for exactly that change alone (relative to the clean HEAD of the worktree; make each patch independent: `git checkout -- .` between them). Some files use CRLF line endings - edit them with tools that preserve the existing line endings so that the diff touches only the intended lines.
  - demo.py    : a small stand-alone program to be run as `cd <repo-root> && /venv/bin/python /path/to/demo.py` that exits 0 when the property holds for its scenario and exits 1 (printing what went wrong) when it does not. It must exit 0 on the clean tree and exit 1 with your patch applied. It must import yalafi from the current directory (insert os.getcwd() at the front of sys.path). No network, no LanguageTool: for shell functions, call the Python functions directly or fake the proofreader answer.
  - notes.md   : first line `# {pid} change k: <one-line summary>`, then 5-10 lines: what was changed, why it breaks the property, what is needed for it to manifest, and the exact commands you ran with their outcome (test suite result with the patch; demo result with and without the patch).
Verify everything yourself: apply the patch on a clean worktree (`git apply`), run the full suite (must be 454 passed), run the demo (must exit 1); revert (`git checkout -- .`), run the demo (must exit 0).
Leave the worktree clean (git checkout -- .) when you are done. Final answer: a short list of the three changes (one line each) and whether each was fully verified. If you notice behaviour of the UNCHANGED code that already violates the property, report it in one line as well (do not count it as one of the three).

IMPORTANT - the following changes have ALREADY been proposed by others; do NOT repeat them or close variants of them. Find three changes in OTHER code locations / using other mechanisms. Think about the whole code path behind the property: less obvious modules (yalafi/packages/*, yalafi/documentclasses/*, yalafi/shell/*), helper functions, tables and their consumers, default arguments, option handling, state threading, the interaction of two functions that each look fine alone, and corner cases of standard-library calls:
{known}
'''

NEUTRAL = '''You are helping to evaluate static-analysis tooling for the open-source project matze-dd/YaLafi (a pure-Python LaTeX-to-plain-text filter with position mapping, plus a LanguageTool proofreading shell).

You have your OWN scratch git worktree of the repository at: {wt}   (work ONLY there; never touch /repo or /verif, never read anything under /verif).
Python interpreter: /venv/bin/python . Other jobs on this machine run the same test suite concurrently and the shell tests use the fixed port 8081, so run the full suite inside a private network namespace:
    unshare -rn sh -c 'ip link set lo up; cd {wt} && PATH=/venv/bin:$PATH /venv/bin/python -m pytest -q -p no:cacheprovider -x'      (454 tests, ~35 s)

TASK. Produce SIX independent, realistic, strictly BEHAVIOUR-PRESERVING refactorings of code in: {files}.
"Behaviour-preserving" means: for EVERY input (all documents, all options, all proofreader answers, all call sequences, also a second call on the same objects) the observable results are exactly the same as before - same texts, same position numbers, same diagnostics, same exceptions or absence of exceptions. These are the edits a careful maintainer makes when tidying code: rename local variables or parameters of internal functions, extract a local helper function or a method, or inline one, replace an idiom by an equivalent one (x += [a] <-> x.append(a), a slice by an equivalent slice, a loop by a comprehension or the reverse, if/else chains by early returns, De Morgan, reorder independent statements, introduce a local variable for a repeated sub-expression, split a long expression, swap the operands of a commutative operation, turn nested ifs into `and`, replace `a <= b` by `not a > b`, use enumerate, a conditional expression instead of if/else, `is None` tests rewritten equivalently, str.format / f-strings, a dict/tuple lookup instead of an if-chain, etc.). Make them NON-TRIVIAL: each should restructure between 5 and 25 lines of real logic (not comments, not whitespace, not blank lines), and the six should touch different functions and use different kinds of transformation. {focus} {kinds} Do NOT change any behaviour, not even in corner cases (empty input, end of text, missing optional arguments, malformed input, unusual white space such as \\r or \\f or no-break space, non-ASCII letters) - think each one through and convince yourself of exact equivalence.

For each refactoring k = 1..6 write into {out}/k/ :
  - patch.diff : output of `git diff` in the worktree for exactly that change alone (relative to the clean HEAD; make each patch independent: `git checkout -- .` between them). Some files use CRLF line endings - preserve the existing line endings so that the diff touches only the intended lines.
  - notes.md   : what was transformed and a short argument why it is exactly equivalent (including corner cases), plus the test-suite result with the patch applied (must be 454 passed).
Leave the worktree clean (git checkout -- .) when you are done. Final answer: one line per refactoring.
'''

KINDS = ('This time prefer kinds of transformation such as: a while loop rewritten as a for loop (or the reverse), '
         'early `continue` / guard clauses instead of nested ifs (or the reverse), the walrus operator, any() / all() / next() '
         'instead of a search loop (or the reverse), dict.get / setdefault / `in` tests rewritten, tuple unpacking, chained '
         'comparisons, De Morgan, `not a < b` for `a >= b`, str.format / f-strings for concatenation, a comprehension '
         'unrolled into a loop with append (or the reverse), reordering of independent statements, an if/elif chain '
         'whose branches all return turned into separate ifs (or the reverse), a result variable instead of several returns '
         '(or the reverse), slices written with explicit len(), `x[-1:]` / `x[:1]` instead of an emptiness test plus index.')

NEUTRAL_JOBS = {
    'N7': ('yalafi/parser.py',
           'Prefer these functions: Parser.init_package, modify_parameters, parser_work (the LT-SKIP loop), arg_buffer, expand_macro (the loop that skips space), expand_arguments (incl. the look-ahead that collects language tokens), generate_replacements, expand_item, begin_environment / end_environment, expand_verb_env_token.'),
    'N8': ('yalafi/scanner.py, yalafi/parameters.py, yalafi/defs.py',
           'Prefer these functions: Scanner.scan, next_token, scan_verb, scan_verbatim, scan_macro, Buffer.look_ahead / skip_space / is_space, Parameters.init_math_collections, the language tables (math_op_text etc. - keep the values), Parameters.no_specials, Expandable.__init__.'),
    'N9': ('yalafi/utils.py, yalafi/tex2txt.py',
           'Prefer these functions: replace_phrases, substitute, get_txt_pos_ml (merge heuristic at the end), latex_error, get_module_handler, get_packages, tex2txt (option handling), read_replacements, read_definitions, main, translate_numbers.'),
    'N10': ('yalafi/shell/shell.py, yalafi/shell/checks.py, yalafi/shell/genhtml.py, yalafi/shell/proofreader.py, yalafi/shell/server.py, yalafi/shell/gentext.py',
            'Prefer: checks.create_single_letter_matches, create_equation_punct_messages, create_context, create_message; genhtml.begin_match, generate_html (all loops), add_line_numbers; proofreader.run_proofreader_options (the loop over the text parts), run_textgears; server.Handler.create_message; gentext.output_list_unknown, output_text_report.'),
    'N11': ('yalafi/mathparser.py, yalafi/handlers.py',
            'Prefer: MathParser.expand_math_section (the long if-chain), expand_inline_math, MathPartToken.last_char / leading_op, handlers.h_newcommand, h_load_defs, h_load_module, h_heading, h_cite, h_newtheorem.'),
    'N12': ('yalafi/packages/*.py, yalafi/documentclasses/*.py, yalafi/shell/addpacks.py',
            'Prefer: babel.py (init_module, all handlers, get_language_token), xspace.py, amsthm.py, glossaries.py (cap_first, cap_all, h_gls, modify_description), cleveref.py, packages/__init__.py (keep the table contents), addpacks.init_module.'),
}


def sh(*a):
    return subprocess.run(a, capture_output=True, text=True)


def main():
    kind, base = sys.argv[1], sys.argv[2]
    os.makedirs(os.path.join(base, 'out'), exist_ok=True)
    if kind == 'seeds':
        props = {}
        for line in open(os.path.join(HERE, 'properties.jsonl')):
            d = json.loads(line)
            props[d['id']] = d
        ids = sys.argv[3:] or [p for p in sorted(props) if p != 'C09']
        for pid in ids:
            d = props[pid]
            known = []
            for sd in sorted(glob.glob(os.path.join(HERE, 'seeded', pid + '-*'))):
                files = []
                for ln in open(os.path.join(sd, 'patch.diff'), errors='replace'):
                    m = re.match(r'\+\+\+ b/(\S+)', ln)
                    if m:
                        files.append(m.group(1))
                first = ''
                notes = os.path.join(sd, 'notes.md')
                if os.path.exists(notes):
                    for ln in open(notes, errors='replace'):
                        if ln.strip():
                            first = ln.strip().lstrip('# ').strip()
                            break
                if not first:
                    adds = [ln[1:].strip() for ln in open(os.path.join(sd, 'patch.diff'), errors='replace')
                            if ln.startswith('+') and not ln.startswith('+++') and ln[1:].strip()]
                    first = 'change near: ' + (adds[0][:90] if adds else '?')
                known.append('  - %s: %s' % (', '.join(files), first[:200]))
            wt = os.path.join(base, pid)
            out = os.path.join(base, 'out', pid)
            os.makedirs(out, exist_ok=True)
            r = sh('git', '-C', '/repo', 'worktree', 'add', '--detach', wt)
            if r.returncode:
                print(r.stderr)
            q = d.get('quantifier') or {}
            open(os.path.join(out, 'prompt.txt'), 'w').write(SEED.format(
                wt=wt, out=out, pid=pid, title=d['title'], statement=d['statement'],
                quant=q.get('text', ''), why=d.get('why_tests_cant', ''), known='\n'.join(known)))
            print(pid, len(known), 'known changes')
    else:
        for name, (files, focus) in NEUTRAL_JOBS.items():
            wt = os.path.join(base, name)
            out = os.path.join(base, 'out', name)
            os.makedirs(out, exist_ok=True)
            r = sh('git', '-C', '/repo', 'worktree', 'add', '--detach', wt)
            if r.returncode:
                print(r.stderr)
            open(os.path.join(out, 'prompt.txt'), 'w').write(NEUTRAL.format(wt=wt, out=out, files=files, focus=focus, kinds=KINDS))
            print(name, files)


if __name__ == '__main__':
    main()
