#!/venv/bin/python
"""Regenerate the per-property rule list in DESIGN.md (between the RULELIST markers) from sa/props.py."""
import os
import sys
HERE = os.path.dirname(os.path.dirname(os.path.abspath(__file__)))
sys.path.insert(0, HERE)
from sa.props import PROPS

lines = ['', 'Current rule list per property (generated from `sa/props.py`; rule names as in sections 3.1–3.12; the evidence file',
         'of each property gives the instance counts of the last run):', '']
for pid in sorted(PROPS):
    names = [f.__name__.upper() for f in PROPS[pid]['rules']]
    lines.append('* **%s** (%d rules): %s' % (pid, len(names), ', '.join(names)))
txt = '\n'.join(lines) + '\n'
p = os.path.join(HERE, 'DESIGN.md')
s = open(p).read()
b, e = '<!-- RULELIST-BEGIN -->', '<!-- RULELIST-END -->'
s = s[:s.index(b)] + b + txt + e + s[s.index(e) + len(e):]
open(p, 'w').write(s)
print('rule list written for %d properties' % len(PROPS))
