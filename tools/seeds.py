#!/venv/bin/python
"""Seeded-defect bookkeeping (SEED_SUFFIX=-r2 names a later round).

  seeds.py confirm <src dir> ...   confirm sub-agent results (patch.diff, demo.py, notes.md):
                                   scratch worktree of /repo, apply, full suite, demo must fail;
                                   revert, demo must pass.  Confirmed ones are copied to
                                   /verif/seeded/<id>/ with meta.json.
  seeds.py detect [id ...]         apply each kept patch to a scratch copy of /repo/yalafi and run
                                   all checks in-process; prints which rules fire.
"""
import json
import multiprocessing
import os
import shutil
import subprocess
import sys
import tempfile

VERIF = os.path.dirname(os.path.dirname(os.path.abspath(__file__)))
sys.path.insert(0, VERIF)
SEEDED = os.path.join(VERIF, 'seeded')
NETNS = ['unshare', '-rn', 'sh', '-c']


def sh(cmd, cwd=None, timeout=900):
    p = subprocess.run(cmd, shell=True, cwd=cwd, capture_output=True, text=True, timeout=timeout)
    return p.returncode, (p.stdout + p.stderr)


def confirm_one(args):
    src, sid, prop = args
    wt = tempfile.mkdtemp(prefix='verif-seed-', dir='/tmp')
    os.rmdir(wt)
    log = []
    try:
        rc, out = sh('git -C /repo worktree add -q --detach %s HEAD' % wt)
        if rc:
            return sid, False, 'worktree: ' + out
        patch = os.path.join(src, 'patch.diff')
        demo = os.path.join(src, 'demo.py')
        rc, out = sh('git apply %s' % patch, cwd=wt)
        if rc:
            return sid, False, 'patch does not apply: ' + out[-300:]
        rc, out = sh("unshare -rn sh -c 'ip link set lo up; PATH=/venv/bin:$PATH /venv/bin/python "
                     "-m pytest -q -p no:cacheprovider -x 2>&1 | tail -3'", cwd=wt, timeout=1200)
        suite = out.strip().splitlines()[-1] if out.strip() else ''
        log.append('suite with patch: ' + suite)
        if '454 passed' not in suite:
            return sid, False, 'suite: ' + out[-400:]
        rc1, out1 = sh("unshare -rn sh -c 'ip link set lo up; PATH=/venv/bin:$PATH /venv/bin/python %s'" % demo,
                       cwd=wt, timeout=300)
        log.append('demo with patch: exit %d' % rc1)
        sh('git checkout -- .', cwd=wt)
        rc0, out0 = sh("unshare -rn sh -c 'ip link set lo up; PATH=/venv/bin:$PATH /venv/bin/python %s'" % demo,
                       cwd=wt, timeout=300)
        log.append('demo on clean tree: exit %d' % rc0)
        if rc1 != 1 or rc0 != 0:
            return sid, False, '; '.join(log) + ' | ' + out1[-300:] + ' | ' + out0[-300:]
        dst = os.path.join(SEEDED, sid)
        os.makedirs(dst, exist_ok=True)
        for fn in ('patch.diff', 'demo.py', 'notes.md'):
            if os.path.exists(os.path.join(src, fn)):
                shutil.copy(os.path.join(src, fn), os.path.join(dst, fn))
        notes = open(os.path.join(src, 'notes.md')).read() if os.path.exists(os.path.join(src, 'notes.md')) else ''
        meta = {'id': sid, 'property': prop,
                'needs_to_manifest': notes.strip()[:1500],
                'confirmed_by': ['git worktree of /repo HEAD, git apply patch.diff',
                                 'full suite in a private network namespace: ' + suite,
                                 'demo.py with patch: exit %d' % rc1,
                                 'demo.py on the clean tree: exit %d' % rc0],
                'origin': 'independent sub-agent given only the property text'}
        json.dump(meta, open(os.path.join(dst, 'meta.json'), 'w'), indent=1)
        return sid, True, '; '.join(log)
    except Exception as e:
        return sid, False, 'exception %r' % e
    finally:
        sh('git -C /repo worktree remove --force %s' % wt)
        shutil.rmtree(wt, ignore_errors=True)


def confirm(srcs):
    jobs = []
    for s in srcs:
        s = s.rstrip('/')
        prop = os.path.basename(os.path.dirname(s))
        k = os.path.basename(s)
        sid = '%s-%s%s' % (prop, k, os.environ.get('SEED_SUFFIX', ''))
        if os.path.exists(os.path.join(SEEDED, sid, 'meta.json')) and not os.environ.get('SEED_FORCE'):
            continue
        if not os.path.exists(os.path.join(s, 'patch.diff')):
            continue
        jobs.append((s, sid, prop))
    with multiprocessing.Pool(6) as pool:
        for sid, ok, msg in pool.imap_unordered(confirm_one, jobs):
            print('%-8s %s  %s' % (sid, 'CONFIRMED' if ok else 'REJECTED', msg), flush=True)


def _respells_known(f):
    from sa import report
    k = f.key().split('|')
    for e in report.load_known():
        if e.get('status') == 'known' and e.get('key', '').split('|')[:3] == k[:3]:
            return True
    return False


def detect_one(sid):
    from sa.model import Model, AnalysisError
    from sa.main import run_property
    from sa.props import PROPS
    from sa import rdefs
    tmp = tempfile.mkdtemp(prefix='verif-det-')
    try:
        shutil.copytree('/repo/yalafi', os.path.join(tmp, 'yalafi'),
                        ignore=shutil.ignore_patterns('__pycache__'))
        if os.path.exists(os.path.join('/repo', 'list-of-macros.md')):
            shutil.copy(os.path.join('/repo', 'list-of-macros.md'), tmp)
        rc, out = sh('git apply --unsafe-paths --directory=%s %s' % (tmp, os.path.join(SEEDED, sid, 'patch.diff')),
                     cwd=tmp)
        if rc:
            rc, out = sh('patch -p1 -s < %s' % os.path.join(SEEDED, sid, 'patch.diff'), cwd=tmp)
            if rc:
                return sid, None, 'apply failed: ' + out[-200:]
        res = {}
        try:
            model = Model(repo=tmp)
        except AnalysisError as e:
            return sid, {}, 'analysis error: %s' % e
        for p in sorted(PROPS):
            rdefs.reset_cache()
            from sa import normalize as _nz
            _nz.reset()
            try:
                viol, results = run_property(p, 'quick', 0, model=model, quiet=True, write=False)
                if viol:
                    res[p] = sorted({f.rule for f in viol})
            except AnalysisError as e:
                res[p] = ['ANALYSIS-ERROR: %s' % str(e)[:80]]
        return sid, res, ''
    finally:
        shutil.rmtree(tmp, ignore_errors=True)


def detect(ids):
    all_ids = sorted(d for d in os.listdir(SEEDED) if os.path.exists(os.path.join(SEEDED, d, 'patch.diff')))
    ids = ids or all_ids
    with multiprocessing.Pool(12) as pool:
        out = pool.map(detect_one, ids)
    caught = 0
    expect = {}
    for sid, res, msg in out:
        own = sid.split('-')[0]
        if res is None:
            print('%-8s ERROR %s' % (sid, msg))
            continue
        hit = own in res and not any('ANALYSIS' in x for x in res[own])
        caught += bool(hit)
        if hit:
            expect[sid] = sorted(res[own])
        print('%-8s %-6s own=%s others=%s %s' % (
            sid, 'CAUGHT' if hit else 'missed', res.get(own, '-'),
            {k: v for k, v in res.items() if k != own} or '-', msg))
    print('%d of %d seeded defects caught by the check of their own property' % (caught, len(out)))


def summary():
    all_ids = sorted(d for d in os.listdir(SEEDED) if os.path.exists(os.path.join(SEEDED, d, 'patch.diff')))
    with multiprocessing.Pool(12) as pool:
        out = pool.map(detect_one, all_ids)
    lines = ['# Seeded defects and the checks that report them', '',
             'Generated by `tools/seeds.py summary` (applies every patch to a scratch copy of the',
             'current /repo/yalafi and runs all checks).  "own" = rules of the check of the property',
             'the change was written against; "other" = checks of other properties that also report it.', '',
             '| seed | files | change (first line of notes.md) | own check | other checks |',
             '|------|-------|----------------------------------|-----------|--------------|']
    caught = 0
    expect = {}
    for sid, res, msg in out:
        own = sid.split('-')[0]
        d = os.path.join(SEEDED, sid)
        notes = open(os.path.join(d, 'notes.md')).read() if os.path.exists(os.path.join(d, 'notes.md')) else ''
        line = ''
        for l in notes.splitlines():
            l = l.strip().lstrip('#').strip()
            if len(l) > 25:
                line = l[:150].replace('|', '/')
                break
        patch = open(os.path.join(d, 'patch.diff')).read()
        files = sorted({l.split(' b/')[-1].replace('yalafi/', '') for l in patch.splitlines()
                        if l.startswith('diff --git')})
        res = res or {}
        hit = own in res and not any('ANALYSIS' in x for x in res[own])
        caught += bool(hit)
        if hit:
            expect[sid] = sorted(res[own])
        others = '; '.join('%s: %s' % (k, ','.join(v)) for k, v in sorted(res.items()) if k != own)
        lines.append('| %s | %s | %s | %s | %s |' % (sid, ', '.join(files), line,
                                                  ', '.join(res.get(own, [])) if hit else '—', others or ''))
    lines += ['', '%d of %d seeded defects are reported by the check of their own property.' % (caught, len(out)), '']
    open(os.path.join(SEEDED, 'SUMMARY.md'), 'w').write('\n'.join(lines))
    import json
    json.dump(expect, open(os.path.join(SEEDED, 'EXPECT.json'), 'w'), indent=0, sort_keys=True)
    print('%d of %d' % (caught, len(out)))


def neutral_one(src):
    from sa.model import Model, AnalysisError
    from sa.main import run_property
    from sa.props import PROPS
    from sa import rdefs
    tmp = tempfile.mkdtemp(prefix='verif-neu-')
    try:
        shutil.copytree('/repo/yalafi', os.path.join(tmp, 'yalafi'),
                        ignore=shutil.ignore_patterns('__pycache__'))
        shutil.copy('/repo/list-of-macros.md', tmp)
        rc, out = sh('patch -p1 -s < %s' % os.path.join(src, 'patch.diff'), cwd=tmp)
        if rc:
            return src, None, 'apply failed: ' + out[-200:]
        res = {}
        try:
            model = Model(repo=tmp)
        except AnalysisError as e:
            return src, {'*': ['ANALYSIS-ERROR %s' % e]}, ''
        for p in sorted(PROPS):
            rdefs.reset_cache()
            from sa import normalize as _nz
            _nz.reset()
            try:
                viol, results = run_property(p, 'quick', 0, model=model, quiet=True, write=False)
                # a known (genuine, recorded) defect that the refactoring merely re-spells is not a
                # FALSE alarm: same rule, same function as a known finding of the clean tree
                viol = [f for f in viol if not _respells_known(f)]
                if viol:
                    res[p] = sorted({'%s: %s' % (f.rule, f.msg[:90]) for f in viol})
            except AnalysisError as e:
                res[p] = ['ANALYSIS-ERROR: %s' % str(e)[:120]]
            except Exception as e:
                res[p] = ['CRASH: %r' % e]
        return src, res, ''
    finally:
        shutil.rmtree(tmp, ignore_errors=True)


def neutral(srcs):
    srcs = [os.path.abspath(s.rstrip('/')) for s in srcs if os.path.exists(os.path.join(s, 'patch.diff'))]
    with multiprocessing.Pool(12) as pool:
        out = pool.map(neutral_one, srcs)
    bad = 0
    for src, res, msg in out:
        name = '/'.join(src.split('/')[-2:])
        if res is None:
            print('%-8s ERROR %s' % (name, msg))
        elif res:
            bad += 1
            print('%-8s ALARM' % name)
            for p, lst in res.items():
                for x in lst:
                    print('      %s %s' % (p, x))
        else:
            print('%-8s silent' % name)
    print('%d of %d behaviour-preserving refactorings raise an alarm' % (bad, len(out)))


if __name__ == '__main__':
    if sys.argv[1] == 'confirm':
        confirm(sys.argv[2:])
    elif sys.argv[1] == 'detect':
        detect(sys.argv[2:])
    elif sys.argv[1] == 'summary':
        summary()
    elif sys.argv[1] == 'neutral':
        neutral(sys.argv[2:])
