"""D1 of DESIGN.md: freshness / ownership of object-valued local variables.

Abstract values:  'own'      the variable holds an object created in this function
                             (constructor or copy.copy) and not yet shared
                  'ownlist'  a list all of whose elements are 'own'
                  absent     unknown / shared
plus a set of owned subscript expressions ('args[0]') valid until a name they mention
is re-bound.  Function summaries ('returns a fresh list') are computed, not assumed."""
import ast

from .flow import Flow
from .model import unparse
from . import tok as T

KEYS = '#keys'


class Own(Flow):
    def __init__(self, model, func, summaries):
        super().__init__()
        self.model = model
        self.func = func
        self.summ = summaries
        self.ret_kinds = []
        st = {KEYS: frozenset()}
        self.run(func.body, st)

    def copy(self, st):
        return dict(st)

    def join(self, a, b):
        out = {KEYS: a.get(KEYS, frozenset()) & b.get(KEYS, frozenset())}
        for k in a:
            if k != KEYS and k in b and a[k] == b[k]:
                out[k] = a[k]
        return out

    # ---- evaluation -----------------------------------------------------------
    def _class_valued(self, name):
        """a local variable whose every definition is a class, or a conditional expression
        between classes (token_class = A if c else B; token_class(...) is a constructor call)"""
        from . import tok as T
        vals = T.resolve_local(self.model, name)
        if not vals or any(v is name for v in vals):
            return False

        def is_cls(v):
            if isinstance(v, ast.IfExp):
                return is_cls(v.body) and is_cls(v.orelse)
            if isinstance(v, (ast.Name, ast.Attribute)):
                rs = self.model.resolve_symbol(v._mod, getattr(v, '_fn', None), v)
                return bool(rs and rs[0] == 'class')
            # {key: ClassA, ...}.get(k) / {...}[k]: a table of classes (None is replaced before the call, or the
            # call itself would fail)
            d = None
            if isinstance(v, ast.Call) and isinstance(v.func, ast.Attribute) and v.func.attr == 'get' \
                    and isinstance(v.func.value, ast.Dict) and 1 <= len(v.args) <= 2:
                d = v.func.value
                if len(v.args) == 2 and not is_cls(v.args[1]):
                    return False
            elif isinstance(v, ast.Subscript) and isinstance(v.value, ast.Dict):
                d = v.value
            if d is not None and d.values:
                return all(is_cls(x) for x in d.values)
            return False
        return all(is_cls(v) for v in vals)

    def kind(self, e, st):
        if e is None:
            return None
        if isinstance(e, ast.Name):
            return st.get(e.id)
        if isinstance(e, ast.Call):
            r = self.model.resolve_call(e)
            if r and r[0] == 'class':
                return 'own'
            if not r and isinstance(e.func, ast.Name) and self._class_valued(e.func):
                return 'own'
            if not r and isinstance(e.func, (ast.Name, ast.Subscript)):
                from .model import dispatch_targets
                from . import tok as T
                tg = dispatch_targets(self.model, e, T.resolve_local)
                if tg and all(self.summ.returns(t) == 'own' for t in tg):
                    return 'own'
            if r and r[0] == 'ext' and r[1] in ('copy.copy', 'copy.deepcopy'):
                return 'own'
            if r and r[0] == 'func':
                return self.summ.returns(r[1])
            if r and r[0] == 'builtin' and r[1] in ('list', 'reversed', 'sorted', 'tuple') and e.args:
                k = self.kind(e.args[0], st)
                return 'ownlist' if k == 'ownlist' else None
            if isinstance(e.func, ast.Attribute):
                base = self.kind(e.func.value, st)
                if e.func.attr == 'pop' and base == 'ownlist':
                    return 'own'
                if e.func.attr == 'copy' and base == 'ownlist':
                    return 'ownlist'
            return None
        if isinstance(e, (ast.List, ast.Tuple)):
            if all(self.kind(x, st) == 'own' for x in e.elts):
                return 'ownlist'
            return None
        if isinstance(e, (ast.ListComp, ast.GeneratorExp)):
            inner = dict(st)
            for g in e.generators:
                k = self.kind(g.iter, inner)
                for n in ast.walk(g.target):
                    if isinstance(n, ast.Name):
                        inner.pop(n.id, None)
                if isinstance(g.target, ast.Name) and k == 'ownlist':
                    inner[g.target.id] = 'own'
            return 'ownlist' if self.kind(e.elt, inner) == 'own' else None
        if isinstance(e, ast.BinOp) and isinstance(e.op, ast.Add):
            if self.kind(e.left, st) == 'ownlist' and self.kind(e.right, st) == 'ownlist':
                return 'ownlist'
            return None
        if isinstance(e, ast.Subscript):
            if unparse(e) in st.get(KEYS, ()):
                return 'own'
            base = self.kind(e.value, st)
            if base == 'ownlist':
                return 'ownlist' if isinstance(e.slice, ast.Slice) else 'own'
            return None
        if isinstance(e, ast.IfExp):
            a, b = self.kind(e.body, st), self.kind(e.orelse, st)
            return a if a == b else None
        return None

    def _kill(self, st, name):
        st.pop(name, None)
        st[KEYS] = frozenset(k for k in st.get(KEYS, ()) if name not in _idents(k))

    def _assign(self, target, value_kind, st):
        if isinstance(target, ast.Name):
            self._kill(st, target.id)
            if value_kind:
                st[target.id] = value_kind
        elif isinstance(target, (ast.Tuple, ast.List)):
            for t in target.elts:
                self._assign(t, None, st)
        elif isinstance(target, ast.Subscript):
            key = unparse(target)
            if value_kind == 'own' and not isinstance(target.slice, ast.Slice):
                st[KEYS] = st.get(KEYS, frozenset()) | {key}
            else:
                st[KEYS] = st.get(KEYS, frozenset()) - {key}
                if isinstance(target.value, ast.Name) and st.get(target.value.id) == 'ownlist' \
                        and not (isinstance(target.slice, ast.Slice) and value_kind == 'ownlist'):
                    st.pop(target.value.id, None)

    def transfer(self, s, st):
        if isinstance(s, ast.Assign):
            k = self.kind(s.value, st)
            for t in s.targets:
                self._assign(t, k, st)
        elif isinstance(s, ast.AugAssign):
            if isinstance(s.target, ast.Name) and st.get(s.target.id) == 'ownlist':
                if self.kind(s.value, st) != 'ownlist':
                    st.pop(s.target.id, None)
            elif isinstance(s.target, ast.Name):
                self._kill(st, s.target.id)
        elif isinstance(s, ast.Expr) and isinstance(s.value, ast.Call):
            c = s.value
            if isinstance(c.func, ast.Attribute) and isinstance(c.func.value, ast.Name):
                x = c.func.value.id
                if st.get(x) == 'ownlist':
                    if c.func.attr == 'append' and c.args:
                        if self.kind(c.args[0], st) != 'own':
                            st.pop(x, None)
                    elif c.func.attr == 'insert' and len(c.args) > 1:
                        if self.kind(c.args[1], st) != 'own':
                            st.pop(x, None)
                    elif c.func.attr == 'extend' and c.args:
                        if self.kind(c.args[0], st) != 'ownlist':
                            st.pop(x, None)
        return st

    def bind_for(self, s, st):
        k = self.kind(s.iter, st)
        for n in ast.walk(s.target):
            if isinstance(n, ast.Name):
                self._kill(st, n.id)
        if isinstance(s.target, ast.Name) and k == 'ownlist':
            st[s.target.id] = 'own'
        return st

    def bind_with(self, s, st):
        for it in s.items:
            if it.optional_vars is not None:
                for n in ast.walk(it.optional_vars):
                    if isinstance(n, ast.Name):
                        self._kill(st, n.id)
        return st

    def nested_def(self, s, st):
        self._kill(st, s.name)
        return st

    def on_return(self, node, st):
        if node is None:
            self.ret_kinds.append('none')
        else:
            self.ret_kinds.append(self.kind(node.value, st) if node.value is not None
                                  and not (isinstance(node.value, ast.Constant) and node.value.value is None) else 'none')

    # ---- queries ------------------------------------------------------------
    def state_at(self, node):
        n = node
        while n is not None and id(n) not in self.pre:
            n = getattr(n, '_parent', None)
        return self.pre.get(id(n), {}) if n is not None else {}

    def owned(self, expr, at):
        """is the object denoted by expr owned at the statement containing `at`?"""
        st = self.state_at(at)
        # names bound by an enclosing comprehension are not tracked
        return self.kind(expr, st) == 'own'


def _idents(s):
    import re
    return set(re.findall(r'[A-Za-z_][A-Za-z_0-9]*', s))


class Summaries:
    """per-function result kind ('own' / 'ownlist' / None), computed on demand"""
    def __init__(self, model):
        self.model = model
        self.memo = {}
        self.flows = {}

    def flow(self, func):
        k = func.qname
        if k not in self.flows:
            self.flows[k] = Own(self.model, func, self)
        return self.flows[k]

    def returns(self, func):
        k = func.qname
        if k in self.memo:
            return self.memo[k]
        self.memo[k] = None           # recursion guard: unknown
        if isinstance(func.node, ast.Lambda):
            res = None
        else:
            fl = self.flow(func)
            kinds = [x for x in fl.ret_kinds]
            kinds = [x for x in kinds if x != 'none'] if any(x != 'none' for x in kinds) else kinds
            res = kinds[0] if kinds and all(x == kinds[0] for x in kinds) and kinds[0] in ('own', 'ownlist') else None
        self.memo[k] = res
        return res
