"""Component B (second half): call graph with function references passed as values.

Edges:
  * resolved direct calls (model.resolve_call), constructor calls -> __init__,
  * calls through a parameter or an attribute that holds a function reference: for
    every (function, parameter) the set of functions passed at its call sites is
    propagated (param -> param, param -> self.attr),
  * registry callbacks: X.repl(..) / X.end_func(..) / X.items(..) -> every function given
    for that keyword in a Macro / Environ / EquEnv constructor (handler factories resolve
    to the closure they return),
  * dynamic modules: the call of the module handler in Parser.modify_parameters -> every
    init_module; exec/eval occur only in utils.get_module_handler and
    tex2txt.get_packages (anything else is an analysis error).
"""
import ast

from .model import AnalysisError, iter_scope, unparse
from . import tables


class CallGraph:
    def __init__(self, model):
        self.model = model
        self.fref = {}      # (func qname, param index) -> set(Func)
        self.attrref = {}   # attribute name -> set(Func)
        self.registry = {'repl': set(), 'end_func': set(), 'items': set()}
        self.calls = {}     # id(call node) -> set(Func)
        self.edges = {}     # func qname -> set(func qname)
        self.callers = {}   # func qname -> list of call nodes
        self.unresolved = []
        self._check_exec()
        self._registry()
        self._frefs()
        self._edges()

    # ------------------------------------------------------------------
    def _check_exec(self):
        allowed = {'utils.get_module_handler', 'tex2txt.get_packages'}
        for m in self.model.mods.values():
            for n in ast.walk(m.tree):
                if isinstance(n, ast.Call) and isinstance(n.func, ast.Name) \
                        and n.func.id in ('exec', 'eval', '__import__'):
                    fn = n._fn.qname if n._fn else '<module>'
                    if n._fn is not None and n._fn.name == 'eval' and False:
                        continue
                    r = self.model.resolve_call(n)
                    if r and r[0] == 'func':
                        continue    # a local function called eval (parser.eval)
                    if fn not in allowed:
                        raise AnalysisError('exec/eval in %s: the call-graph model would be '
                                            'unsound' % fn)

    def func_value(self, e):
        """functions an expression may denote when used as a callback value"""
        out = set()
        if e is None:
            return out
        mod, fn = e._mod, e._fn
        r = self.model.resolve_symbol(mod, fn, e) if isinstance(e, (ast.Name, ast.Attribute)) else None
        if r and r[0] == 'func':
            out.add(r[1])
            return out
        if isinstance(e, ast.Lambda):
            f = self.model.func_of_node.get(id(e))
            if f:
                out.add(f)
            return out
        if isinstance(e, ast.Call):
            rc = self.model.resolve_call(e)
            if rc and rc[0] == 'func':
                # factory: the closures it returns
                for n in iter_scope(rc[1].node):
                    if isinstance(n, ast.Return) and isinstance(n.value, ast.Name) \
                            and n.value.id in rc[1].nested:
                        out.add(rc[1].nested[n.value.id])
            return out
        if isinstance(e, ast.Name) and fn is not None and e.id in fn.params:
            return set(self.fref.get((fn.qname, fn.params.index(e.id)), ()))
        if isinstance(e, ast.Name) and fn is not None:
            # local alias of a function value
            from .tok import resolve_local
            for v in resolve_local(self.model, e):
                if v is not e:
                    out |= self.func_value(v)
        return out

    def _registry(self):
        for ent in tables.registry(self.model):
            for kw in ('repl', 'end_func', 'items'):
                v = ent['kw'].get(kw) if kw != 'repl' else ent['repl']
                if v is None or isinstance(v, ast.Constant):
                    continue
                self.registry[kw] |= self.func_value(v)

    def _frefs(self):
        model = self.model
        changed = True
        rounds = 0
        while changed and rounds < 10:
            changed = False
            rounds += 1
            for m in model.mods.values():
                for n in ast.walk(m.tree):
                    if not isinstance(n, ast.Call):
                        continue
                    targets = self._targets_basic(n)
                    for f in targets:
                        off = 1 if f.cls is not None and f.params[:1] == ['self'] else 0
                        argmap = []
                        for i, a in enumerate(n.args):
                            if not isinstance(a, ast.Starred):
                                argmap.append((i + off, a))
                        for k in n.keywords:
                            if k.arg in f.params:
                                argmap.append((f.params.index(k.arg), k.value))
                        for idx, a in argmap:
                            fv = self.func_value(a)
                            if fv:
                                key = (f.qname, idx)
                                old = self.fref.get(key, set())
                                if not fv <= old:
                                    self.fref[key] = old | fv
                                    changed = True
            # self.attr = <param>
            for f in model.all_funcs():
                if isinstance(f.node, ast.Lambda):
                    continue
                for n in iter_scope(f.node):
                    if isinstance(n, ast.Assign) and len(n.targets) == 1 \
                            and isinstance(n.targets[0], ast.Attribute):
                        fv = self.func_value(n.value)
                        if fv:
                            a = n.targets[0].attr
                            old = self.attrref.get(a, set())
                            if not fv <= old:
                                self.attrref[a] = old | fv
                                changed = True

    def _targets_basic(self, call):
        r = self.model.resolve_call(call)
        if r and r[0] == 'func':
            return [r[1]]
        if r and r[0] == 'class':
            init = self.model.find_method(r[1], '__init__')
            return [init] if init else []
        return []

    def targets(self, call):
        """all repository functions a call may reach"""
        k = id(call)
        if k in self.calls:
            return self.calls[k]
        out = set(self._targets_basic(call))
        r = self.model.resolve_call(call)
        f = call.func
        fn = call._fn
        if not out and not (r and r[0] in ('ext', 'builtin')):
            if isinstance(f, ast.Name):
                out |= self.func_value(f)
            elif isinstance(f, ast.Attribute):
                if f.attr in self.registry and not isinstance(f.value, ast.Constant):
                    out |= self.registry[f.attr]
                if f.attr in self.attrref:
                    out |= self.attrref[f.attr]
            # dynamic module handler
            if fn is not None and fn.qname == 'parser.Parser.modify_parameters' \
                    and isinstance(f, ast.Name) and f.id in fn.params:
                out |= {g for g in self.model.all_funcs() if g.name == 'init_module'
                        and g.outer is None and g.cls is None}
        self.calls[k] = out
        return out

    def _edges(self):
        for m in self.model.mods.values():
            for n in ast.walk(m.tree):
                if isinstance(n, ast.Call):
                    src = n._fn.qname if n._fn else '<module:%s>' % m.short
                    ts = self.targets(n)
                    for t in ts:
                        self.edges.setdefault(src, set()).add(t.qname)
                        self.callers.setdefault(t.qname, []).append(n)
                    if not ts:
                        r = self.model.resolve_call(n)
                        if not r:
                            self.unresolved.append(n)
        # address-taken functions: a function referenced by name (not called) inside G may be
        # stored and called later (handler lists such as h_gls('text', [cap_first]))
        for m in self.model.mods.values():
            for n in ast.walk(m.tree):
                if isinstance(n, (ast.Name, ast.Attribute)) and isinstance(n.ctx, ast.Load):
                    par = getattr(n, '_parent', None)
                    if isinstance(par, ast.Call) and par.func is n:
                        continue
                    if isinstance(par, ast.Attribute):
                        continue
                    r = self.model.resolve_symbol(m, n._fn, n)
                    if r and r[0] == 'func':
                        src = n._fn.qname if n._fn else '<module:%s>' % m.short
                        self.edges.setdefault(src, set()).add(r[1].qname)
        # a nested function is reachable from its definer (it may be returned / stored)
        for f in self.model.all_funcs():
            if f.outer is not None:
                self.edges.setdefault(f.outer.qname, set()).add(f.qname)

    def reachable(self, roots):
        seen = set()
        todo = list(roots)
        while todo:
            q = todo.pop()
            if q in seen:
                continue
            seen.add(q)
            todo.extend(self.edges.get(q, ()))
        return seen


_CG = {}


def callgraph(model):
    if id(model) not in _CG:
        _CG.clear()
        _CG[id(model)] = CallGraph(model)
    return _CG[id(model)]
