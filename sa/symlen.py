"""D3 of DESIGN.md: symbolic evaluation of integer values and sequence lengths as affine
terms, with branch facts, relational joins and Houdini-style loop invariants.

No code of the repository is executed; the AST is interpreted over the abstract values
   Int(aff)            an integer
   Seq(length, kind)   a str / list of that length
   Tup([values])       a tuple / list display of known shape
   Obj(key)            anything else, identified by a key (fresh per definition)
   Match(subject, s, e) a regular-expression match object
"""
import ast
import itertools

from .affine import Aff, Facts, atom_nonneg
from .flow import Flow
from .model import unparse, AnalysisError


class Int:
    def __init__(self, a):
        self.a = a if isinstance(a, Aff) else Aff.const(a)

    def __eq__(self, o):
        return isinstance(o, Int) and self.a == o.a

    def __repr__(self):
        return 'Int(%r)' % self.a


class Seq:
    def __init__(self, length, kind=None, desc=None):
        self.n = length if isinstance(length, Aff) else Aff.const(length)
        self.kind = kind
        self.desc = desc        # e.g. ('slice', base key, lo, hi) for twin checks

    def __eq__(self, o):
        return isinstance(o, Seq) and self.n == o.n and self.desc == o.desc

    def __repr__(self):
        return 'Seq(%r)' % self.n


class Tup:
    def __init__(self, items):
        self.items = list(items)

    def __eq__(self, o):
        return isinstance(o, Tup) and self.items == o.items

    def __repr__(self):
        return 'Tup(%r)' % self.items


class Obj:
    def __init__(self, key):
        self.key = key

    def __eq__(self, o):
        return isinstance(o, Obj) and self.key == o.key

    def __repr__(self):
        return 'Obj(%s)' % (self.key,)


class Match:
    def __init__(self, subject, s, e):
        self.subject = subject      # Seq
        self.s = s
        self.e = e

    def __eq__(self, o):
        return isinstance(o, Match) and self.s == o.s and self.e == o.e


class State:
    def __init__(self, vars=None, facts=None, ver=None):
        self.vars = dict(vars or {})
        self.facts = facts or Facts()
        self.ver = dict(ver or {})

    def copy(self):
        return State(self.vars, self.facts, self.ver)


_counter = itertools.count()


def fresh(prefix):
    return (prefix, next(_counter))


def _key_size(k):
    if isinstance(k, tuple):
        return 1 + sum(_key_size(x) for x in k)
    if isinstance(k, str):
        return 1 + len(k) // 40
    return 1


class _Obligations(dict):
    """an obligation may be evaluated several times (paths through a loop body, Houdini
    iterations): it holds only if it held every time it was evaluated on a final iteration;
    a later success never overwrites an earlier failure of the same round"""
    def __setitem__(self, k, v):
        old = self.get(k)
        if old is not None and isinstance(old, tuple) and len(old) >= 3 and old[2] is False \
                and isinstance(v, tuple) and len(v) >= 3 and v[2]:
            return
        super().__setitem__(k, v)


class SymEval(Flow):
    """symbolic evaluator for one function.  Configuration hooks:
       pair_fields   (f1, f2): X.f1 and X.f2 of any object X have equal length
                     (class invariant assumed at first read, see LS1)
       call_summary  callable(call node, resolved, arg values, state) -> value or None
    """

    def __init__(self, model, func, pair_fields=None, call_summary=None):
        super().__init__()
        self.model = model
        self.func = func
        self.pair_fields = pair_fields
        self.call_summary = call_summary
        self.oblig = _Obligations()   # id(node) -> (node, kind, ok, text); a failure is sticky
        self.slices = []        # (node, base value, lo aff, hi aff, state) of the last pass
        self.indexes = {}       # id(node) -> (node, base Seq, index Aff, state)
        self.ret_states = []
        self.invariants = {}    # id(loop) -> list of text
        self.backedge_hooks = []
        self.call_log = []      # (call node, resolved, positional values, {kw: value}, state)
        self._inline_depth = 0
        self._heads_of = {}
        self.searches = []      # next(<i in range(lo, hi) if ..>, default): (node, lo, hi, d, result, state)
        self.loop_heads = {}    # id(loop) -> head state of the last pass

    # ---- state plumbing ------------------------------------------------------
    def copy(self, st):
        return st.copy()

    def join(self, a, b):
        out = State(facts=a.facts.meet(b.facts))
        for k in a.vars:
            if k not in b.vars:
                if _is_pseudo(k):
                    # attribute / subscript key stored on one path only: on the other path
                    # it still has its default (unmodified) value
                    out.vars[k] = self.join_val(a.vars[k], self._default(k, b))
                continue
            va, vb = a.vars[k], b.vars[k]
            out.vars[k] = self.join_val(va, vb)
        for k in b.vars:
            if k not in a.vars and _is_pseudo(k):
                out.vars[k] = self.join_val(self._default(k, a), b.vars[k])
        for k in set(a.ver) | set(b.ver):
            out.ver[k] = max(a.ver.get(k, 0), b.ver.get(k, 0))
        return out

    def _default(self, k, st):
        try:
            e = ast.parse(k, mode='eval').body
        except SyntaxError:
            return Obj(fresh('default'))
        return self.ev(e, st)

    def join_val(self, va, vb):
        if va == vb:
            return va
        if isinstance(va, Int) and isinstance(vb, Int):
            return Int(self._phi(va.a, vb.a))
        if isinstance(va, Seq) and isinstance(vb, Seq):
            return Seq(self._phi(va.n, vb.n, nonneg=True), va.kind if va.kind == vb.kind else None)
        if isinstance(va, Tup) and isinstance(vb, Tup) and len(va.items) == len(vb.items):
            return Tup([self.join_val(x, y) for x, y in zip(va.items, vb.items)])
        if (isinstance(va, (Seq, Tup)) or isinstance(vb, (Seq, Tup))) \
                and not isinstance(va, (Int, Match)) and not isinstance(vb, (Int, Match)):
            la, lb = self.length(va, None), self.length(vb, None)
            if la is not None and lb is not None:
                return Seq(self._phi(la, lb, nonneg=True),
                           getattr(va, 'kind', None) or getattr(vb, 'kind', None))
        return Obj(fresh('join'))

    def _phi(self, a, b, nonneg=False):
        """relational join: the common part plus one atom per distinct pair of residues"""
        common = {}
        for k, v in a.t.items():
            if b.t.get(k) == v:
                common[k] = v
        c = Aff(common, min(a.c, b.c))
        ra, rb = a - c, b - c
        if ra == rb:
            return a        # both sides agree (only their descriptions differed)
        ka, kb = ra.key(), rb.key()
        kind = 'nn' if nonneg or (self._nn(ra) and self._nn(rb)) else 'phi'
        if _key_size(ka) + _key_size(kb) > 400:
            # joins of joins of joins ...: the relational name would grow exponentially with
            # the number of merged paths; fall back to an opaque (imprecise) atom
            return c + Aff.atom((kind, fresh('wide'), 0))
        return c + Aff.atom((kind, ka, kb))

    @staticmethod
    def _nn(e):
        from .affine import trivially_ge0
        return trivially_ge0(e)

    # ---- keys -------------------------------------------------------------------
    def key(self, e, st):
        """canonical key of an expression: its text with the current version of every free
        variable, so that re-assignment yields a different key"""
        names = sorted({n.id for n in ast.walk(e) if isinstance(n, ast.Name)})
        return unparse(e) + ''.join('|%s%d' % (n, st.ver.get(n, 0)) for n in names
                                     if st.ver.get(n, 0))

    def _bump(self, st, name):
        st.ver[name] = st.ver.get(name, 0) + 1
        # pseudo-variables (attribute / subscript keys) that mention the name die
        for k in [k for k in st.vars if k != name and _mentions(k, name)]:
            del st.vars[k]

    # ---- expression evaluation ------------------------------------------------------
    def as_int(self, v, st, e=None):
        if isinstance(v, Int):
            return v.a
        if isinstance(v, Obj):
            return Aff.atom(('int', v.key))
        return None

    def length(self, v, st):
        if isinstance(v, Seq):
            return v.n
        if isinstance(v, Tup):
            return Aff.const(len(v.items))
        if isinstance(v, Obj):
            return Aff.atom(('len', v.key))
        return None

    def ev(self, e, st):
        m = getattr(self, 'ev_' + type(e).__name__, None)
        if m is None:
            return Obj(fresh('expr'))
        return m(e, st)

    def ev_Constant(self, e, st):
        if isinstance(e.value, bool) or e.value is None:
            return Obj(('const', repr(e.value)))
        if isinstance(e.value, int):
            return Int(e.value)
        if isinstance(e.value, str):
            return Seq(len(e.value), 'str', ('lit', e.value))
        return Obj(('const', repr(e.value)))

    def ev_Name(self, e, st):
        if e.id in st.vars:
            return st.vars[e.id]
        return Obj(self.key(e, st))

    def ev_Attribute(self, e, st):
        pk = unparse(e)
        if pk in st.vars:
            return st.vars[pk]
        k = self.key(e, st)
        if self.pair_fields and e.attr in self.pair_fields:
            base = self.key(e.value, st)
            return Seq(Aff.atom(('len', base + '.<pair>')), 'str' if e.attr == self.pair_fields[0] else 'list')
        return Obj(k)

    def ev_Tuple(self, e, st):
        return Tup([self.ev(x, st) for x in e.elts])

    def ev_List(self, e, st):
        if any(isinstance(x, ast.Starred) for x in e.elts):
            return Seq(Aff.atom(fresh('len')), 'list')
        return Tup([self.ev(x, st) for x in e.elts])

    def ev_UnaryOp(self, e, st):
        v = self.ev(e.operand, st)
        if isinstance(e.op, ast.USub):
            a = self.as_int(v, st)
            if a is not None:
                return Int(-a)
        return Obj(fresh('unary'))

    def ev_BinOp(self, e, st):
        l, r = self.ev(e.left, st), self.ev(e.right, st)
        if isinstance(e.op, (ast.Add, ast.Sub)):
            if _seqlike(l) or _seqlike(r):
                if isinstance(e.op, ast.Add):
                    ln, rn = self.length(l, st), self.length(r, st)
                    if ln is not None and rn is not None:
                        kind = getattr(l, 'kind', None) or getattr(r, 'kind', None) or \
                            ('list' if isinstance(l, Tup) or isinstance(r, Tup) else None)
                        return Seq(ln + rn, kind)
                return Obj(fresh('binop'))
            la, ra = self.as_int(l, st), self.as_int(r, st)
            if la is not None and ra is not None:
                return Int(la + ra if isinstance(e.op, ast.Add) else la - ra)
        if isinstance(e.op, ast.Mult):
            for s, n in ((l, r), (r, l)):
                if _seqlike(s):
                    sn, na = self.length(s, st), self.as_int(n, st)
                    if sn is not None and na is not None:
                        prod = sn * na
                        if prod is not None:
                            # [x] * n has max(n, 0) elements
                            if sn.is_const() and not na.is_const() and not st.facts.prove_ge0(na):
                                return Seq(Aff.atom(('nn', 'rep', prod.key())), getattr(s, 'kind', 'list'))
                            return Seq(prod, getattr(s, 'kind', None) or 'list')
                    return Obj(fresh('binop'))
            la, ra = self.as_int(l, st), self.as_int(r, st)
            if la is not None and ra is not None:
                p = la * ra
                if p is not None:
                    return Int(p)
        return Obj(fresh('binop'))

    def ev_IfExp(self, e, st):
        a, b = self.ev(e.body, st), self.ev(e.orelse, st)
        if a == b:
            return a
        if isinstance(a, Int) and isinstance(b, Int):
            # r = a under the condition, r = b under its negation (case split in the prover)
            r = Aff.atom(fresh('ifexp'))
            ft = self.cond_facts(e.test, st, True)
            ff = self.cond_facts(e.test, st, False)
            st.facts = st.facts.add_disj([ft + [r - a.a, a.a - r], ff + [r - b.a, b.a - r]])
            return Int(r)
        return self.join_val(a, b)

    def ev_Compare(self, e, st):
        for x in [e.left] + e.comparators:
            self.ev(x, st)
        return Obj(fresh('bool'))

    def ev_BoolOp(self, e, st):
        # short circuit: operand i is evaluated only if the operands before it were all true (and) /
        # all false (or); those facts hold while it is evaluated
        is_and = isinstance(e.op, ast.And)
        cur = st
        for i, x in enumerate(e.values):
            self.ev(x, cur)
            if i + 1 < len(e.values):
                nxt = cur.copy() if cur is st else cur
                for f in self.cond_facts(x, nxt, is_and):
                    nxt.facts = nxt.facts.add(f)
                cur = nxt
        return Obj(fresh('bool'))

    def ev_JoinedStr(self, e, st):
        return Seq(Aff.atom(fresh('len')), 'str')

    def ev_Subscript(self, e, st):
        k = self.key(e, st)
        base = self.ev(e.value, st)
        if unparse(e) in st.vars:
            return st.vars[unparse(e)]
        if isinstance(e.slice, ast.Slice):
            L = self.length(base, st)
            if L is None:
                return Obj(fresh('slice'))
            lo = self._bound(e.slice.lower, L, st, 0)
            hi = self._bound(e.slice.upper, L, st, L)
            if e.slice.step is not None or lo is None or hi is None:
                return Seq(Aff.atom(fresh('len')), getattr(base, 'kind', None))
            self.slices.append((e, base, lo, hi, st))
            n = self.slice_len(L, lo, hi, st)
            return Seq(n, getattr(base, 'kind', None), ('slice', lo, hi, unparse(e.value)))
        idx = self.ev(e.slice, st)
        if isinstance(base, Tup) and isinstance(idx, Int) and idx.a.is_const():
            i = idx.a.c
            if -len(base.items) <= i < len(base.items):
                return base.items[i]
        L = self.length(base, st)
        ia = self.as_int(idx, st)
        if L is not None and ia is not None and isinstance(e.ctx, ast.Load):
            self.indexes[id(e)] = (e, L, ia, st.copy())
            # post-condition of a successful index operation with a constant index
            if ia.is_const():
                st.facts = st.facts.add(L - ia.c - 1 if ia.c >= 0 else L + ia.c)
        if isinstance(base, Seq) and base.kind == 'str':
            return Seq(1, 'str', ('index', ia, unparse(e.value)) if ia is not None else None)
        return Obj(k)

    def _bound(self, b, L, st, default):
        if b is None:
            return default if isinstance(default, Aff) else Aff.const(default)
        v = self.as_int(self.ev(b, st), st)
        if v is None:
            return None
        if v.is_const() and v.c < 0:
            return L + v.c
        return v

    def slice_len(self, L, lo, hi, st):
        f = st.facts
        if f.prove_ge0(lo) and f.prove_ge0(hi - lo) and f.prove_ge0(L - hi):
            return hi - lo
        # open upper end: x[lo:] with 0 <= lo <= L
        if hi == L and f.prove_ge0(lo) and f.prove_ge0(L - lo):
            return L - lo
        return Aff.atom(('slice', L.key(), lo.key(), hi.key()))

    # comprehensions ----------------------------------------------------------------
    def _comp(self, e, st):
        gens = e.generators
        if len(gens) == 1 and not gens[0].ifs:
            it = self.ev(gens[0].iter, st)
            n = self.length(it, st)
            if n is not None:
                return Seq(n, 'list')
        if len(gens) == 1:
            it = self.ev(gens[0].iter, st)
            return Seq(Aff.atom(('nn', 'filtered', next(_counter))), 'list')
        return Seq(Aff.atom(fresh('len')), 'list')

    ev_ListComp = _comp
    ev_GeneratorExp = _comp
    ev_SetComp = lambda self, e, st: Obj(fresh('set'))

    # calls ---------------------------------------------------------------------------
    def ev_Call(self, e, st):
        args = [self.ev(a, st) for a in e.args if not isinstance(a, ast.Starred)]
        kws = {}
        for k in e.keywords:
            kws[k.arg] = self.ev(k.value, st)
        r = self.model.resolve_call(e)
        self.call_log.append((e, r, args, kws, st))
        if self.call_summary is not None:
            v = self.call_summary(self, e, r, args, st)
            if v is not None:
                return v
        name = e.func.id if isinstance(e.func, ast.Name) else \
            (e.func.attr if isinstance(e.func, ast.Attribute) else '')
        if r and r[0] == 'func' and r[1].outer is not None and self._inline_depth < 3 \
                and not isinstance(r[1].node, ast.Lambda) and len(r[1].node.body) == 1 \
                and isinstance(r[1].node.body[0], ast.Return) and r[1].node.body[0].value is not None \
                and len(args) == len(r[1].params):
            # a local helper of the form `def h(a, b): return <expr>`: evaluate it in place
            saved = {p: st.vars.get(p) for p in r[1].params}
            for p, v in zip(r[1].params, args):
                st.vars[p] = v
            self._inline_depth += 1
            try:
                val = self.ev(r[1].node.body[0].value, st)
            finally:
                self._inline_depth -= 1
                for p, v in saved.items():
                    if v is None:
                        st.vars.pop(p, None)
                    else:
                        st.vars[p] = v
            return val
        if r and r[0] == 'func' and r[1].outer is not None and self._inline_depth < 3 \
                and not isinstance(r[1].node, ast.Lambda) and self.inline_closures \
                and not any(isinstance(x, (ast.Yield, ast.YieldFrom)) for x in ast.walk(r[1].node)):
            v = self.inline_call(r[1], args, kws, st)
            if v is not None:
                return v
        if r and r[0] == 'builtin':
            return self._builtin(name, e, args, st)
        if isinstance(e.func, ast.Attribute):
            recv = self.ev(e.func.value, st)
            v = self._method(name, e, recv, args, st)
            if v is not None:
                return v
        return Obj(fresh('call'))

    inline_closures = False

    def inline_call(self, callee, args, kws, st):
        """evaluate a local helper function in place (path-sensitively); its feasible return
        values are joined, the facts of a single feasible return are adopted"""
        params = callee.params
        if len(args) > len(params):
            return None
        st2 = st.copy()
        for p, v in zip(params, args):
            st2.vars[p] = v
        for k, v in kws.items():
            if k in params:
                st2.vars[k] = v
        saved = (self.ret_states, self.returns, self.func)
        self.ret_states, self.returns = [], []
        self._inline_depth += 1
        try:
            outs = self.paths(list(callee.body), st2)
            rets = [(v, s2) for n, v, s2 in self.ret_states if not s2.facts.infeasible()]
        finally:
            self._inline_depth -= 1
            self.ret_states, self.returns, self.func = saved
        if not rets:
            return None
        if len(rets) == 1:
            st.facts = rets[0][1].facts
            return rets[0][0] if rets[0][0] is not None else Obj(fresh('none'))
        val = rets[0][0]
        for v, s2 in rets[1:]:
            if v is None or val is None:
                return None
            val = self.join_val(val, v)
        return val

    def _builtin(self, name, e, args, st):
        if name == 'len' and len(args) == 1:
            n = self.length(args[0], st)
            if n is not None:
                return Int(n)
        if name in ('min', 'max') and len(args) == 2:
            a, b = self.as_int(args[0], st), self.as_int(args[1], st)
            if a is not None and b is not None:
                if a == b:
                    return Int(a)
                m = Aff.atom((name, self._memo_id((name, a, b))))
                if name == 'min':
                    st.facts = st.facts.add(a - m, b - m)
                else:
                    st.facts = st.facts.add(m - a, m - b)
                st.facts = st.facts.add_disj([[m - a, a - m], [m - b, b - m]])
                return Int(m)
        if name == 'abs' and len(args) == 1:
            a = self.as_int(args[0], st)
            if a is not None:
                if st.facts.prove_ge0(a):
                    return Int(a)
                return Int(Aff.atom(('abs', self._memo_id(('abs', a)))))
        if name in ('list', 'tuple', 'reversed', 'sorted') and len(args) == 1:
            n = self.length(args[0], st)
            if n is not None:
                return Seq(n, 'list')
        if name == 'range':
            if len(args) == 1:
                a = self.as_int(args[0], st)
                if a is not None:
                    return self._range(Aff.const(0), a, st)
            if len(args) == 2:
                a, b = self.as_int(args[0], st), self.as_int(args[1], st)
                if a is not None and b is not None:
                    return self._range(a, b, st)
        if name == 'next' and len(e.args) == 2 and isinstance(e.args[0], ast.GeneratorExp) \
                and len(e.args[0].generators) == 1:
            g = e.args[0].generators[0]
            d = self.as_int(args[1], st)
            if isinstance(g.iter, ast.Call) and getattr(g.iter.func, 'id', '') == 'range' \
                    and isinstance(e.args[0].elt, ast.Name) and isinstance(g.target, ast.Name) \
                    and e.args[0].elt.id == g.target.id and d is not None:
                ra = [self.as_int(self.ev(x, st), st) for x in g.iter.args]
                if len(ra) == 1:
                    ra = [Aff.const(0), ra[0]]
                if len(ra) == 2 and all(x is not None for x in ra):
                    r = Aff.atom(fresh('next'))
                    st.facts = st.facts.add_disj([[r - ra[0], ra[1] - 1 - r], [r - d, d - r]])
                    self.searches.append((e, ra[0], ra[1], d, r, st))
                    return Int(r)
        if name == 'str' and len(args) == 1:
            return Seq(Aff.atom(('len', fresh('str'))), 'str')
        if name == 'int' and len(args) == 1:
            return Int(Aff.atom(fresh('int')))
        if name == 'enumerate' and args:
            n = self.length(args[0], st)
            if n is not None:
                return Seq(n, 'list')
        return Obj(fresh('call'))

    def _memo_id(self, k):
        if not hasattr(self, '_memo'):
            self._memo = {}
        if k not in self._memo:
            self._memo[k] = len(self._memo)
        return self._memo[k]

    def _range(self, a, b, st):
        d = b - a
        if st.facts.prove_ge0(d):
            return Seq(d, 'list', ('range', a.key(), b.key()))
        return Seq(Aff.atom(('nn', 'range', d.key())), 'list')

    def _method(self, name, e, recv, args, st):
        if name == 'replace' and len(args) == 2 and isinstance(recv, Seq):
            a, b = args
            if isinstance(a, Seq) and isinstance(b, Seq) and a.n.is_const() and a.n == b.n:
                return Seq(recv.n, 'str')
            return Seq(Aff.atom(('len', fresh('repl'))), 'str')
        if name == 'replace' and len(args) == 2:
            n = self.length(recv, st)
            a, b = args
            if n is not None and isinstance(a, Seq) and isinstance(b, Seq) and a.n.is_const() \
                    and a.n == b.n:
                return Seq(n, 'str')
        if name in ('strip', 'lstrip', 'rstrip', 'lower'):
            return Seq(Aff.atom(('len', fresh('strip'))), 'str')
        if name == 'join':
            a0 = e.args[0] if e.args else None
            if isinstance(recv, Seq) and recv.n.is_const() and recv.n.c == 0 and isinstance(a0, ast.Name) \
                    and isinstance(st.vars.get(a0.id + '#total'), Int):
                return Seq(st.vars[a0.id + '#total'].a, 'str')
            return Seq(Aff.atom(('len', fresh('join'))), 'str')
        if name in ('split', 'splitlines', 'readlines'):
            return Seq(Aff.atom(('len', fresh('split'))), 'list')
        if name in ('count',):
            return Int(Aff.atom(('count', fresh('c'))))
        if name in ('find', 'rfind', 'index'):
            a = Aff.atom(fresh('find'))
            st.facts = st.facts.add(a + 1)
            n = self.length(recv, st)
            if n is not None:
                st.facts = st.facts.add(n - a - 1)
            if name == 'find' and len(args) >= 2:
                lo = self.as_int(args[1], st)
                if lo is not None:
                    st.facts = st.facts.add_disj([[a - lo], [a + 1, -a - 1]])
                    self.searches.append((e, lo, n, Aff.const(-1), a, st))
            elif name == 'find' and len(args) == 1 and n is not None:
                self.searches.append((e, Aff.const(0), n, Aff.const(-1), a, st))
            return Int(a)
        if name == 'partition' and len(args) == 1:
            n = self.length(recv, st)
            if n is not None:
                h, sp = Aff.atom(('len', fresh('head'))), Aff.atom(('len', fresh('sep')))
                t = n - h - sp
                st.facts = st.facts.add(t)
                return Tup([Seq(h, 'str'), Seq(sp, 'str'), Seq(t, 'str')])
        if name == 'copy':
            n = self.length(recv, st)
            if n is not None and not isinstance(recv, Obj):
                return Seq(n, 'list')
        if isinstance(recv, Match):
            if name == 'start':
                return Int(recv.s)
            if name == 'end':
                return Int(recv.e)
            if name == 'span' and (not args or (isinstance(args[0], Int) and args[0].a == Aff.const(0))):
                return Tup([Int(recv.s), Int(recv.e)])
            if name == 'group' and args and isinstance(args[0], Int) and args[0].a == Aff.const(0):
                return Seq(recv.e - recv.s, 'str')
        if name == 'pop':
            return Obj(fresh('pop'))
        return None

    # ---- conditions -----------------------------------------------------------------
    def cond(self, test, st, branch):
        for f in self.cond_facts(test, st, branch):
            st.facts = st.facts.add(f)
        return st

    def cond_facts(self, t, st, truth):
        out = []
        if isinstance(t, ast.UnaryOp) and isinstance(t.op, ast.Not):
            return self.cond_facts(t.operand, st, not truth)
        if isinstance(t, ast.BoolOp):
            is_and = isinstance(t.op, ast.And)
            collecting = is_and == truth
            cur = st
            for i, v in enumerate(t.values):
                # facts of operand i, computed in a state in which the operands before it hold (and) / fail (or)
                fs = self.cond_facts(v, cur, is_and)
                if collecting:
                    out += fs
                if i + 1 < len(t.values):
                    nxt = cur.copy() if cur is st else cur
                    for f in fs:
                        nxt.facts = nxt.facts.add(f)
                    cur = nxt
            return out
        if isinstance(t, ast.Compare) and len(t.ops) > 1:
            if truth:
                operands = [t.left] + list(t.comparators)
                for a_, op_, b_ in zip(operands, t.ops, operands[1:]):
                    pair = ast.Compare(left=a_, ops=[op_], comparators=[b_])
                    out += self.cond_facts(pair, st, True)
            return out
        if isinstance(t, ast.Compare) and len(t.ops) == 1:
            a = self.as_int(self.ev(t.left, st), st)
            b = self.as_int(self.ev(t.comparators[0], st), st)
            op = t.ops[0]
            if a is None or b is None:
                return out
            if isinstance(op, ast.LtE):
                out.append(b - a if truth else a - b - 1)
            elif isinstance(op, ast.Lt):
                out.append(b - a - 1 if truth else a - b)
            elif isinstance(op, ast.GtE):
                out.append(a - b if truth else b - a - 1)
            elif isinstance(op, ast.Gt):
                out.append(a - b - 1 if truth else b - a)
            elif isinstance(op, ast.Eq) and truth or isinstance(op, ast.NotEq) and not truth:
                out += [a - b, b - a]
            elif isinstance(op, (ast.Eq, ast.NotEq)):
                # a != b: strict on the side that is already known to be weakly ordered
                if st.facts.prove_ge0(a - b):
                    out.append(a - b - 1)
                elif st.facts.prove_ge0(b - a):
                    out.append(b - a - 1)
            return out
        v = self.ev(t, st)
        if isinstance(v, Int):
            if not truth:
                out += [v.a, -v.a]
            elif st.facts.prove_ge0(v.a):
                out.append(v.a - 1)
        elif isinstance(v, (Seq, Tup)):
            n = self.length(v, st)
            if truth:
                out.append(n - 1)
            else:
                out += [n, -n]
        return out

    # ---- statements -------------------------------------------------------------------
    def store(self, target, val, st):
        if isinstance(target, ast.Name):
            self._bump(st, target.id)
            st.vars[target.id] = val
            # a fresh empty list may become a list of strings that is joined later: track the
            # sum of the lengths of its elements in the pseudo-variable <name>#total
            if (isinstance(val, Seq) and val.kind == 'list' and val.n.is_const() and val.n.c == 0) \
                    or (isinstance(val, Tup) and not val.items):
                st.vars[target.id + '#total'] = Int(Aff.const(0))
            else:
                st.vars.pop(target.id + '#total', None)
        elif isinstance(target, (ast.Tuple, ast.List)):
            items = val.items if isinstance(val, Tup) and len(val.items) == len(target.elts) else None
            # evaluate keys of subscript targets before any of them is written
            for i, t in enumerate(target.elts):
                self.store(t, items[i] if items else Obj(fresh('unpack')), st)
        elif isinstance(target, (ast.Attribute, ast.Subscript)):
            if isinstance(target, ast.Subscript) and isinstance(target.slice, ast.Slice):
                base = target.value
                if isinstance(base, ast.Name):
                    self._bump(st, base.id)
                    st.vars.pop(base.id, None)
                return
            st.vars[unparse(target)] = val

    def transfer(self, s, st):
        if isinstance(s, ast.Assign):
            v = self.ev(s.value, st)
            for t in s.targets:
                self.store(t, v, st)
        elif isinstance(s, ast.AugAssign):
            cur = self.ev(_as_load(s.target), st)
            inc = self.ev(s.value, st)
            new = Obj(fresh('aug'))
            if isinstance(s.op, (ast.Add, ast.Sub)):
                if _seqlike(cur) or _seqlike(inc):
                    a, b = self.length(cur, st), self.length(inc, st)
                    if a is not None and b is not None and isinstance(s.op, ast.Add):
                        new = Seq(a + b, getattr(cur, 'kind', None) or getattr(inc, 'kind', None))
                else:
                    a, b = self.as_int(cur, st), self.as_int(inc, st)
                    if a is not None and b is not None:
                        new = Int(a + b if isinstance(s.op, ast.Add) else a - b)
            self.store(s.target, new, st)
        elif isinstance(s, ast.Expr):
            self.expr_stmt(s, st)
        elif isinstance(s, (ast.Import, ast.ImportFrom, ast.Pass, ast.Global, ast.Nonlocal)):
            pass
        elif isinstance(s, ast.Delete):
            pass
        return st

    def expr_stmt(self, s, st):
        e = s.value
        if isinstance(e, ast.Call) and isinstance(e.func, ast.Attribute):
            tgt = e.func.value
            name = e.func.attr
            if name in ('append', 'extend', 'insert') and e.args:
                cur = self.ev(tgt, st)
                n = self.length(cur, st)
                argv = [self.ev(a, st) for a in e.args]
                if isinstance(tgt, ast.Name) and (tgt.id + '#total') in st.vars:
                    tot = st.vars[tgt.id + '#total']
                    a0 = argv[-1] if name == 'insert' else argv[0]
                    la0 = self.length(a0, st) if a0 is not None else None
                    if name in ('append', 'insert') and la0 is not None and isinstance(tot, Int):
                        st.vars[tgt.id + '#total'] = Int(tot.a + la0)
                    else:
                        st.vars.pop(tgt.id + '#total', None)
                if n is not None and (isinstance(cur, Seq) or isinstance(cur, Tup)):
                    if name == 'extend':
                        m = self.length(argv[0], st)
                        new = Seq(n + m, 'list') if m is not None else Obj(fresh('ext'))
                    else:
                        new = Seq(n + 1, 'list')
                    keep = st.vars.get(tgt.id + '#total') if isinstance(tgt, ast.Name) else None
                    self.store(tgt, new, st) if isinstance(tgt, (ast.Name, ast.Attribute, ast.Subscript)) else None
                    if keep is not None:
                        st.vars[tgt.id + '#total'] = keep
                return
        self.ev(e, st)

    def bind_for(self, s, st):
        it = s.iter
        val = Obj(fresh('item'))
        if isinstance(it, ast.Call):
            r = self.model.resolve_call(it)
            if r and r[0] == 'ext' and r[1] == 're.finditer' and len(it.args) >= 2:
                subj = self.ev(it.args[1], st)
                n = self.length(subj, st)
                if n is not None:
                    s0, e0 = Aff.atom(fresh('mstart')), Aff.atom(fresh('mend'))
                    st.facts = st.facts.add(s0, e0 - s0, n - e0)
                    val = Match(subj, s0, e0)
                    fc = getattr(self, '_for_cands', None)
                    if fc is not None and fc[0] == id(s):
                        if not hasattr(self, '_cur_mend'):
                            self._cur_mend = {}
                        self._cur_mend[id(s)] = e0
                        for c in fc[1]:
                            if c[0] == 'lemstart' and isinstance(st.vars.get(c[1]), Int):
                                st.facts = st.facts.add(s0 - st.vars[c[1]].a)
            elif getattr(it.func, 'id', '') == 'range' and len(it.args) in (1, 2) \
                    and isinstance(s.target, ast.Name):
                ra = [self.as_int(self.ev(x, st), st) for x in it.args]
                if len(ra) == 1:
                    ra = [Aff.const(0), ra[0]]
                if all(x is not None for x in ra):
                    rv = Aff.atom(fresh('rng'))
                    st.facts = st.facts.add(rv - ra[0], ra[1] - 1 - rv)
                    val = Int(rv)
            else:
                itv = self.ev(it, st)
                val = self.for_item(s, itv, st) or val
        else:
            itv = self.ev(it, st)
            val = self.for_item(s, itv, st) or val
        self.store(s.target, val, st)
        return st

    def for_item(self, s, itv, st):
        return None

    def bind_with(self, s, st):
        for it in s.items:
            self.ev(it.context_expr, st)
            if it.optional_vars is not None:
                self.store(it.optional_vars, Obj(fresh('with')), st)
        return st

    def nested_def(self, s, st):
        self._bump(st, s.name)
        st.vars.pop(s.name, None)
        return st

    def on_return(self, node, st):
        v = None
        if node is not None and node.value is not None:
            v = self.ev(node.value, st)
        self.ret_states.append((node, v, st))

    # ---- loops: Houdini ---------------------------------------------------------------
    def _search_loop(self, s, st):
        """the spelled-out form of  v = next((i for i in range(lo, hi) if C), v):
               for i in range(lo, hi):
                   if C:
                       v = i
                       break
        returns the state after the loop, or None if s is not of that form"""
        if not (isinstance(s, ast.For) and not s.orelse and isinstance(s.target, ast.Name)
                and isinstance(s.iter, ast.Call) and getattr(s.iter.func, 'id', '') == 'range'
                and len(s.iter.args) in (1, 2) and len(s.body) == 1 and isinstance(s.body[0], ast.If)
                and not s.body[0].orelse and len(s.body[0].body) == 2
                and isinstance(s.body[0].body[1], ast.Break)):
            return None
        a = s.body[0].body[0]
        if not (isinstance(a, ast.Assign) and len(a.targets) == 1 and isinstance(a.targets[0], ast.Name)
                and isinstance(a.value, ast.Name) and a.value.id == s.target.id):
            return None
        v = a.targets[0].id
        i = s.target.id
        # the condition must not have side effects on tracked state: only reads
        for x in ast.walk(s.body[0].test):
            if isinstance(x, (ast.NamedExpr, ast.Await, ast.Yield)):
                return None
        d = st.vars.get(v)
        if not isinstance(d, Int):
            return None
        ra = [self.as_int(self.ev(x, st), st) for x in s.iter.args]
        if len(ra) == 1:
            ra = [Aff.const(0), ra[0]]
        if any(x is None for x in ra):
            return None
        r = Aff.atom(fresh('next'))
        st.facts = st.facts.add_disj([[r - ra[0], ra[1] - 1 - r], [r - d.a, d.a - r]])
        self.searches.append((s, ra[0], ra[1], d.a, r, st))
        self.store(a.targets[0], Int(r), st)
        # the loop variable is left at some value of the range (or unbound): not tracked
        self._bump(st, i)
        st.vars.pop(i, None)
        return st

    def loop(self, s, st):
        sl = self._search_loop(s, st)
        if sl is not None:
            return sl
        assigned = _assigned_names(s)
        akeys = _assigned_keys(s)
        # values at entry
        entry = st
        # candidate invariants: equal lengths among modified seq variables, v >= 0 for ints
        seqvars = [k for k in list(entry.vars) if (k in assigned or k in akeys)
                   and self.length(entry.vars[k], entry) is not None
                   and not isinstance(entry.vars[k], Obj)]
        intvars = [k for k in entry.vars if k in assigned and isinstance(entry.vars[k], Int)]
        cands = []
        for a, b in itertools.combinations(sorted(seqvars), 2):
            if entry.facts.prove_eq(self.length(entry.vars[a], entry), self.length(entry.vars[b], entry)):
                cands.append(('eqlen', a, b))
        for v in intvars:
            if entry.facts.prove_ge0(entry.vars[v].a):
                cands.append(('ge0', v))
        # sum of element lengths of a list of strings == length of a companion sequence
        totkeys = [a + '#total' for a in assigned if isinstance(entry.vars.get(a + '#total'), Int)]
        akeys = set(akeys) | set(totkeys)
        for tk in totkeys:
            for b in sorted(seqvars):
                if entry.facts.prove_eq(entry.vars[tk].a, self.length(entry.vars[b], entry)):
                    cands.append(('eqint', tk, b))
        if isinstance(s, ast.For) and isinstance(s.iter, ast.Call):
            rr = self.model.resolve_call(s.iter)
            if rr and rr[0] == 'ext' and rr[1] == 're.finditer':
                # matches are disjoint and ordered: the next match starts at or behind the end of this one,
                # so a variable that never exceeds the end of the current match is <= the start of the next
                for v in intvars:
                    if entry.facts.prove_ge0(-entry.vars[v].a):
                        cands.append(('lemstart', v))
        for k in entry.vars:
            if k in assigned or k in akeys:
                cands.append(('same', k))
                if isinstance(entry.vars[k], Int):
                    cands.append(('mono', k))
        if not hasattr(self, '_entry_stack'):
            self._entry_stack = []
            self._loop_ids = []
        self._entry_stack.append(entry)
        self._loop_ids.append(id(s))
        extra = self.extra_candidates(s, entry, assigned | akeys)
        cands += extra
        it = 0
        while True:
            it += 1
            if it > 12:
                raise AnalysisError('loop invariant search did not converge (line %d)' % s.lineno)
            head = self.havoc(entry, assigned, akeys, cands, s)
            frame = {'break': [], 'continue': []}
            self.loop_stack.append(frame)
            if isinstance(s, ast.While):
                body_in = self.cond(s.test, head.copy(), True)
            else:
                self._for_cands = (id(s), cands)
                body_in = self.bind_for(s, head.copy())
                self._for_cands = None
            outs = self.paths(s.body, body_in)
            self.loop_stack.pop()
            self.loop_heads[id(s)] = head
            backs = [x for x in outs + frame['continue'] if x is not None]
            keep = []
            for c in cands:
                if all(self.holds(c, b) for b in backs):
                    keep.append(c)
            if len(keep) == len(cands):
                break
            cands = keep
        self._entry_stack.pop()
        self._loop_ids.pop()
        self.invariants[id(s)] = [self.cand_text(c) for c in cands]
        for b in backs:
            for hook in self.backedge_hooks:
                hook(s, b)
        if isinstance(s, ast.While):
            if isinstance(s.test, ast.Constant) and s.test.value is True:
                exit_st = None
            else:
                exit_st = self.cond(s.test, head.copy(), False)
        else:
            exit_st = head.copy()
        if exit_st is not None and s.orelse:
            exit_st = self.block(s.orelse, exit_st)
        for b in frame['break']:
            exit_st = self.j(exit_st, b)
        return exit_st

    MAX_PATHS = 128

    def paths(self, stmts, st, budget=None):
        """end states of all paths through a statement list, forking at If statements
        (path-sensitive inside loop bodies); infeasible branches are pruned"""
        if budget is None:
            budget = [self.MAX_PATHS]
        for i, s in enumerate(stmts):
            if st is None:
                return []
            if isinstance(s, ast.If) and budget[0] > 0:
                self._record(s, st)
                rest = list(stmts[i + 1:])
                res = []
                for branch, body in ((True, s.body), (False, s.orelse)):
                    st2 = self.cond(s.test, st.copy(), branch)
                    if st2.facts.infeasible():
                        continue
                    budget[0] -= 1
                    res += self.paths(list(body) + rest, st2, budget)
                return res
            st = self.stmt(s, st)
        return [st] if st is not None else []

    def extra_candidates(self, s, entry, assigned):
        return []

    def cand_text(self, c):
        if c[0] == 'eqlen':
            return 'len(%s) == len(%s)' % (c[1], c[2])
        if c[0] == 'eqint':
            return 'sum of len(x) for x in %s == len(%s)' % (c[1].split('#')[0], c[2])
        if c[0] == 'ge0':
            return '%s >= 0' % c[1]
        if c[0] == 'same':
            return '%s unchanged at the back edge' % c[1]
        if c[0] == 'mono':
            return '%s never decreases' % c[1]
        if c[0] == 'lemstart':
            return '%s <= start of the current match' % c[1]
        return repr(c)

    def havoc(self, entry, assigned, akeys, cands, loop):
        st = entry.copy()
        groups = {}
        for c in cands:
            if c[0] == 'eqlen':
                ga = groups.get(c[1]) or groups.get(c[2]) or ('len', fresh('inv'))
                groups[c[1]] = groups[c[2]] = ga
        intgroup = {}
        for c in cands:
            if c[0] == 'eqint':
                ga = groups.get(c[2]) or ('len', fresh('inv'))
                groups[c[2]] = ga
                intgroup[c[1]] = ga
        same = {c[1] for c in cands if c[0] == 'same'}
        for k in list(st.vars):
            if k in same:
                continue
            if k in intgroup and (k in assigned or k in akeys):
                st.vars[k] = Int(Aff.atom(intgroup[k]))
                continue
            if k in assigned or k in akeys or any(_mentions(k, a) for a in assigned if k != a):
                old = st.vars[k]
                if k in groups:
                    st.vars[k] = Seq(Aff.atom(groups[k]), getattr(old, 'kind', None))
                elif isinstance(old, (Seq, Tup)):
                    st.vars[k] = Seq(Aff.atom(('len', fresh('hv'))), getattr(old, 'kind', None))
                elif isinstance(old, Int):
                    a = Aff.atom(fresh('hv'))
                    st.vars[k] = Int(a)
                    if ('ge0', k) in cands:
                        st.facts = st.facts.add(a)
                    if ('mono', k) in cands:
                        st.facts = st.facts.add(a - old.a)
                    self._heads_of.setdefault(id(loop), {})[k] = a
                else:
                    st.vars[k] = Obj(fresh('hv'))
        for a in assigned:
            if a in same:
                continue
            st.ver[a] = st.ver.get(a, 0) + 1000 + next(_counter)
        # path facts that mention havocked atoms are still sound (atoms are values, not names)
        return st

    def holds(self, c, st):
        if c[0] == 'eqlen':
            a, b = st.vars.get(c[1]), st.vars.get(c[2])
            if a is None or b is None:
                return False
            la, lb = self.length(a, st), self.length(b, st)
            return la is not None and lb is not None and st.facts.prove_eq(la, lb)
        if c[0] == 'eqint':
            a, b = st.vars.get(c[1]), st.vars.get(c[2])
            if not isinstance(a, Int) or b is None:
                return False
            lb = self.length(b, st)
            return lb is not None and st.facts.prove_eq(a.a, lb)
        if c[0] == 'ge0':
            v = st.vars.get(c[1])
            return isinstance(v, Int) and st.facts.prove_ge0(v.a)
        if c[0] == 'lemstart':
            v = st.vars.get(c[1])
            e0 = getattr(self, '_cur_mend', {}).get(self._loop_ids[-1]) if self._loop_ids else None
            return isinstance(v, Int) and e0 is not None and st.facts.prove_ge0(e0 - v.a)
        if c[0] == 'mono':
            v = st.vars.get(c[1])
            h = self._heads_of.get(self._loop_ids[-1], {}).get(c[1]) if self._loop_ids else None
            if not isinstance(v, Int) or h is None:
                return False
            return st.facts.prove_ge0(v.a - h)
        if c[0] == 'same':
            v, w = st.vars.get(c[1]), self._entry_of(c[1])
            if v is None or w is None:
                return False
            if v == w:
                return True
            if isinstance(v, Int) and isinstance(w, Int):
                return st.facts.prove_eq(v.a, w.a)
            if isinstance(v, Seq) and isinstance(w, Seq):
                return st.facts.prove_eq(v.n, w.n) and v.desc == w.desc
            return False
        return False

    def _entry_of(self, k):
        return self._entry_stack[-1].vars.get(k) if self._entry_stack else None


def _is_pseudo(k):
    return isinstance(k, str) and ('.' in k or '[' in k)


def _seqlike(v):
    return isinstance(v, (Seq, Tup))


def _mentions(key, name):
    import re
    return re.search(r'(?<![A-Za-z_0-9.])' + re.escape(name) + r'(?![A-Za-z_0-9])', key) is not None


def _as_load(t):
    import copy
    n = copy.copy(t)
    n.ctx = ast.Load()
    return n


def _assigned_names(loop):
    out = set()
    for n in ast.walk(loop):
        if isinstance(n, ast.Name) and isinstance(n.ctx, ast.Store):
            out.add(n.id)
        elif isinstance(n, ast.Call) and isinstance(n.func, ast.Attribute) \
                and n.func.attr in ('append', 'extend', 'insert', 'pop', 'sort', 'remove', 'clear') \
                and isinstance(n.func.value, ast.Name):
            out.add(n.func.value.id)
    return out


def _assigned_keys(loop):
    """attribute / subscript store targets (text) inside the loop"""
    out = set()
    for n in ast.walk(loop):
        if isinstance(n, (ast.Attribute, ast.Subscript)) and isinstance(n.ctx, ast.Store):
            out.add(unparse(n))
    return out
