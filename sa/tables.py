"""Component F of DESIGN.md: literal evaluation of the repository's tables."""
import ast

from .model import AnalysisError, iter_scope


def self_attr_assignments(model, cls_qname, attr):
    """value nodes of `self.<attr> = value` in any method of the class"""
    c = model.cls(cls_qname)
    out = []
    for f in c.methods.values():
        for n in ast.walk(f.node):
            if isinstance(n, ast.Assign):
                for t in n.targets:
                    if (isinstance(t, ast.Attribute) and t.attr == attr
                            and isinstance(t.value, ast.Name) and t.value.id == 'self'):
                        out.append(n.value)
    return out


def literal(node):
    try:
        return ast.literal_eval(node)
    except Exception:
        return None


def parameters_table(model, attr, required=True):
    vals = self_attr_assignments(model, 'parameters.Parameters', attr)
    if not vals:
        if required:
            raise AnalysisError('anchor vanished: table Parameters.' + attr)
        return None, None
    if len(vals) > 1:
        # several assignments: the analysis keeps the first literal and reports the
        # others to the caller through the node list
        pass
    v = literal(vals[0])
    return v, vals[0]


def dict_items(node):
    """(key node, value node) pairs of a dict display"""
    if not isinstance(node, ast.Dict):
        return None
    return list(zip(node.keys, node.values))


def language_settings(model):
    """keyword arguments of every ParserLanguageSettings(...) call:
       list of (call node, {kw: value node})"""
    out = []
    c = model.cls('parameters.Parameters')
    for f in c.methods.values():
        for n in ast.walk(f.node):
            if isinstance(n, ast.Call):
                r = model.resolve_call(n)
                if r and r[0] == 'class' and r[1].qname == 'parameters.ParserLanguageSettings':
                    out.append((n, {k.arg: k.value for k in n.keywords}))
    return out


def registry(model):
    """every Macro / Environ / EquEnv constructor call of the repository:
       list of dict(node, kind, name node, args, kw)"""
    out = []
    for m in model.mods.values():
        for n in ast.walk(m.tree):
            if not isinstance(n, ast.Call):
                continue
            r = model.resolve_call(n)
            if not (r and r[0] == 'class' and r[1].qname in
                    ('defs.Macro', 'defs.Environ', 'defs.EquEnv')):
                continue
            kw = {k.arg: k.value for k in n.keywords}
            pos = list(n.args)
            ent = {'node': n, 'kind': r[1].name, 'kw': kw,
                   'name': pos[1] if len(pos) > 1 else kw.get('name'),
                   'args': pos[2] if len(pos) > 2 else kw.get('args'),
                   'repl': pos[3] if len(pos) > 3 else kw.get('repl')}
            out.append(ent)
    return out
