"""Reaching definitions of local names (instance of component D on the structured flow).

deftab entries: (kind, name, node)
  kind 'param'   node = None
       'assign'  node = value expression
       'unpack'  node = (value expression, index)
       'aug'     node = the AugAssign statement
       'for'     node = the iterable expression (For) ; 'forunpack' likewise (tuple target)
       'with' / 'except' / 'def' / 'import' / 'comp' (comprehension iterable) / 'free'
"""
import ast

from .flow import Flow


class ReachDefs(Flow):
    def __init__(self, func):
        super().__init__()
        self.func = func
        self.deftab = []
        st = {}
        for p in func.params:
            st[p] = frozenset([self._new('param', p, None)])
        self.run(func.body, st)

    def _new(self, kind, name, node):
        self.deftab.append((kind, name, node))
        return len(self.deftab) - 1

    _cache = {}

    def _def(self, key, kind, name, node):
        # one def id per syntactic definition site (stable across loop iterations)
        k = (id(key), name)
        if k not in self._cache_local:
            self._cache_local[k] = self._new(kind, name, node)
        return self._cache_local[k]

    @property
    def _cache_local(self):
        if not hasattr(self, '_cl'):
            self._cl = {}
        return self._cl

    def join(self, a, b):
        out = dict(a)
        for k, v in b.items():
            out[k] = out.get(k, frozenset()) | v
        # a name defined on one side only: keep what is known (use-before-def is not our topic)
        return out

    def _bind_target(self, t, st, key, kind, node, idx=None):
        if isinstance(t, ast.Name):
            if idx is None:
                st[t.id] = frozenset([self._def(key, kind, t.id, node)])
            else:
                st[t.id] = frozenset([self._def(key, 'unpack' if kind == 'assign' else kind + 'unpack',
                                                t.id, (node, idx))])
        elif isinstance(t, (ast.Tuple, ast.List)):
            for i, e in enumerate(t.elts):
                self._bind_target(e, st, key, kind, node, i if idx is None else (idx, i))
        elif isinstance(t, ast.Starred):
            self._bind_target(t.value, st, key, kind, node, idx)

    def transfer(self, s, st):
        if isinstance(s, ast.Assign):
            for t in s.targets:
                self._bind_target(t, st, s, 'assign', s.value)
        elif isinstance(s, ast.AnnAssign) and s.value is not None:
            self._bind_target(s.target, st, s, 'assign', s.value)
        elif isinstance(s, ast.AugAssign):
            if isinstance(s.target, ast.Name):
                st[s.target.id] = frozenset([self._def(s, 'aug', s.target.id, s)])
        elif isinstance(s, (ast.Import, ast.ImportFrom)):
            for al in s.names:
                n = (al.asname or al.name).split('.')[0]
                st[n] = frozenset([self._def(s, 'import', n, s)])
        elif isinstance(s, ast.Delete):
            for t in s.targets:
                if isinstance(t, ast.Name):
                    st.pop(t.id, None)
        return st

    def bind_for(self, s, st):
        self._bind_target(s.target, st, s, 'for', s.iter)
        return st

    def bind_with(self, s, st):
        for it in s.items:
            if it.optional_vars is not None:
                self._bind_target(it.optional_vars, st, it, 'with', it.context_expr)
        return st

    def bind_except(self, h, st):
        if h.name:
            st[h.name] = frozenset([self._def(h, 'except', h.name, h)])
        return st

    def nested_def(self, s, st):
        st[s.name] = frozenset([self._def(s, 'def', s.name, s)])
        return st

    # ---- queries ------------------------------------------------------------
    def state_at(self, node):
        n = node
        while n is not None and id(n) not in self.pre:
            n = getattr(n, '_parent', None)
        return self.pre.get(id(n), {}) if n is not None else {}

    def defs_of(self, name_node):
        """definitions (kind, name, node) reaching this Name use"""
        name = name_node.id
        # comprehension / lambda binders between the use and the statement
        p = getattr(name_node, '_parent', None)
        child = name_node
        while p is not None and not isinstance(p, ast.stmt):
            if isinstance(p, (ast.ListComp, ast.SetComp, ast.GeneratorExp, ast.DictComp)):
                for g in p.generators:
                    if any(isinstance(x, ast.Name) and x.id == name for x in ast.walk(g.target)):
                        if child is not g.iter or p.generators.index(g) > 0:
                            return [('comp', name, g.iter)]
            if isinstance(p, ast.Lambda):
                if name in [a.arg for a in p.args.args]:
                    return [('param', name, None)]
            child = p
            p = getattr(p, '_parent', None)
        st = self.state_at(name_node)
        if name in st:
            return [self.deftab[i] for i in sorted(st[name])]
        return [('free', name, None)]

    def same_defs(self, name, node_a, node_b):
        """does `name` have the same reaching definitions at both program points?"""
        a = self.state_at(node_a).get(name)
        b = self.state_at(node_b).get(name)
        return a == b


_RD = {}


def reachdefs(func):
    k = id(func.node)
    if k not in _RD:
        _RD[k] = ReachDefs(func)
    return _RD[k]


def reset_cache():
    _RD.clear()
