"""Semantics-preserving normalisation of a function body before path-sensitive evaluation:
'return sinking'.  A body of the form

        if a:   tok = f()
        elif b: tok = g()
        else:
            for t in xs:
                if c: tok = h(); break
            else:
                tok = k()
        return tok

is rewritten (on a private clone of the AST, the model's tree is not touched) into the form with
one return per path, which is what the evaluators of PD6 / OK1 / ... decide precisely.  Only
three rewrites are used, each an identity of Python semantics:
    S; v = E; return v          ==  S; return E
    if c: A else: B; return v   ==  if c: A; return v  else: B; return v
    loop: ... break ... else: C; return v   ==  loop: ... return v ...; C; return v
"""
import ast

_KEEP = (ast.FunctionDef, ast.AsyncFunctionDef, ast.Lambda, ast.ClassDef)


def clone(node, parent=None, top=True):
    """copy of an AST subtree; extra attributes (_mod, _fn, positions) are carried over by
    reference, _parent is re-linked inside the copy; nested function / class definitions are
    shared with the original (the model indexes them by identity)"""
    if isinstance(node, list):
        return [clone(x, parent, False) for x in node]
    if not isinstance(node, ast.AST):
        return node
    if isinstance(node, _KEEP) and not top:
        return node
    new = node.__class__.__new__(node.__class__)
    new.__dict__.update(node.__dict__)
    for f in node._fields:
        if hasattr(node, f):
            setattr(new, f, clone(getattr(node, f), new, False))
    new._parent = parent if parent is not None else getattr(node, '_parent', None)
    return new


def _relink(node):
    for ch in ast.iter_child_nodes(node):
        if isinstance(ch, _KEEP):
            continue
        ch._parent = node
        _relink(ch)


def _mkret(proto, value=None):
    r = ast.Return(value=value if value is not None else clone(proto.value, None, False))
    for a in ('lineno', 'col_offset', 'end_lineno', 'end_col_offset', '_mod', '_fn'):
        if hasattr(proto, a):
            setattr(r, a, getattr(proto, a))
    return r


def _has_break(stmts):
    for s in stmts:
        if isinstance(s, ast.Break):
            return True
        if isinstance(s, (ast.For, ast.While)) or isinstance(s, _KEEP):
            continue
        for f in ('body', 'orelse', 'finalbody', 'handlers'):
            sub = getattr(s, f, None)
            if isinstance(sub, list) and sub and isinstance(sub[0], ast.AST):
                if isinstance(sub[0], ast.ExceptHandler):
                    if any(_has_break(h.body) for h in sub):
                        return True
                elif _has_break(sub):
                    return True
    return False


def _breaks_to_returns(stmts, v, proto):
    out = []
    for s in stmts:
        if isinstance(s, ast.Break):
            return _push(out, v, proto)
        if isinstance(s, ast.If):
            s.body = _breaks_to_returns(s.body, v, proto)
            s.orelse = _breaks_to_returns(s.orelse, v, proto)
        elif isinstance(s, ast.Try):
            s.body = _breaks_to_returns(s.body, v, proto)
            s.orelse = _breaks_to_returns(s.orelse, v, proto)
        out.append(s)
    return out


def _push(stmts, v, proto):
    """statement list equivalent to  stmts; return v"""
    if not stmts:
        return [_mkret(proto)]
    last = stmts[-1]
    if isinstance(last, ast.Assign) and len(last.targets) == 1 and isinstance(last.targets[0], ast.Name) \
            and last.targets[0].id == v:
        r = _mkret(last, value=last.value)
        return stmts[:-1] + [r]
    if isinstance(last, ast.If):
        last.body = _push(last.body, v, proto)
        last.orelse = _push(last.orelse, v, proto)
        return stmts
    if isinstance(last, (ast.For, ast.While)) and (_has_break(last.body)) \
            and not (isinstance(last, ast.While) and isinstance(last.test, ast.Constant) and last.test.value is True
                     and False):
        last.body = _breaks_to_returns(last.body, v, proto)
        after = _push(last.orelse, v, proto)
        last.orelse = []
        return stmts + after
    return stmts + [_mkret(proto)]


_cache = {}


def sunk_body(func):
    """normalised statement list of a function (clone), or its own body if nothing applies"""
    key = id(func.node)
    if key in _cache:
        return _cache[key]
    body = func.node.body if isinstance(func.node.body, list) else None
    res = body if body is not None else func.body
    if body and isinstance(body[-1], ast.Return) and isinstance(body[-1].value, ast.Name) and len(body) >= 2:
        v = body[-1].value.id
        prev = body[-2]
        interesting = isinstance(prev, (ast.If, ast.For, ast.While)) or (
            isinstance(prev, ast.Assign) and len(prev.targets) == 1 and isinstance(prev.targets[0], ast.Name)
            and prev.targets[0].id == v)
        # the variable must not be read anywhere else after being assigned in a way that the
        # rewrites would change: they never remove an assignment that is read (only `v = E;
        # return v` directly in front of the return), so no further condition is needed
        if interesting:
            fn = clone(func.node)
            proto = fn.body[-1]
            fn.body = _push(fn.body[:-1], v, proto)
            _relink(fn)
            res = fn.body
    _cache[key] = res
    return res


def reset():
    _cache.clear()
