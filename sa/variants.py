"""Variant corpus of the self-test: one-site edits of the repository source.
expect = rules that must fire; empty = neutral variant (must stay silent)."""

VARIANTS = []


def V(id, props, file, old, new, expect):
    VARIANTS.append(dict(id=id, props=props, file=file, old=old, new=new,
                         expect=[expect] if isinstance(expect, str) else list(expect)))


P = 'yalafi/parser.py'
U = 'yalafi/utils.py'
S = 'yalafi/scanner.py'
MP = 'yalafi/mathparser.py'
T2 = 'yalafi/tex2txt.py'
PR = 'yalafi/shell/proofreader.py'

# ---------------------------------------------------------------- PD
V('pd1-drop-posfix-special', ['C01', 'C02'], P,
  'out.append(defs.TextToken(tok.pos, txt, pos_fix=tok.pos_fix))',
  'out.append(defs.TextToken(tok.pos, txt))', 'PD1')
V('pd1-drop-posfix-item', ['C01', 'C04'], P,
  "return defs.SpaceToken(pos, ' ', pos_fix=True)",
  "return defs.SpaceToken(pos, '  ')", 'PD1')
V('pd1-drop-posfix-mathrepl', ['C01', 'C04'], MP,
  "repls[0], pos_fix=True))", "repls[0]))", 'PD1')
V('pd1-neutral-kw-order', ['C01', 'C04'], MP,
  "out.append(defs.TextToken(op.pos, s, pos_fix=True))",
  "out.append(defs.TextToken(pos=op.pos, txt=s, pos_fix=True))", [])
V('pd2-drop-pin-default', ['C01', 'C04'], P,
  "                            t.pos = start\n                            t.pos_fix = True\n",
  "                            t.pos = start\n", 'PD2')
V('pd2-drop-pin-genrepl', ['C01', 'C04'], P,
  "                tok.pos = cur_pos\n                tok.pos_fix = True\n",
  "                tok.pos = cur_pos\n", 'PD2')
V('pd3-unguarded-shift', ['C01', 'C02'], P,
  "                    if not t2.pos_fix:\n                        t2.pos += pos\n",
  "                    t2.pos += pos\n", 'PD3')
V('pd4-trim-no-advance', ['C02'], P,
  "            args[0].txt = args[0].txt[1:]\n            if not args[0].pos_fix:\n                args[0].pos += 1\n",
  "            args[0].txt = args[0].txt[1:]\n", 'PD4')
V('pd5-drop-copy-genrepl', ['C01', 'C04'], P,
  "                tok = copy.copy(tok)\n                tok.pos = cur_pos",
  "                tok.pos = cur_pos", 'PD5')
V('pd5-drop-copy-default', ['C04'], P,
  "arg = [copy.copy(t) for t in mac.defaults[n]]",
  "arg = list(mac.defaults[n])", 'PD5')
V('pd5-drop-copy-gls', ['C04'], 'yalafi/packages/glossaries.py',
  "        toks = [copy.copy(t) for t in toks]\n", "", 'PD5')
V('pd5-neutral-rename', ['C04'], P,
  "                tok = copy.copy(tok)\n                tok.pos = cur_pos\n                tok.pos_fix = True\n                out.append(tok)",
  "                t9 = copy.copy(tok)\n                t9.pos = cur_pos\n                t9.pos_fix = True\n                out.append(t9)", [])
# ---------------------------------------------------------------- EM
V('em1-subscript', ['C08', 'C01'], S,
  "toks = utils.latex_error(err, start, latex, self.parms)\n        return defs.TextToken(start, ''.join(t.txt for t in toks),",
  "toks = utils.latex_error(err, start, latex, self.parms)\n        return defs.TextToken(start, toks[0].txt,", 'EM1')
V('em3-drop-collected', ['C08'], P,
  "pos, self.latex, self.parms) + out)", "pos, self.latex, self.parms))", 'EM3')
# ---------------------------------------------------------------- LS
V('ls1-range-off', ['C01'], U,
  "pos += list(range(t.pos, t.pos + len(t.txt)))",
  "pos += list(range(t.pos, t.pos + len(t.txt) + 1))", 'LS1')
V('ls1-fixed-len', ['C01'], U,
  "pos += [t.pos] * len(t.txt)", "pos += [t.pos]", 'LS1')
V('ls1-unkn-map', ['C01'], T2,
  "pos = [0 for n in range(len(txt))]", "pos = [0 for n in range(len(txt) - 1)]", 'LS1')
V('ls1-neutral-append', ['C01'], U,
  "pos += [t.pos] * len(t.txt)", "pos.extend([t.pos] * len(t.txt))", [])
V('ls1-subst-short', ['C13', 'C01'], U,
  "o_pos += i_pos[cur:cur+r_len]", "o_pos += i_pos[cur:cur+m_len]", 'LS1')
V('ls1-subst-long', ['C13', 'C01'], U,
  "* (r_len - m_len))", "* (r_len - m_len + 1))", 'LS1')
V('ls1-subst-neutral-lt', ['C13', 'C01'], U,
  "if r_len <= m_len:", "if r_len < m_len:", [])
V('ls1m-placeholder-pos', ['C12', 'C01'], U,
  "pos = [incl.pos[start]] * len(repl[0])", "pos = [incl.pos[start]] * len(incl.txt)", 'LS1m')
V('ls1m-join-one-side', ['C12', 'C01'], U,
  "                sections[0].pos += sections[1].pos\n", "", 'LS1m')
V('ls1s-delim-pad', ['C14', 'C01'], PR,
  "charmap_tot += [charmap_tot[-1]] * len(delim)", "charmap_tot += [charmap_tot[-1]]", 'LS1s')

# ---------------------------------------------------------------- AB
V('ab1-mark-off-by-one', ['C01', 'C08'], U,
  "out.append(defs.TextToken(pos + mx -1, mark[mx:], pos_fix=True))",
  "out.append(defs.TextToken(pos + mx, mark[mx:], pos_fix=True))", 'AB1')
V('ab1-no-min', ['C01', 'C08'], U,
  "mx = min(len(mark), len(latex) - pos)", "mx = len(latex) - pos", 'AB1')
V('ab1-neutral-reorder', ['C01', 'C08'], U,
  "mx = min(len(mark), len(latex) - pos)", "mx = min(len(latex) - pos, len(mark))", [])
V('ab1-wrong-text', ['C08'], 'yalafi/mathparser.py',
  "self.parser.latex, self.parser.parms) + out)", "buf, self.parser.parms) + out)", 'AB1')
V('ab2-no-clamp', ['C15', 'C14'], 'yalafi/shell/utils.py',
  "end = min(max(0, beg + m['length'] - 1), len(charmap) - 1)",
  "end = max(0, beg + m['length'] - 1)", 'AB2')
V('ab2-clamp-len', ['C15', 'C14'], 'yalafi/shell/utils.py',
  "beg = min(max(0, m['offset']), len(charmap) - 1)",
  "beg = min(max(0, m['offset']), len(charmap))", 'AB2')
V('ab2-range-check-weak', ['C15'], PR,
  "if beg < 0 or beg >= len(charmap_tot):", "if beg < 0 or beg > len(charmap_tot):", 'AB2')
V('ab3-pad-index', ['C13'], U,
  "+ [i_pos[cur+m_len-1]] * (r_len - m_len))", "+ [i_pos[cur+m_len]] * (r_len - m_len))", 'AB3')
V('ab3-cursor', ['C13'], U,
  "        last = m.end(0)\n", "        last = cur + r_len\n", 'AB3')
V('ab3-slice-mismatch', ['C13'], U,
  "o_pos += i_pos[last:cur]", "o_pos += i_pos[last:cur+1]", ['LS1'])
# ---------------------------------------------------------------- TJ
V('tj1-raw-offset', ['C15'], 'yalafi/shell/gentext.py',
  "offset = json_get(m, 'offset', int)", "offset = m['offset']", [])
V('tj1-raw-message', ['C15'], 'yalafi/shell/gentext.py',
  "out.write('Message: ' + json_get(m, 'message', str) + '\\n')",
  "out.write('Message: ' + m['message'] + '\\n')", 'TJ1')
V('tj1-raw-rule', ['C15'], 'yalafi/shell/genxml.py',
  "category = json_get(rule, 'category', dict)", "category = rule['category']", 'TJ1')
V('tj1-unvalidated-length', ['C15'], PR,
  "                m['length'] = json_get(m, 'length', int)\n", "", 'TJ1')
V('tj1-urls-unguarded', ['C15'], 'yalafi/shell/gentext.py',
  "            if urls:\n                out.write('More info: ' + json_get(urls[0], 'value', str)\n                                + '\\n')",
  "            out.write('More info: ' + json_get(urls[0], 'value', str)\n                                + '\\n')", 'TJ1')
V('tj2-decode-outside', ['C15'], PR,
  "    try:\n        out = out.decode(encoding='utf-8')\n        dic = json_decoder.decode(out)\n    except:\n        json_fatal('JSON root element')\n    matches = json_get(dic, 'matches', list)",
  "    out = out.decode(encoding='utf-8')\n    try:\n        dic = json_decoder.decode(out)\n    except:\n        json_fatal('JSON root element')\n    matches = json_get(dic, 'matches', list)", 'TJ2')
V('tj3-no-dict-check', ['C15'], 'yalafi/shell/shell.py',
  "    if not isinstance(dic, dict):\n        json_fatal(item)\n    ret = dic.get(item)",
  "    try:\n        ret = dic[item]\n    except KeyError:\n        json_fatal(item)", 'TJ3')
# ---------------------------------------------------------------- PS
V('ps1-module-cache', ['C17'], 'yalafi/packages/glossaries.py',
  "def get_glossary(parser):\n    if not hasattr(parser, 'the_glossary'):\n        parser.the_glossary = {}\n    return parser.the_glossary",
  "the_glossary = {}\ndef get_glossary(parser):\n    return the_glossary", 'PS1')
V('ps1-server-no-copy', ['C17'], 'yalafi/shell/server.py',
  "old_opts = self.server.my_lt_options.copy()", "old_opts = self.server.my_lt_options", 'PS1')
V('ps1-default-arg', ['C17'], P,
  "        self.packages = {}\n", "        self.packages = {}\n        packages.append(('', ([], None)))\n", 'PS1')
V('ps1-shared-table', ['C17'], 'yalafi/parameters.py',
  "            lang_change_repl = ['K-K-K', 'L-L-L', 'M-M-M', 'N-N-N'],\n            lang_change_repl_vowel = None,\n            short_macros = {}\n        )\n        settings['de']",
  "            lang_change_repl = LANG_CHANGE,\n            lang_change_repl_vowel = None,\n            short_macros = {}\n        )\n        settings['de']", [])
V('ps2-global-counter', ['C17'], 'yalafi/utils.py',
  "def latex_error(err, pos, latex, parms):\n", "error_count = 0\ndef latex_error(err, pos, latex, parms):\n    global error_count\n    error_count += 1\n", 'PS2')

# ---------------------------------------------------------------- TH
GH = 'yalafi/shell/genhtml.py'
V('th1-drop-escape-gap', ['C16'], GH,
  "res += protect_html(tex[last:h.beg])", "res += tex[last:h.beg]", 'TH1')
V('th1-drop-escape-msg', ['C16'], GH,
  "msg = protect_attr(json_get(m, 'message', str)) + '\\n'",
  "msg = json_get(m, 'message', str) + '\\n'", 'TH1')
V('th1-double-escape', ['C16'], GH,
  "    s = protect_html(s)\n    post = end_href + end_match()",
  "    s = protect_html(protect_html(s))\n    post = end_href + end_match()", 'TH1')
V('th1-amp-last', ['C16'], GH,
  "    s = re.sub(r'&', r'&amp;', s)\n    s = re.sub(r'\"', r'&quot;', s)\n",
  "    s = re.sub(r'\"', r'&quot;', s)\n    s = re.sub(r'&', r'&amp;', s)\n", 'TH1')
V('th1-no-quote', ['C16'], GH,
  "    s = re.sub(r'\"', r'&quot;', s)\n", "", 'TH1')
V('th1-neutral-local', ['C16'], GH,
  "res += protect_html(tex[last:h.beg])", "piece = tex[last:h.beg]\n            res += protect_html(piece)", [])
V('th2-cursor-overlap', ['C16'], GH,
  "                overlaps.append((s, h.lin + 1))\n                continue\n",
  "                overlaps.append((s, h.lin + 1))\n                last = h.end\n                continue\n", 'TH2')
V('th2-cursor-beg', ['C16'], GH,
  "            last = h.end\n", "            last = h.beg\n", 'TH2')
V('th2-drop-overlap', ['C16'], GH,
  "                overlaps.append((s, h.lin + 1))\n                continue\n",
  "                continue\n", 'TH2')

# ---------------------------------------------------------------- MT
V('mt1-paren', ['C10', 'C11'], MP,
  "if inline or (next_repl or op and first_part) and elem:",
  "if (inline or next_repl or op and first_part) and elem:", 'MT1')
V('mt1-neutral-paren', ['C10', 'C11'], MP,
  "if inline or (next_repl or op and first_part) and elem:",
  "if inline or ((next_repl or (op and first_part)) and elem):", [])
V('mt1-no-punct-repl', ['C10', 'C11'], MP,
  "                out.append(defs.TextToken(tok.pos, c, pos_fix=True))\n                next_repl = True\n",
  "                out.append(defs.TextToken(tok.pos, c, pos_fix=True))\n", 'MT1')
V('mt1-opword-inline', ['C10', 'C11'], MP,
  "if not inline and first_part and op:", "if first_part and op:", 'MT1')
V('mt1-order', ['C10', 'C11'], MP,
  "            if tok.end_space():\n                out.append(defs.SpaceToken(tok.pos, ' ', pos_fix=True))\n        return out, next_repl",
  "        return out, next_repl", 'MT1')
V('mt1-neutral-rename', ['C10', 'C11'], MP,
  "            op = tok.leading_op()\n            elem = tok.has_elem(parms)\n            if not inline and first_part and op:",
  "            elem = tok.has_elem(parms)\n            op = tok.leading_op()\n            if (not inline) and first_part and op:", [])
V('mt2-inline-flag', ['C10'], MP,
  "t, x = self.replace_section(True, tokens, True, True,", "t, x = self.replace_section(True, tokens, True, False,", 'MT2')
V('mt2-collection', ['C10', 'C11'], MP,
  "self.parser.parms.lang_context.math_repl_inline)", "self.parser.parms.lang_context.math_repl_display)", 'MT2')
V('mt2-simple-punct', ['C11'], MP,
  "                txt = self.parser.get_text_direct(out).strip()\n                out = [defs.ActionToken(start_simple),",
  "                txt = self.parser.get_text_direct(sec).strip()\n                out = [defs.ActionToken(start_simple),", 'MT2')
V('mt3-environ', ['C11'], 'yalafi/packages/amsmath.py',
  "        EquEnv(parms, 'gather'),", "        Environ(parms, 'gather'),", 'MT3')
V('lc1-cached', ['C10', 'C11', 'C12'], MP,
  "    def __init__(self, parser):\n        self.parser = parser\n",
  "    def __init__(self, parser):\n        self.parser = parser\n        self.repl_inline = parser.parms.lang_context.math_repl_inline\n", 'LC1')
# ---------------------------------------------------------------- misc
V('pd0-drop-posfix', ['C01', 'C04'], 'yalafi/defs.py',
  "class SpaceToken(TextToken):\n    def __init__(self, pos, txt, pos_fix=False):\n        super().__init__(pos, txt, pos_fix)",
  "class SpaceToken(TextToken):\n    def __init__(self, pos, txt, pos_fix=False):\n        super().__init__(pos, txt)", 'PD0')
V('pd0-default-true', ['C06', 'C01'], 'yalafi/defs.py',
  "class SpaceToken(TextToken):\n    def __init__(self, pos, txt, pos_fix=False):",
  "class SpaceToken(TextToken):\n    def __init__(self, pos, txt, pos_fix=True):", 'PD0')
V('tx1-normalize', ['C01', 'C02'], T2,
  "    parms = parameters.Parameters(opts.lang or '')\n",
  "    latex = latex.replace('\\r\\n', '\\n')\n    parms = parameters.Parameters(opts.lang or '')\n", 'TX1')
V('df1-keep-extracted', ['C01', 'C03'], P,
  "            self.extracted = []\n        main += self.parser_work(latex)", "        main += self.parser_work(latex)", 'DF1')
V('df1-unfiltered', ['C03'], P,
  "main = utils.filter_set_toks(toks, 0, defs.LanguageToken)", "main = utils.filter_set_toks(toks, 0, None)", 'DF1')
V('uk-math', ['C19'], P,
  "            if not (math or tok.txt in self.unknowns):", "            if not (tok.txt in self.unknowns):", 'UK')
V('uk-dup', ['C19'], P,
  "            if name and not (math or name in self.unknowns):", "            if name and not math:", 'UK')
V('uk-mathflag', ['C19'], MP,
  "t = parser.expand_macro(buf, tok, True)", "t = parser.expand_macro(buf, tok, False)", 'UK')
V('uk-neutral', ['C19'], P,
  "            if not (math or tok.txt in self.unknowns):\n                self.unknowns.append(tok.txt)",
  "            if not math and tok.txt not in self.unknowns:\n                self.unknowns.append(tok.txt)", [])
V('dt1-comment-leak', ['C03'], P,
  "            elif type(tok) is defs.CommentToken:\n                pass\n", "", 'DT1')
V('ex2-double', ['C03', 'C10'], 'yalafi/handlers.py',
  "    if args[0]:\n        out = [defs.TextToken(pos, '[0,', pos_fix=True),",
  "    if parser.get_text_expanded(args[0]).strip():\n        out = [defs.TextToken(pos, '[0,', pos_fix=True),", 'EX2')
V('oks-diff', ['C14', 'C15'], 'yalafi/shell/utils.py',
  "length = abs(charmap[end]) - abs(charmap[beg]) + 1", "length = abs(charmap[end] - charmap[beg]) + 1", 'OKS')
V('ml6-order', ['C12'], 'yalafi/packages/babel.py',
  "get_language_token(parser.global_latex_options + options)", "get_language_token(options + parser.global_latex_options)", 'ML6')

# ---------------------------------------------------------------- PD6
V('pd6-verb-anchor', ['C02'], S,
  "return defs.VerbatimToken(start_arg, latex[start_arg:self.pos-1])",
  "return defs.VerbatimToken(start, latex[start_arg:self.pos-1])", 'PD6')
V('pd6-no-advance', ['C07', 'C02'], S,
  "        self.pos += 1\n        return defs.TextToken(start, c)", "        return defs.TextToken(start, c)", 'PD6')
V('pd6-comment-find', ['C07'], S,
  "        self.pos = next((i for i in range(start + 1, self.max_pos)\n                                if latex[i] == '\\n'), self.max_pos)\n        next_non_space",
  "        self.pos = latex.find('\\n', start + 1)\n        next_non_space", 'PD6')
V('pd6-space-slice', ['C02'], S,
  "        space = latex[start:self.pos]", "        space = latex[start + 1:self.pos]", 'PD6')
V('pd6-neutral-rename', ['C02', 'C07'], S,
  "        space = latex[start:self.pos]\n        if space.count('\\n') < 2:\n            return defs.SpaceToken(start, space)\n        return defs.ParagraphToken(start, space)",
  "        blank = latex[start:self.pos]\n        if blank.count('\\n') < 2:\n            return defs.SpaceToken(start, blank)\n        return defs.ParagraphToken(start, blank)", [])
V('pd6-verbatim-pos', ['C02'], S,
  "return defs.VerbatimToken(pos, latex[pos:end], environ=True)",
  "return defs.VerbatimToken(pos - 1, latex[pos:end], environ=True)", 'PD6')
V('pd4-partition', ['C02'], P,
  "                    pos = txt.find('\\n') + 1\n                    t2.txt = txt[pos:]\n                    if not t2.pos_fix:\n                        t2.pos += pos",
  "                    pos = txt.find('\\n')\n                    t2.txt = txt[pos + 1:]\n                    if not t2.pos_fix:\n                        t2.pos += pos", 'PD4')

# ---------------------------------------------------------------- OK
GT = 'yalafi/shell/gentext.py'
GJ = 'yalafi/shell/genjson.py'
GX = 'yalafi/shell/genxml.py'
V('ok1-text-col', ['C14'], GT, "        col = offset - nl + 1", "        col = offset - nl", 'OK1')
V('ok1-text-line', ['C14'], GT, "lin = tex.count('\\n', 0, offset) + 1", "lin = tex.count('\\n', 0, offset)", 'OK1')
V('ok1-json-tox', ['C14'], GJ, "priv['tox'] = end - nl + 1", "priv['tox'] = end - nl", 'OK1')
V('ok1-json-end', ['C14'], GJ, "end = beg + json_get(m, 'length', int) - 1", "end = beg + json_get(m, 'length', int)", 'OK1')
V('ok1-xmlb-tox', ['C14'], GX, "tox = len(tex[nl:end+1].encode())", "tox = len(tex[nl:end].encode()) + 1", 'OK1')
V('ok1-neutral-json', ['C14'], GJ, "priv['fromx'] = beg - nl", "priv['fromx'] = -nl + beg", [])
V('ok1-diag-col', ['C08', 'C14'], U, "    col = pos - nl + 1\n", "    col = pos - nl\n", 'OK1')
V('ok2-late-own-checks', ['C14'], PR,
  "            matches += checks.create_single_letter_matches(plain, cmdline)\n",
  "", [])
V('ok2-shift-after', ['C14'], PR,
  "            matches_tot += matches\n            plain_tot += plain\n",
  "            plain_tot += plain\n            matches_tot += matches\n", [])
V('ok2-sort-cond', ['C14'], PR,
  "    matches_tot.sort(key=f)\n", "    if cmdline.multi_language:\n        matches_tot.sort(key=f)\n", 'OK2')
V('ok2-no-shift', ['C14'], PR,
  "m['offset'] = json_get(m, 'offset', int) + len(plain_tot)", "m['offset'] = json_get(m, 'offset', int)", 'OK2')
V('ok4-no-plus1', ['C01', 'C14'], T2,
  "        pos = [n + 1 for n in pos]\n", "", 'OK4')
V('ok4-double', ['C01'], T2,
  "            pos = [0 for n in range(len(txt))]", "            pos = [1 for n in range(len(txt))]", 'OK4')
V('ok4-ml-cond', ['C01', 'C12'], T2,
  "    for lang in ml:\n        for part in ml[lang]:\n            part[1]= list(n + 1 for n in part[1])",
  "    for lang in ml:\n        for part in ml[lang][1:]:\n            part[1]= list(n + 1 for n in part[1])", 'OK4')
V('ok4-map-minus1', ['C14'], 'yalafi/shell/utils.py',
  "    offset = abs(charmap[beg]) - 1", "    offset = abs(charmap[beg])", 'OK4')

# ---------------------------------------------------------------- struct
SH = 'yalafi/shell/shell.py'
V('ls2p-end-from-last', ['C03', 'C18'], P,
  "            end = next((i for i in range(beg + 1, len(toks))", "            end = next((i for i in range(last, len(toks))", 'LS2p')
V('ls2p-begin-plus1', ['C03', 'C18'], P,
  "            beg = next((i for i in range(last, len(toks))", "            beg = next((i for i in range(last + 1, len(toks))", 'LS2p')
V('ls2p-cursor', ['C03'], P, "            last = end + 1\n", "            last = end + 2\n", 'LS2p')
V('ls2p-copy', ['C03'], P, "            out += toks[last:beg]\n", "            out += toks[last:beg - 1]\n", 'LS2p')
V('ls2p-neutral', ['C03', 'C18'], P,
  "            out += toks[last:beg]\n", "            piece = toks[last:beg]\n            out += piece\n", [])
V('at1-own-delims', ['C03', 'C07'], P,
  "            if tok.txt == '{':\n                lev += 1\n            if tok.txt == '}':\n                lev -= 1\n            if tok.txt == end and lev == 0:",
  "            if tok.txt == ('{' if end == '}' else '['):\n                lev += 1\n            if tok.txt == end:\n                lev -= 1\n            if tok.txt == end and lev == 0:", 'AT1')
V('at1-level', ['C03', 'C07'], P,
  "            if tok.txt == end and lev == 0:", "            if tok.txt == end and lev <= 1:", 'AT1')
V('at1-neutral', ['C03', 'C07'], P,
  "            if tok.txt == '{':\n                lev += 1\n            if tok.txt == '}':\n                lev -= 1\n",
  "            if tok.txt == '{':\n                lev += 1\n            elif tok.txt == '}':\n                lev -= 1\n", [])
V('ex1-cond-reset', ['C18'], P,
  "            mac.extract = self.parms.scanner.scan(extr)\n            mac.repl = []   # overwrite possible handlers",
  "            if extr:\n                mac.extract = self.parms.scanner.scan(extr)\n                mac.repl = []", 'EX1')
V('ex1-index', ['C18'], P, "extr = '#' + str(pos + 1)", "extr = '#' + str(pos)", 'EX1')
V('ex1-keep-main', ['C18'], P,
  "        if extract:\n            main = []\n        for extr in self.extracted:", "        for extr in self.extracted:", 'EX1')
V('wl1-normpath', ['C18'], SH, "    done.append(f)\n", "    done.append(os.path.normpath(f))\n", 'WL1')
V('wl1-no-done-test', ['C18'], SH, "    if f in done or skip_file(f):\n        continue\n", "    if skip_file(f):\n        continue\n", 'WL1')
V('wl1-todo-test', ['C18'], SH, "        if f not in done + todo and not skip_file(f):", "        if f not in done and not skip_file(f):", 'WL1')
V('pd7-prev-output', ['C04'], P,
  "            out.append(defs.TextToken(out[-1].pos,\n                                out_so_far[pos].txt[-1], pos_fix=True))",
  "            out.append(defs.TextToken(out_so_far[pos].pos,\n                                out_so_far[pos].txt[-1], pos_fix=True))", 'PD7')
V('pd7-literal', ['C04'], 'yalafi/handlers.py',
  "        out = [defs.TextToken(pos, '[0]', pos_fix=True),", "        out = [defs.TextToken(1, '[0]', pos_fix=True),", 'PD7')

# ---------------------------------------------------------------- more / rx
CH = 'yalafi/shell/checks.py'
V('ix2s-unguarded', ['C07'], 'yalafi/handlers.py',
  "    if (txt and parser.parms.heading_punct\n                and txt[-1] not in parser.parms.heading_punct):",
  "    if (parser.parms.heading_punct\n                and txt[-1] not in parser.parms.heading_punct):", 'IX2s')
V('ix6-zero', ['C07'], 'yalafi/handlers.py',
  "        if a.arg < 1 or a.arg > nargs:", "        if not 0 <= a.arg <= nargs:", 'IX6')
V('ix6-neutral', ['C07'], 'yalafi/handlers.py',
  "        if a.arg < 1 or a.arg > nargs:", "        if not 1 <= a.arg <= nargs:", [])
V('ml2-label', ['C12'], 'yalafi/parameters.py',
  "                self.parser_lang_stack.append(\n                (self.parser_lang_settings[self.check_parser_lang(tok.lang)],\n                        tok.lang))",
  "                self.parser_lang_stack.append(\n                (self.parser_lang_settings[self.check_parser_lang(tok.lang)],\n                        self.check_parser_lang(tok.lang)))", 'ML2')
V('ml2-pop-empty', ['C12'], U,
  "            if len(lang_stack) > 1:\n                lang_stack.pop()", "            lang_stack.pop()", 'ML2')
V('ml2-hard-push', ['C12'], U,
  "            if t.hard:\n                lang_stack[-1] = t.lang\n            else:\n                lang_stack.append(t.lang)",
  "            lang_stack.append(t.lang)", 'ML2')
V('ac1-no-action-args', ['C05'], P,
  "                    out.append(defs.ActionToken(arg[0].pos))\n                    out += arg\n                    out.append(defs.ActionToken(arg[-1].pos))",
  "                    out += arg", 'AC1')
V('ac1-unknown-macro', ['C05'], P,
  "            return [defs.ActionToken(tok.pos)]\n        return self.expand_arguments", "            return []\n        return self.expand_arguments", 'AC1')
V('ac2-par-space', ['C05'], S,
  "return type(tok) in (defs.SpaceToken, defs.CommentToken,", "return type(tok) in (defs.SpaceToken, defs.ParagraphToken, defs.CommentToken,", 'AC2')
V('ln1-splitlines', ['C16'], T2,
  "    return list(m.start(0) for m in re.finditer(r'\\n', '\\n' + s))",
  "    starts = [0]\n    for lin in s.splitlines(True):\n        starts.append(starts[-1] + len(lin))\n    return starts", 'LN1')
V('rp1-no-escape', ['C13'], U, "t += s + re.escape(lin[i])", "t += s + lin[i]", 'RP1')
V('rp1-sep-multi', ['C13'], U, "s = r'(?:[^\\S\\n]*\\n[^\\S\\n]*|[^\\S\\n]+)'", "s = r'\\s+'", 'RP1')
V('rp1-sep-narrow', ['C13'], U, "s = r'(?:[^\\S\\n]*\\n[^\\S\\n]*|[^\\S\\n]+)'", "s = r'(?:[ \\t]*\\n[ \\t]*|[ \\t]+)'", 'RP1')
V('rp1-boundary-word', ['C13'], U, "        if t[-1].isalpha():", "        if lin[-1][-1].isalpha():", 'RP1')
V('rp1-no-skip', ['C13'], U, "        if not t:\n            continue\n", "", 'RP1')
V('ck1-pattern', ['C20'], CH, "    single = r'\\b[^\\W0-9_]\\b'", "    single = r'\\b[^\\W0-9]\\b'", 'CK1')
V('ck1-inclusive-end', ['C20'], CH, "            if beg <= m.start(0) < end:", "            if beg <= m.start(0) <= end:", 'CK1')
V('ck1-neutral', ['C20'], CH, "            if beg <= m.start(0) < end:", "            if m.start(0) >= beg and end > m.start(0):", [])
V('ck4-lookahead', ['C20'], CH,
  "    expr = (r'(' + equ + r'(?=\\s*[' + punct + r']?\\s*' + equ + r'))|'",
  "    expr = (r'(' + equ + r'(?=\\s*' + equ + r'))|'", 'CK4')
V('ab4-offset', ['C20'], CH, "        'offset': offset - beg + 3,", "        'offset': offset - beg,", 'AB4')
V('ab4-replace', ['C20'], CH, "replace('\\t', ' ').replace('\\n', ' ')", "replace('\\t', '    ').replace('\\n', ' ')", 'AB4')

# ---------------------------------------------------------------- rg
PA = 'yalafi/parameters.py'
V('rg1-label-leak', ['C03'], PA, "        \\newcommand{\\label}[1]{}", "        \\newcommand{\\label}[1]{#1}", 'RG1')
V('rg1-caption-opt', ['C03'], PA, "Macro(self, '\\\\caption', args='OA', extract='#2'),", "Macro(self, '\\\\caption', args='OA', extract='#1#2'),", 'RG1')
V('rg1-color', ['C03'], 'yalafi/packages/xcolor.py', "\\newcommand{\\textcolor}[3][]{#3}", "\\newcommand{\\textcolor}[3][]{#2#3}", 'RG1')
V('rg2-missing', ['C03'], PA, "        \\newcommand{\\index}[1]{}\n", "", 'RG2')
V('rg2-env-missing', ['C03'], 'yalafi/packages/listings.py', "        Environ(parms, 'lstlisting', remove=True),\n", "", 'RG2')
V('ix1-code-short', ['C07'], PA, "Macro(self, '\\\\cite', args='OA', repl=hs.h_cite),", "Macro(self, '\\\\cite', args='A', repl=hs.h_cite),", [])
V('ix1-unguarded-opt', ['C07'], 'yalafi/handlers.py',
  "    if args[0]:\n        out = [defs.TextToken(pos, '[0,', pos_fix=True),\n                    defs.SpaceToken(pos, ' ', pos_fix=True)]\n        out += args[0]\n        out += [defs.TextToken(args[0][-1].pos, ']'),\n                    defs.ActionToken(args[0][-1].pos)]\n    else:\n        out = [defs.TextToken(pos, '[0]', pos_fix=True),\n                    defs.ActionToken(pos)]",
  "    out = [defs.TextToken(pos, '[0,', pos_fix=True),\n                    defs.SpaceToken(pos, ' ', pos_fix=True)]\n    out += args[0]\n    out += [defs.TextToken(args[0][-1].pos, ']'),\n                    defs.ActionToken(args[0][-1].pos)]", 'IX1')
V('ix1-index-beyond', ['C07'], 'yalafi/handlers.py', "    arg = args[2]\n    txt = parser.get_text_expanded(arg).strip()", "    arg = args[3]\n    txt = parser.get_text_expanded(arg).strip()", 'IX1')
V('ix2a-empty-buffer', ['C07'], P, "                if not out:\n                    out = [defs.VoidToken(pos)]\n                return scanner.Buffer(out)", "                return scanner.Buffer(out)", 'IX2a')

V('ix7-finite', ['C07'], PA,
  "                c = 'a'\n                while True:\n                    yield c + '.'\n                    c = chr(ord(c) + 1) if c != 'z' else 'a'",
  "                for c in 'abcdefghijklmnopqrstuvwxyz':\n                    yield c + '.'", 'IX7')
V('ix8-regex', ['C07'], 'yalafi/handlers.py',
  "numbers = re.compile(r'\\s*(\\d+[.,]?\\d*|[.,]\\d+)')", "numbers = re.compile(r'\\s*(\\d+[.,]?\\d*|[.,]\\d*)')", 'IX8')
V('ix8-no-guard', ['C07'], 'yalafi/handlers.py',
  "    if nargs.isdecimal():\n", "    if nargs:\n", 'IX8')
V('ix9-inline-lang', ['C07'], T2,
  "    main_lang = opts.lang or ''\n    ml = utils.get_txt_pos_ml(toks, main_lang, parms)\n    if opts.repl and main_lang in ml:\n        for part in ml[main_lang]:",
  "    ml = utils.get_txt_pos_ml(toks, opts.lang, parms)\n    if opts.repl and opts.lang in ml:\n        for part in ml[opts.lang]:", 'IX9')

V('pd8-upper-unpinned', ['C01'], 'yalafi/packages/glossaries.py',
  "        toks[i].txt = toks[i].txt[0].upper()\n        # NB: upper() may lengthen the text ('ß' --> 'SS')\n        toks[i].pos_fix = True\n",
  "        toks[i].txt = toks[i].txt[0].upper()\n", 'PD8')

# ---------------------------------------------------------------- round-2 rules
V('mt6-nonumber', ['C11', 'C10'], PA, "            '\\\\nonumber',\n", "", 'MT6')
V('lc2-context', ['C12'], U,
  "    repl = parms.parser_lang_settings[lang].lang_change_repl", "    repl = parms.lang_context.lang_change_repl", 'LC2')
V('ml4-last-only', ['C12'], P,
  "                lang_toks = [t for t in buf if type(t) is defs.LanguageToken]",
  "                lang_toks = [t for t in buf if type(t) is defs.LanguageToken][-1:]", 'ML4')
V('okv-count-on', ['C01', 'C13'], U,
  "                        + [i_pos[cur+m_len-1]] * (r_len - m_len))",
  "                        + [i_pos[cur+m_len-1] + 1] * (r_len - m_len))", 'OKV')
V('okv-delim', ['C14', 'C15'], PR,
  "charmap_tot += [charmap_tot[-1]] * len(delim)", "charmap_tot += [abs(charmap_tot[-1]) + 1] * len(delim)", 'OKV')
V('th3-end-after', ['C14', 'C16'], GH,
  "        h.end = abs(charmap[max(beg, end - 1)])         # see issue #21", "        h.end = abs(charmap[end]) - 1", 'TH3')
V('th3-empty', ['C16'], GH, "        if h.unsure or h.end <= h.beg:", "        if h.unsure or h.end < h.beg:", 'TH3')
V('cm2-unanchored', ['C16'], 'yalafi/shell/utils.py',
  "    m = re.search(r'\\A\\\\[A-Za-z]+', latex[offset:])", "    m = re.search(r'\\\\[A-Za-z]+', latex[offset:])", 'CM2')
V('cm2-skip', ['C18'], SH,
  "    return cmdline.skip and re.search(r'\\A(?:' + cmdline.skip + r')\\Z', fn)", "    return cmdline.skip and re.match(cmdline.skip, fn)", 'CM2')
V('rx7-ungrouped', ['C18'], SH, "    return cmdline.skip and re.search(r'\\A(?:' + cmdline.skip + r')\\Z', fn)", "    return cmdline.skip and re.search(r'\\A' + cmdline.skip + r'\\Z', fn)", 'RX7')
V('ps5-lazy', ['C17'], T2, "    lines = f.readlines()\n    f.close()\n    return lines", "    lines = f.readlines()\n    f.close()\n    return filter(str.strip, lines)", 'PS5')
V('uk5-filter', ['C19'], P, "    def get_unknowns(self):\n        return self.unknowns",
  "    def get_unknowns(self):\n        return [n for n in self.unknowns if n not in self.the_macros]", 'UK5')
V('uk5-order', ['C19'], T2,
  "        if opts.repl:\n            txt, pos = utils.replace_phrases(txt, pos, opts.repl)\n        if opts.unkn:\n            txt = '\\n'.join(p.get_unknowns()) + '\\n'\n            pos = [0 for n in range(len(txt))]\n",
  "        if opts.unkn:\n            txt = '\\n'.join(p.get_unknowns()) + '\\n'\n            pos = [0 for n in range(len(txt))]\n        if opts.repl:\n            txt, pos = utils.replace_phrases(txt, pos, opts.repl)\n", 'UK5')
V('em4-narrow', ['C08'], T2, "                return True, f.read()\n        except:\n            return False, ''",
  "                return True, f.read()\n        except OSError:\n            return False, ''", 'EM4')
V('em4-len-pos', ['C08'], MP, "            if buf.cur():\n                start = buf.cur().pos\n",
  "            start = buf.cur().pos if buf.cur() else len(self.parser.latex)\n", 'EM4')
V('at2-brace', ['C03'], P, "                if tok.txt == '{':\n                    # {...} protects space and ','",
  "                if tok.txt == '{' and not val:\n                    # {...} protects space and ','", 'AT2')
V('at2-slice-store', ['C03'], P,
  "            self.extracted.append(self.expand_sequence(scanner.Buffer(toks)))",
  "            n = len(self.extracted)\n            flow = self.expand_sequence(scanner.Buffer(toks))\n            self.extracted[n:] = [flow]", 'AT2')
V('sc5-dropped-token', ['C03', 'C19'], S,
  "            # next line not empty: progress further\n            self.pos = next_non_space\n",
  "            # next line not empty: progress further\n            self.pos = next_non_space\n            if latex.startswith('%', self.pos):\n                self.scan_comment(latex, self.pos)\n", 'SC5')
V('wl1-ext-cond', ['C18'], SH, "        if not f.endswith('.tex'):\n            f += '.tex'", "        if not os.path.splitext(f)[1]:\n            f += '.tex'", 'WL1')

V('ls1w-bom', ['C01'], T2, "        ft.write(text_get_txt(text))", "        ft.write(text_get_txt(text).replace('\\ufeff', ''))", 'LS1w')
V('ls1w-skip-zero', ['C01'], T2, "        for n in text_get_num(text):\n            s = str(abs(n))",
  "        for n in text_get_num(text):\n            if not n:\n                continue\n            s = str(abs(n))", 'LS1w')

V('mt7-first-only', ['C11', 'C10'], MP,
  "        return next((t for t in self.toks if type(t) is defs.MathElemToken\n                        and t.txt not in parms.math_punctuation), None)",
  "        tok = next((t for t in self.toks if type(t) is defs.MathElemToken), None)\n        return tok if tok and tok.txt not in parms.math_punctuation else None", 'MT7')
V('mt8-partial-filter', ['C11', 'C10'], MP,
  "        out = [t for t in out\n                    if type(t) not in (defs.VoidToken, defs.ActionToken)]\n        return out, tok",
  "        return out, tok", 'MT8')
V('mt8-neutral', ['C11', 'C10'], MP,
  "        out = [t for t in out\n                    if type(t) not in (defs.VoidToken, defs.ActionToken)]\n        return out, tok",
  "        cleaned = [t for t in out\n                    if type(t) not in (defs.ActionToken, defs.VoidToken)]\n        return cleaned, tok", [])
V('th4-last-member', ['C16'], GH,
  "        if not regions or h.beglin >= max(h.endlin for h in regions[-1]):", "        if not regions or h.beglin >= regions[-1][-1].endlin:", 'TH4')

V('pg1-no-next', ['C07'], P,
  "                out.append(defs.SpaceToken(tok.pos, ' '))\n                buf.next()\n                self.parse_newline_option(buf, True)\n                continue",
  "                out.append(defs.SpaceToken(tok.pos, ' '))\n                continue", 'PG1')
V('pg1-math-no-next', ['C07'], MP,
  "                if tok.txt in parms.math_text_macros:\n                    buf.next()\n                    out += parser.expand_sequence(\n                                        parser.arg_buffer(buf, tok.pos))\n                    continue",
  "                if tok.txt in parms.math_text_macros:\n                    out.append(defs.MathSpaceToken(tok.pos, ' '))\n                    continue", 'PG1')

V('ix10-none-value', ['C07'], 'yalafi/packages/glossaries.py',
  "    descr = parser.parse_keyvals_dict(args[1]).get('description') or []", "    descr = parser.parse_keyvals_dict(args[1]).get('description', [])", 'IX10')
V('ix10-unbounded', ['C07'], 'yalafi/handlers.py',
  "    if nargs > 9:\n", "    if nargs < 0:\n", 'IX10')

# ---- rules added after seed round 3 (sa/rules/r3.py)
V('sp5-hash-key', ['C07'], PA, "            '#': '#',\n", "", 'SP5')
V('sp5-isalpha', ['C19'], PA, "        return c >= 'a' and c <= 'z' or c >= 'A' and c <= 'Z' or c == '@'",
  "        return c.isalpha() or c == '@'", 'SP5')
V('sp5-neutral-ascii', ['C19'], PA, "        return c >= 'a' and c <= 'z' or c >= 'A' and c <= 'Z' or c == '@'",
  "        return 'a' <= c <= 'z' or 'A' <= c <= 'Z' or c == '@'", [])
V('ix11-narrow', ['C07'], U, "                        eval(mod + '.init_module'))\n    except:\n",
  "                        eval(mod + '.init_module'))\n    except (ImportError, AttributeError):\n", 'IX11')
V('ix11-neutral', ['C07'], U, "                        eval(mod + '.init_module'))\n    except:\n",
  "                        eval(mod + '.init_module'))\n    except Exception:\n", [])
V('ix12-other-list', ['C07'], P, "                if t.arg < 1 or t.arg > len(arg_pos_map):", "                if t.arg < 1 or t.arg > len(args):", 'IX12')
V('ix13-no-test', ['C15', 'C16'], 'yalafi/shell/utils.py', "    return len(m.group(0)) if m else length", "    return len(m.group(0))", 'IX13')
V('ix13-neutral', ['C15', 'C16'], 'yalafi/shell/utils.py', "    return len(m.group(0)) if m else length",
  "    if not m:\n        return length\n    return len(m.group(0))", [])
V('ix14-comma', ['C10', 'C11'], PA, "            ':', ':=', '\\\\to', '\\\\cap', '\\\\cup',\n            '\\\\Rightarrow',",
  "            ':', ':=', '\\\\to', '\\\\cap', '\\\\cup'\n            '\\\\Rightarrow',", 'IX14')
V('ml7-lt', ['C12'], U, "    return len(sec.txt.split()) <= parms.ml_continue_thresh", "    return len(sec.txt.split()) < parms.ml_continue_thresh", 'ML7')
V('ml7-blanks', ['C12'], U, "    return len(sec.txt.split()) <= parms.ml_continue_thresh",
  "    return sec.txt.strip().count(' ') < parms.ml_continue_thresh", 'ML7')
V('ml7-neutral', ['C12'], U, "    return len(sec.txt.split()) <= parms.ml_continue_thresh",
  "    words = sec.txt.split()\n    return parms.ml_continue_thresh >= len(sec.txt.split())", [])
V('rp2-quick-reject', ['C13'], U, "        if not t:\n            continue\n        if t[0].isalpha():",
  "        if not t or lin[0] not in txt:\n            continue\n        if t[0].isalpha():", 'RP2')
V('rp2-partition', ['C13'], U, "        lin = lin.split()\n\n        t = s = ''",
  "        lhs, _, rhs = lin.partition('&')\n        lin = lhs.split() + ['&'] + rhs.split()\n\n        t = s = ''", 'RP2')
V('ok6-encoding', ['C14'], PR, "                        input=plain.encode('utf-8'), stdout=subprocess.PIPE)",
  "                        input=plain.encode(cmdline.encoding), stdout=subprocess.PIPE)", 'OK6')
V('mc1-undeclared', ['C19'], 'yalafi/packages/babel.py', "        Macro(parms, '\\\\babel@skip@space', args='', repl=''),\n", "", 'MC1')
V('lc3-crossed', ['C20'], PA, "            self.math_repl_display_vowel = math_repl_display\n", "            self.math_repl_display_vowel = math_repl_inline\n", 'LC3')
V('ck6-falsy', ['C20'], CH, "    if cmdline.single_letters is None:", "    if not cmdline.single_letters:", 'CK6')
V('rx5-template', ['C16'], GH,
  "    def f(m):\n        return pre + m.group(1) + post + m.group(2)\n    return re.sub(r'((?:.|\\n)*?(?!\\Z)|(?:.|\\n)+?)(<br>\\n|\\Z)', f, s)",
  "    return re.sub(r'((?:.|\\n)*?(?!\\Z)|(?:.|\\n)+?)(<br>\\n|\\Z)',\n                    pre + r'\\1' + post + r'\\2', s)", 'RX5')
V('rs1-init-only', ['C18', 'C08', 'C02'], P, "            self.init_extractions(extract)\n        self.extracted = []\n        self.unknowns = []",
  "            self.init_extractions(extract)\n        self.unknowns = []", 'RS1')
V('rs1-neutral-helper', ['C18', 'C08'], P, "            self.init_extractions(extract)\n        self.extracted = []\n        self.unknowns = []",
  "            self.init_extractions(extract)\n        self.unknowns = []\n        self.extracted = list()", [])
V('cm3-early', ['C16'], SH, "cmdline = parser.parse_args(sys.argv[1:])\nif not cmdline.no_config:",
  "cmdline = parser.parse_args(sys.argv[1:])\nif cmdline.context < 0:\n    cmdline.context = int(1e8)\nif not cmdline.no_config:", 'CM3')
V('th6-carried', ['C16'], GH, "        h.beglin = tex.count('\\n', 0, h.beg)\n        h.endlin = tex.count('\\n', 0, h.end) + 1",
  "        lin_cnt += tex.count('\\n', pos_cnt, h.beg)\n        pos_cnt = h.beg\n        h.beglin = lin_cnt\n        h.endlin = lin_cnt + tex.count('\\n', h.beg, h.end) + 1", 'TH6')
V('ck7-glue', ['C20'], SH, "    cmdline.single_letters += r'|'.join(set(repls))",
  "    cmdline.single_letters += equation_replacements\n    cmdline.single_letters += r'|'.join(set(repls))", 'CK7')
V('ck7-neutral', ['C20'], SH, "    cmdline.single_letters += r'|'.join(set(repls))",
  "    cmdline.single_letters += equation_replacements\n    cmdline.single_letters += '|' + r'|'.join(set(repls))", [])
V('tk1-space-text', ['C11', 'C10'], 'yalafi/handlers.py', "        return [defs.SpecialToken(pos, '\\\\;')]", "        return [defs.TextToken(pos, ' ')]", 'TK1')
V('ml8-drop-space', ['C05', 'C12'], U, "        # inclusion is empty or only contains space\n        sec.txt += incl.txt\n        sec.pos += incl.pos\n        return",
  "        # inclusion is empty or only contains space\n        return", 'ML8')
V('sc7-literal-set', ['C05'], S, "                                if not latex[i].isspace()), self.max_pos)\n        space = latex[start:self.pos]",
  "                                if latex[i] not in ' \\t\\n'), self.max_pos)\n        space = latex[start:self.pos]", 'SC7')
V('ix15-look-ahead', ['C06', 'C07'], S,
  "        buf = []\n        tok = self.cur()\n        while self.is_space(tok):\n            buf.append(tok)\n            tok = self.next()\n        self.back(buf)\n        return tok",
  "        n = len(self.tokens) - 1\n        while n >= 0 and self.is_space(self.tokens[n]):\n            n -= 1\n        return self.tokens[n]", 'IX15')
V('ix15-neutral', ['C06', 'C07'], S,
  "        buf = []\n        tok = self.cur()\n        while self.is_space(tok):\n            buf.append(tok)\n            tok = self.next()\n        self.back(buf)\n        return tok",
  "        n = len(self.tokens) - 1\n        while n >= 0 and self.is_space(self.tokens[n]):\n            n -= 1\n        return self.tokens[n] if n >= 0 else None", [])
V('ac3-can-start', ['C05', 'C06'], P, "                t.can_start = '\\n' in txt and not txt[txt.rfind('\\n'):].strip()",
  "                t.can_start = not txt[txt.rfind('\\n'):].strip()", 'AC3')
V('ex2-return-expanded', ['C03'], 'yalafi/handlers.py', "    arg = args[2]\n    txt = parser.get_text_expanded(arg).strip()",
  "    arg = parser.expand_sequence(scanner.Buffer(args[2]))\n    txt = parser.get_text_direct(arg).strip()", 'EX2')
V('sc5-comment-loop', ['C18', 'C19', 'C03', 'C08'], S,
  "        if latex.count('\\n', self.pos + 1, next_non_space) == 0:\n            # next line not empty: progress further\n            self.pos = next_non_space\n",
  "        if latex.count('\\n', self.pos + 1, next_non_space) == 0:\n            # next line not empty: progress further\n            self.pos = next_non_space\n            while self.pos < self.max_pos and latex[self.pos] == '%':\n                self.pos = next((i for i in range(self.pos + 1, self.max_pos)\n                                if latex[i] == '\\n'), self.max_pos)\n", 'SC5')

# ---- C09 structural rules (sa/rules/c09.py)
V('sb1-index', ['C09'], P, "                arg = arguments[tok.arg - 1]\n                if arg:", "                arg = arguments[tok.arg - 2]\n                if arg:", 'SB1')
V('sb1-slice', ['C09'], P, "                    out += arg\n", "                    out += arg[:1]\n", 'SB1')
V('sb1-neutral-extend', ['C09'], P, "                    out += arg\n", "                    out.extend(arg)\n", [])
V('sb1-reversed', ['C09'], P, "        # macro expansion\n        #\n        for tok in repls:", "        # macro expansion\n        #\n        for tok in repls[:9]:", 'SB1')
V('sb2-conditional', ['C09'], P, "            arguments.append(arg)\n", "            if arg or code != 'O':\n                arguments.append(arg)\n", 'SB2')
V('sb2-default-index', ['C09'], P, "                        arg = [copy.copy(t) for t in mac.defaults[n]]", "                        arg = [copy.copy(t) for t in mac.defaults[0]]", 'SB2')
V('sb3-only-new', ['C09'], 'yalafi/handlers.py',
  "    else:\n        parser.the_macros[name] = defs.Macro(parser.parms,\n                                name, args='A' * nargs,\n                                repl=args[4], scanned=True)\n    return []",
  "    elif name not in parser.the_macros:\n        parser.the_macros[name] = defs.Macro(parser.parms,\n                                name, args='A' * nargs,\n                                repl=args[4], scanned=True)\n    return []", 'SB3')
V('sb3-codes', ['C09'], 'yalafi/handlers.py', "                                name, args='O' + 'A' * (nargs - 1),", "                                name, args='O' + 'A' * nargs,", 'SB3')
V('sb3-default-body', ['C09'], 'yalafi/handlers.py', "                                repl=args[4], defaults=[args[3]], scanned=True)", "                                repl=args[4], defaults=[args[4]], scanned=True)", 'SB3')
V('sb3-neutral-local', ['C09'], 'yalafi/handlers.py',
  "    else:\n        parser.the_macros[name] = defs.Macro(parser.parms,\n                                name, args='A' * nargs,\n                                repl=args[4], scanned=True)\n    return []",
  "    else:\n        body = args[4]\n        parser.the_macros[name] = defs.Macro(parser.parms,\n                                name, args='A' * nargs,\n                                repl=body, scanned=True)\n    return []", [])
V('sb4-leaks-file', ['C09'], 'yalafi/handlers.py', "    parser.extracted = extracted\n    return utils.filter_set_toks(toks, pos, defs.LanguageToken)",
  "    parser.extracted = extracted\n    return utils.filter_set_toks(toks, pos, None)", 'SB4')
V('sb5-own-parser', ['C09'], 'yalafi/handlers.py', "        toks = parser.parser_work(latex)\n    except RecursionError:",
  "        toks = type(parser)(parser.parms, parser.packages).parser_work(latex)\n    except RecursionError:", 'SB5')
V('sb5-table-reset', ['C09'], P, "        main += self.parser_work(latex)\n", "        self.the_macros = dict((k, v) for k, v in self.the_macros.items() if not v.scanned)\n        main += self.parser_work(latex)\n", 'SB5')

# ---- rules added after seed round 4 (sa/rules/r4.py)
V('ix16-xspace', ['C07'], 'yalafi/packages/xspace.py', "    tok = buf.cur()\n    if tok and tok.txt not in xspace_excl:\n        return [defs.SpaceToken(pos, ' ')]\n    return []",
  "    if buf.cur().txt in xspace_excl:\n        return []\n    return [defs.SpaceToken(pos, ' ')]", 'IX16')
V('ix16-neutral-alias', ['C07'], 'yalafi/packages/xspace.py', "    tok = buf.cur()\n    if tok and tok.txt not in xspace_excl:\n        return [defs.SpaceToken(pos, ' ')]\n    return []",
  "    nxt = buf.cur()\n    if not nxt:\n        return []\n    following = nxt\n    if following.txt in xspace_excl:\n        return []\n    return [defs.SpaceToken(pos, ' ')]", [])
V('ix8-isdigit', ['C07'], S, "        if self.pos >= self.max_pos or not latex[self.pos].isdecimal():", "        if self.pos >= self.max_pos or not latex[self.pos].isdigit():", 'IX8')
V('ml2-empty-stack', ['C07', 'C12'], PA, "            if len(self.parser_lang_stack) > 1:\n                self.parser_lang_stack.pop()", "            if self.parser_lang_stack:\n                self.parser_lang_stack.pop()", 'ML2')
V('ml2-neutral-ge2', ['C07', 'C12'], PA, "            if len(self.parser_lang_stack) > 1:\n                self.parser_lang_stack.pop()", "            if len(self.parser_lang_stack) >= 2:\n                self.parser_lang_stack.pop()", [])
V('exw-rebind', ['C03', 'C18'], 'yalafi/handlers.py', "    extracted = parser.extracted\n    parser.extracted = []\n", "    extracted = parser.extracted\n    parser.extracted.clear()\n", 'EXW')
V('exw-late-expand', ['C19', 'C03'], P, "            self.extracted.append(self.expand_sequence(scanner.Buffer(toks)))", "            self.extracted.append(toks)", 'EXW')
V('exw-extra-cond', ['C18'], P, "        if mac.extract:\n            toks = ([defs.LanguageToken(start,", "        if mac.extract and not delimiters[-1:] == [None]:\n            toks = ([defs.LanguageToken(start,", 'EXW')
V('um1-swallow-option', ['C03', 'C19'], P, "            if not (math or tok.txt in self.unknowns):\n                self.unknowns.append(tok.txt)\n            return [defs.ActionToken(tok.pos)]",
  "            if not (math or tok.txt in self.unknowns):\n                self.unknowns.append(tok.txt)\n            if buf.cur() and buf.cur().txt == '[':\n                self.arg_buffer(buf, tok.pos, end=']')\n            return [defs.ActionToken(tok.pos)]", 'UM1')
V('um1-sticky-unknown', ['C09', 'C19'], P, "            buf.next()\n        if tok.txt not in self.the_macros:",
  "            buf.next()\n        if tok.txt in self.unknowns:\n            return [defs.ActionToken(tok.pos)]\n        if tok.txt not in self.the_macros:", 'UM1')
V('sc8-many-digits', ['C09'], S, "        arg = int(latex[self.pos])\n        self.pos += 1\n",
  "        first = self.pos\n        while self.pos < self.max_pos and latex[self.pos].isdecimal():\n            self.pos += 1\n        arg = int(latex[first:self.pos])\n", 'SC8')
V('sb2b-no-default-at-end', ['C09'], P, "                if tok and tok.txt == '[':\n                    delim = True\n                    arg_extr = arg = self.arg_buffer(buf, pos, end=']').all()\n                else:\n                    buf.back(lang_toks)\n                    if n < len(mac.defaults):",
  "                if not tok:\n                    pass\n                elif tok.txt == '[':\n                    delim = True\n                    arg_extr = arg = self.arg_buffer(buf, pos, end=']').all()\n                else:\n                    buf.back(lang_toks)\n                    if n < len(mac.defaults):", 'SB2b')
V('sb2b-neutral-elif', ['C09'], P, "                if tok and tok.txt == '[':\n                    delim = True\n                    arg_extr = arg = self.arg_buffer(buf, pos, end=']').all()\n                else:\n                    buf.back(lang_toks)\n                    if n < len(mac.defaults):",
  "                if tok is not None and tok.txt == '[':\n                    delim = True\n                    arg_extr = arg = self.arg_buffer(buf, pos, end=']').all()\n                else:\n                    buf.back(lang_toks)\n                    if n < len(mac.defaults):", [])
V('en1-default-encoding', ['C09'], T2, "def read_definitions(fn, encoding):", "def read_definitions(fn, encoding='utf-8'):", 'EN1')
V('sh1-global-language', ['C10', 'C12'], PR, "                            defs=cmdline.define, lang=language,", "                            defs=cmdline.define, lang=cmdline.language,", 'SH1')
V('sh1-no-defs', ['C19'], PR, "                            defs=cmdline.define, lang=language,", "                            lang=language,", 'SH1')
V('nm1-prefix', ['C11', 'C03'], MP, "                if tok.txt in parms.math_text_macros:", "                if tok.txt.startswith(tuple(parms.math_text_macros)):", 'NM1')
V('acc1-overwrite', ['C12', 'C19'], 'yalafi/handlers.py', "                out += parser.init_package(p, f, options, pos)", "                out = parser.init_package(p, f, options, pos)", 'ACC1')
V('ck8-sorted', ['C20'], CH, "    accept = cmdline.single_letters.split('|')", "    accept = sorted(set(cmdline.single_letters.split('|')))", 'CK8')
V('ck7-double-escape', ['C20'], SH, "    cmdline.single_letters += r'|'.join(set(repls))", "    cmdline.single_letters += r'|'.join(set(re.escape(s) for s in repls))", 'CK7')
V('em5-silent-exit', ['C08'], P, "        while tok:\n            if tok.txt == '{':\n                lev += 1",
  "        while tok:\n            if end == ']' and type(tok) is defs.ParagraphToken:\n                buf.back([opening_tok] + out)\n                return scanner.Buffer([defs.VoidToken(pos)])\n            if tok.txt == '{':\n                lev += 1", 'EM5')
V('ck10-backend-only', ['C20'], PR, "            matches += checks.create_single_letter_matches(plain, cmdline)\n", "            if not cmdline.textgears:\n                matches += checks.create_single_letter_matches(plain, cmdline)\n", 'CK10')
V('mt3-misspelt', ['C11'], 'yalafi/packages/amsmath.py', "        EquEnv(parms, 'multline'),\n", "        EquEnv(parms, 'multiline'),\n", 'MT3')
V('ab5-paragraph-arg', ['C05'], P, "        if type(tok) is defs.ParagraphToken:\n            return scanner.Buffer([defs.VoidToken(tok.pos)])\n        if end == '}' and tok.txt != '{':",
  "        if end == '}' and tok.txt != '{':", 'AB5')
V('rp1-leading-space', ['C05', 'C13'], U, "        r = ' '.join(lin[i+1:])\n", "        r = ' '.join(lin[i+1:])\n        if not r:\n            t = r'\\s*' + t\n", 'RP1')
V('pd9-shift-start', ['C01', 'C04'], P, "        delimiters = []\n        pos = start\n", "        delimiters = []\n        pos = start + len(mac.name)\n", 'PD9')
V('sb1-keep-pinned', ['C04', 'C09'], P, "                tok = copy.copy(tok)\n                tok.pos = cur_pos\n                tok.pos_fix = True\n                out.append(tok)",
  "                if not tok.pos_fix:\n                    tok = copy.copy(tok)\n                    tok.pos = cur_pos\n                    tok.pos_fix = True\n                out.append(tok)", 'SB1')
V('nl1-star', ['C06'], P, "        tok = buf.cur()\n        if tok and tok.txt == '[':\n            self.arg_buffer(buf, tok.pos, end=']')",
  "        tok = buf.cur()\n        if tok and tok.txt == '*':\n            tok = buf.next()\n        if tok and tok.txt == '[':\n            self.arg_buffer(buf, tok.pos, end=']')", 'NL1')
V('ln1-replacements', ['C13'], T2, "    lines = f.readlines()\n    f.close()\n    return lines", "    lines = f.read().splitlines()\n    f.close()\n    return lines", 'LN1')
V('ml9-first-char', ['C14'], U, "    pos = [incl.pos[start]] * len(repl[0])", "    pos = [incl.pos[0]] * len(repl[0])", 'ML9')
V('en2-file-encoding', ['C15'], GX, "            cont_offset = len(cont_text[:cont_offset].encode())", "            cont_offset = len(cont_text[:cont_offset].encode(cmdline.encoding))", 'EN2')
V('ps6-context', ['C16', 'C17'], GH, "    hdata = []\n    for m in matches:", "    if cmdline.context < 0 or cmdline.context > len(tex):\n        cmdline.context = len(tex)\n    hdata = []\n    for m in matches:", 'PS6')
V('th7-no-length-test', ['C16'], GH, "        if h.end == h.beg + 1 and tex[h.beg] == '\\\\':", "        if tex[h.beg] == '\\\\':", 'TH7')
V('tj4-unbounded', ['C15'], GT, "        beg = max(0, min(beg, len(txt)))\n        length = max(0, min(length, len(txt) - beg))\n", "", 'TJ4')
V('tj4-neutral-order', ['C15'], GT, "        length = max(0, min(length, len(txt) - beg))\n", "        length = min(max(length, 0), len(txt) - beg)\n        length = max(0, length)\n", [])
V('tj5-raw-str', ['C15'], SH, "        ret = ret.encode('utf-8', 'replace').decode('utf-8')\n", "        pass\n", 'TJ5')
V('th8-attribute-br', ['C15', 'C16'], GH, "        return protect_html(s).replace('<br>\\n', '\\n')", "        return protect_html(s)", 'TH8')
V('ls1m-sticky-path', ['C13', 'C12', 'C01'], T2, "    if opts.repl and main_lang in ml:\n        for part in ml[main_lang]:\n            part[0], part[1] = utils.replace_phrases(part[0], part[1],\n                                                        opts.repl)\n    for lang in ml:\n        for part in ml[lang]:\n            part[1]= list(n + 1 for n in part[1])",
  "    for lang in ml:\n        for part in ml[lang]:\n            txt, pos = part\n            if opts.repl and lang == main_lang:\n                txt, pos = utils.replace_phrases(txt, pos, opts.repl)\n            part[0] = txt\n            part[1] = list(n + 1 for n in part[1])", 'LS1m')
V('dt1-verb-late', ['C03', 'C08'], P, "            elif type(tok) is defs.VerbatimToken:\n                # NB: test before the texts below; verbatim text like '$' or '{'\n                #     is not markup\n", "            elif type(tok) is defs.VerbatimToken and tok.environ:\n", 'DT1')
V('st1-no-star', ['C03', 'C09'], PA, "args='*AOAO', repl=hs.h_newtheorem)", "args='AOAO', repl=hs.h_newtheorem)", 'ST1')
V('sig1-minipage', ['C03'], PA, "        Environ(self, 'minipage', args='OOOA'),", "        Environ(self, 'minipage', args='A'),", 'SIG1')
V('sig1-neutral-more', ['C03'], PA, "        Environ(self, 'tabular', args='OA', add_pars=False),", "        Environ(self, 'tabular', args='OOA', add_pars=False),", [])
V('df2-keep-flows', ['C03', 'C18'], P, "            del self.extracted[n_extracted:]\n", "", 'DF2')
V('df2-rebind', ['C03', 'C18'], P, "            del self.extracted[n_extracted:]\n", "            self.extracted = self.extracted[:n_extracted]\n", ['EXW'])
V('sbl1-def-unguarded', ['C03', 'C09'], P, "        if name in self.parms.newcommand_ignore:\n            # as for \\newcommand\n            return [defs.ActionToken(start)]\n", "", 'SBL1')
V('ml2-same-lang-skip', ['C12', 'C10'], U, "        if t.lang == lang_stack[-1]:\n            if not (t.back or t.hard):\n                # same language again: no new section, but the token that\n                # closes this switch will pop the stack\n                lang_stack.append(t.lang)\n            continue\n",
  "        if t.lang == lang_stack[-1]:\n            continue\n", 'ML2')
V('mt6-no-tag', ['C11'], 'yalafi/packages/amsmath.py', "        Macro(parms, '\\\\tag', args='*A', repl=''),\n", "", 'MT6')
V('lt2-skip-space', ['C12'], P, "        while (buf.cur() and buf.is_space(buf.cur())\n                    and type(buf.cur()) is not defs.LanguageToken):\n            buf.next()\n", "        buf.skip_space()\n", 'LT2')
V('sh3-repl-in-scan', ['C18'], SH, "    opts = tex2txt.Options(extr=inclusion_macros,\n", "    opts = tex2txt.Options(extr=inclusion_macros, repl=cmdline.replace,\n", 'SH3')
V('em6-neutral-carry', ['C08'], MP, "                out = [defs.ActionToken(out[-1].pos)]\n        else:", "                out = [t for t in out] + [defs.ActionToken(out[-1].pos)]\n        else:", [])
V('st1-verb-star', ['C08'], S, "        if start_arg < self.max_pos and latex[start_arg] == '*':\n            # starred form \\verb*|...|: same text\n            start_arg += 1\n", "", 'ST1')
V('ls1-join-form-broken', ['C01', 'C13'], U, "    txt = ''\n    pos = []\n    for t in toks:\n        txt += t.txt\n        if t.pos_fix:\n            pos += [t.pos] * len(t.txt)\n        else:\n            pos += list(range(t.pos, t.pos + len(t.txt)))\n    return txt, pos",
  "    parts = []\n    pos = []\n    for t in toks:\n        parts.append(t.txt)\n        n = len(t.txt)\n        pos.extend([t.pos] * n if t.pos_fix else range(t.pos, t.pos + n + 1))\n    return ''.join(parts), pos", 'LS1')
V('mt2-section-flag', ['C11'], MP, "                out.append(defs.SpaceToken(out[-1].pos, ' ', pos_fix=True))\n                first_section = False", "                out.append(defs.SpaceToken(out[-1].pos, ' ', pos_fix=True))\n                first_section = True", 'MT2')

# ---- rules added after seed round 5 (sa/rules/r5.py)
V('ex1c-dedup', ['C03', 'C18'], P, "        for extr in self.extracted:\n            if not extr:\n                continue\n",
  "        seen_pos = set()\n        for extr in self.extracted:\n            if not extr or extr[0].pos in seen_pos:\n                continue\n            seen_pos.add(extr[0].pos)\n", 'EX1c')
V('um2-env-skip', ['C05'], P, "                self.unknowns.append(name)\n            return out\n        env = self.the_environments[name]",
  "                self.unknowns.append(name)\n            buf.skip_space()\n            return out\n        env = self.the_environments[name]", 'UM2')
V('sbl2-direct', ['C12'], 'yalafi/packages/babel.py', "def h_begin_otherlang(parser, buf, mac, args, delim, pos):\n    lang = translate_lang(parser.get_text_expanded(args[0]).strip())",
  "def h_begin_otherlang(parser, buf, mac, args, delim, pos):\n    lang = translate_lang(parser.get_text_direct(args[0]).strip())", 'SBL2')
V('ab3r-shortcut', ['C13'], U, "    return o_txt + i_txt[last:], o_pos + i_pos[last:]", "    if not o_txt:\n        return i_txt, i_pos\n    return o_txt + i_txt[last:], o_pos + i_pos[last:]", 'AB3r')
V('tj6-allow-nan', ['C15'], GJ, "    out.write(json.dumps(message))", "    out.write(json.dumps(message, allow_nan=False))", 'TJ6')
V('tx2-rstrip', ['C16'], PR, "    if not tex.endswith('\\n'):\n        tex += '\\n'\n", "    tex = tex.rstrip('\\n') + '\\n'\n", 'TX2')
V('th9-empty-piece', ['C16'], GH, "    def f(m):\n        return pre + m.group(1) + post + m.group(2)", "    def f(m):\n        if not m.group(1):\n            return m.group(2)\n        return pre + m.group(1) + post + m.group(2)", 'TH9')
V('sh3b-no-nosp', ['C18'], SH, "                            nosp=cmdline.no_specials, ienc=cmdline.encoding)\n\ndef skip_file", "                            ienc=cmdline.encoding)\n\ndef skip_file", 'SH3b')
V('sh1-no-ienc', ['C09'], SH, "                            nosp=cmdline.no_specials, ienc=cmdline.encoding)\n\ndef skip_file", "                            nosp=cmdline.no_specials)\n\ndef skip_file", 'SH1')
V('em7-inline-only', ['C03', 'C08'], MP, "            if not tok or type(tok) is defs.ParagraphToken:\n                buf.next()\n                out = (utils.latex_error('missing end of maths'", "            if not tok or (type(tok) is defs.ParagraphToken\n                                    and env_stop is None):\n                buf.next()\n                out = (utils.latex_error('missing end of maths'", 'EM7')
V('uk7-empty-name', ['C19'], P, "            if name and not (math or name in self.unknowns):\n                self.unknowns.append(name)\n            return out", "            if not (math or name in self.unknowns):\n                self.unknowns.append(name)\n            return out", 'UK7')
V('mt4b-more-punct', ['C10', 'C11'], PA, "        self.math_punctuation = ['.', ',', ';', ':']", "        self.math_punctuation = ['.', ',', ';', ':', '!', '?']", 'MT4b')
V('at3-brackets', ['C11'], P, "            if tok.txt == '{':\n                lev += 1\n            elif tok.txt == '}':\n                lev -= 1\n            yield tok, lev",
  "            if tok.txt in ('{', '['):\n                lev += 1\n            elif tok.txt in ('}', ']'):\n                lev -= 1\n            yield tok, lev", 'AT3')
V('em8-arg-start', ['C01', 'C08'], S, "            return self.error_token('bad \\\\verb argument', latex, start)", "            return self.error_token('bad \\\\verb argument', latex, start_arg)", 'EM8')
V('dt1c-conditional-blank', ['C06'], P, "                out.append(defs.ActionToken(tok.pos))\n                out.append(defs.SpaceToken(tok.pos, ' '))\n                buf.next()\n                self.parse_newline_option(buf, True)",
  "                out.append(defs.ActionToken(tok.pos))\n                if not (out and type(out[-1]) is defs.SpaceToken):\n                    out.append(defs.SpaceToken(tok.pos, ' '))\n                buf.next()\n                self.parse_newline_option(buf, True)", 'DT1c')
V('tx3-blank-shortcut', ['C06'], T2, "def tex2txt(latex, opts, multi_language=False, modify_parms=None):\n", "def tex2txt(latex, opts, multi_language=False, modify_parms=None):\n    if not latex.strip():\n        return {} if multi_language else ('', [])\n", 'TX3')
V('ix17-empty-text', ['C07'], P, "        if not args or not args[0].txt:\n            c = ''", "        if not args:\n            c = ''", 'IX17')
V('pd10-title-tokens', ['C01', 'C04'], 'yalafi/handlers.py', "        out = [defs.TextToken(pos, name, pos_fix=True)]\n        if args[0]:", "        out = name.copy()\n        if args[0]:", [])
V('un1-order', ['C20'], GX, "            cont_length = len(cont_text[cont_offset:cont_offset+cont_length]\n                                    .encode())\n            cont_offset = len(cont_text[:cont_offset].encode())",
  "            cont_offset = len(cont_text[:cont_offset].encode())\n            cont_length = len(cont_text[cont_offset:cont_offset+cont_length]\n                                    .encode())", 'UN1')
V('lc4-raw-code', ['C20', 'C12'], U, "    lang = parms.check_parser_lang(sec.lang)\n    repl = parms.parser_lang_settings[lang].lang_change_repl", "    repl = parms.parser_lang_settings.get(sec.lang, parms.lang_context).lang_change_repl", 'LC4')

# ---- round 6 rules
V('memo1-store', ['C09', 'C19'], P,
  "                self.packages[name] = self.global_latex_options + options", "                self.packages[name] = options", 'MEMO1')
V('memo1-unkn', ['C19'], P,
  "                self.unknowns.append(tok.txt)", "                self.unknowns.append(tok.txt.strip())", 'MEMO1')
V('memo1-neutral-alias', ['C09', 'C19'], P,
  "            if name:\n                self.packages[name] = self.global_latex_options + options",
  "            if name:\n                all_opts = self.global_latex_options + options\n                self.packages[name] = all_opts", [])
V('lp1-break', ['C09', 'C19'], P,
  "                if requ not in self.packages or self.packages[requ] == options:\n                    out += self.init_package(requ, utils.get_module_handler(\n                                        requ, self.parms.package_modules),\n                                        options, position)",
  "                if requ in self.packages and self.packages[requ] != options:\n                    break\n                out += self.init_package(requ, utils.get_module_handler(\n                                        requ, self.parms.package_modules),\n                                        options, position)", 'LP1')
V('lp1-neutral-continue', ['C09', 'C19'], P,
  "                if requ not in self.packages or self.packages[requ] == options:\n                    out += self.init_package(requ, utils.get_module_handler(\n                                        requ, self.parms.package_modules),\n                                        options, position)",
  "                if requ in self.packages and self.packages[requ] != options:\n                    continue\n                out += self.init_package(requ, utils.get_module_handler(\n                                        requ, self.parms.package_modules),\n                                        options, position)", [])
V('cl1-nostrip', ['C19'], 'yalafi/handlers.py',
  "        for p in packs.split(','):\n            p = p.strip()\n            if p:", "        for p in packs.strip().split(','):\n            if p:", 'CL1')
V('cl1-guard', ['C19'], 'yalafi/shell/addpacks.py',
  "                if p.strip():\n", "                if p.strip() and p.strip() != 'inputenc':\n", 'CL1')
V('cl1-neutral-continue', ['C19'], 'yalafi/handlers.py',
  "            p = p.strip()\n            if p:\n                f = utils.get_module_handler(p, prefix)\n                out += parser.init_package(p, f, options, pos)",
  "            p = p.strip()\n            if not p:\n                continue\n            f = utils.get_module_handler(p, prefix)\n            out += parser.init_package(p, f, options, pos)", [])
V('cl1-neutral-comp', ['C19'], 'yalafi/handlers.py',
  "        for p in packs.split(','):\n            p = p.strip()\n            if p:", "        for p in [q.strip() for q in packs.split(',')]:\n            if p:", [])
V('sk1-exact', ['C19', 'C03'], P,
  "                    toks[i].txt.startswith(self.parms.comment_skip_begin)),", "                    toks[i].txt.rstrip() == self.parms.comment_skip_begin),", 'SK1')
V('sk1-neutral-slice', ['C19', 'C03'], P,
  "                    toks[i].txt.startswith(self.parms.comment_skip_end)),", "                    toks[i].txt[:len(self.parms.comment_skip_end)] == self.parms.comment_skip_end),", [])
V('ml10-active', ['C12'], 'yalafi/packages/babel.py',
  "    return [LanguageToken(pos, lang=lang, hard=True, brk=selectlang_break)]", "    if lang == parser.parms.lang_context_lang():\n        return []\n    return [LanguageToken(pos, lang=lang, hard=True, brk=selectlang_break)]", 'ML10')
V('ml10-neutral-var', ['C12'], 'yalafi/packages/babel.py',
  "    return [LanguageToken(pos, lang=lang, brk=otherlang_break)]", "    tok = LanguageToken(pos, lang=lang, brk=otherlang_break)\n    return [tok]", [])
V('und1-noimport', ['C20', 'C15'], 'yalafi/shell/checks.py',
  "from yalafi import tex2txt\n", "", 'UND1')
V('und1-injected', ['C16', 'C15'], 'yalafi/shell/genhtml.py',
  "    global highlight_style_unsure\n    highlight_style_unsure = getattr(vars, 'highlight_style_unsure',\n                                        highlight_style)\n", "", 'UND1')
V('und1-typo', ['C07'], P,
  "        return self.unknowns\n", "        return self.unknwons if False else self.unknowns\n", [])
V('und1-typo-global', ['C07'], P,
  "        return self.unknowns\n", "        return unknowns if self is None else self.unknowns\n", 'UND1')
V('und1-neutral-import', ['C20', 'C15'], 'yalafi/shell/checks.py',
  "from yalafi import tex2txt\n", "import yalafi.tex2txt as tex2txt\n", [])
V('ix18-strip', ['C07'], MP,
  "        txt = txt.strip()\n        return txt[-1] if txt else ''", "        return txt.rstrip()[-1] if txt else ''", 'IX18')
V('ix18-flow', ['C07'], P,
  "            if not extr:\n                continue\n", "", 'IX18')
V('ix18-neutral', ['C07'], MP,
  "        txt = txt.strip()\n        return txt[-1] if txt else ''", "        stripped = txt.strip()\n        if not stripped:\n            return ''\n        return stripped[-1]", [])
V('ix19-bound', ['C07'], S,
  "        if start_arg < self.max_pos and latex[start_arg] == '*':", "        if latex[start_arg] == '*':", 'IX19')
V('ix19-neutral', ['C07'], S,
  "        if start_arg < self.max_pos and latex[start_arg] == '*':", "        if not start_arg >= self.max_pos and latex[start_arg] == '*':", [])
V('em9-pinned-par', ['C08'], MP,
  "            if not tok or type(tok) is defs.ParagraphToken:\n                buf.next()\n                out = (utils.latex_error('missing end of maths'",
  "            if type(tok) is defs.ParagraphToken and tok.pos_fix:\n                buf.next()\n                continue\n            if not tok or type(tok) is defs.ParagraphToken:\n                buf.next()\n                out = (utils.latex_error('missing end of maths'", 'EM9')
V('em9-neutral-split', ['C08'], MP,
  "            if not tok or type(tok) is defs.ParagraphToken:\n                buf.next()\n                out = (utils.latex_error('missing end of maths'",
  "            if tok is None or isinstance(tok, defs.ParagraphToken):\n                buf.next()\n                out = (utils.latex_error('missing end of maths'", [])
V('mok1-rawkey', ['C11'], 'yalafi/parameters.py',
  "                                    '\\\\cdot': 'раз', '\\\\times': 'раз',", "                                    '\\\\cdot': 'раз', r'\\\\times': 'раз',", 'MOK1')
V('mok1-neutral-raw', ['C11'], 'yalafi/parameters.py',
  "                                    '\\\\cdot': 'раз', '\\\\times': 'раз',", "                                    r'\\cdot': 'раз', r'\\times': 'раз',", [])
V('opt1-elif', ['C11', 'C10'], T2,
  "    if opts.nosp:\n        parms.no_specials()", "    elif opts.nosp:\n        parms.no_specials()", 'OPT1')
V('spc1-blank', ['C10'], 'yalafi/packages/amsmath.py',
  "        \\newcommand{\\thickspace}{\\;}", "        \\newcommand{\\thickspace}{ }", 'SPC1')
V('spc1-neutral', ['C10'], 'yalafi/packages/amsmath.py',
  "        \\newcommand{\\thickspace}{\\;}", "        \\newcommand{\\thickspace}{\\:}", [])
V('sb6-skip', ['C09'], P,
  "                                        scanned=True)\n        return [defs.ActionToken(start)]", "                                        scanned=True)\n        buf.skip_space()\n        return [defs.ActionToken(start)]", 'SB6')
V('lt3-xspace', ['C12'], 'yalafi/packages/xspace.py',
  "    tok = buf.cur()\n", "    tok = buf.skip_space()\n", 'LT3')
V('la1-early', ['C12'], S,
  "            tok = self.next()\n        self.back(buf)\n        return tok", "            tok = self.next()\n        if type(tok) is defs.ParagraphToken:\n            return tok\n        self.back(buf)\n        return tok", 'LA1')
V('la1-neutral', ['C12'], S,
  "        self.back(buf)\n        return tok", "        if buf:\n            self.back(buf)\n        return tok", [])
V('ml2-same-parser', ['C12'], 'yalafi/parameters.py',
  "        else:\n            if tok.hard:\n                self.parser_lang_stack[-1] = (", "        elif tok.lang == self.lang_context_lang():\n            return\n        else:\n            if tok.hard:\n                self.parser_lang_stack[-1] = (", 'ML2')
V('ln2-cut', ['C13'], T2,
  "    lines = f.readlines()", "    lines = [lin[:-1] for lin in f.readlines()]", 'LN2')
V('ln2-neutral', ['C13'], T2,
  "    lines = f.readlines()", "    lines = [lin.rstrip('\\n') + '\\n' for lin in f.readlines()]", [])
V('lb1-overlap', ['C14', 'C16'], 'yalafi/shell/genhtml.py',
  "                overlaps.append((s, h.lin + 1))", "                overlaps.append((s, h.lin + 2))", 'LB1')
V('vb1-late', ['C18', 'C02'], S,
  "        self.pos = next((i for i in range(start_arg, self.max_pos)\n                                if latex[i] in end_arg), self.max_pos)",
  "        self.pos = next((i for i in range(start_arg + 1, self.max_pos)\n                                if latex[i] in end_arg), self.max_pos)", 'VB1')
V('skp1-text', ['C05'], P,
  "        while (buf.cur() and buf.is_space(buf.cur())\n                    and type(buf.cur()) is not defs.LanguageToken):",
  "        while buf.cur() and (type(buf.cur()) is defs.CommentToken\n                    or buf.cur().txt.isspace() and '\\n\\n' not in buf.cur().txt):", 'SKP1')
V('skp1-neutral-text', ['C05'], P,
  "        while (buf.cur() and buf.is_space(buf.cur())\n                    and type(buf.cur()) is not defs.LanguageToken):",
  "        while (buf.cur() and type(buf.cur()) is not defs.LanguageToken\n                    and buf.is_space(buf.cur())):", [])
V('sc9-bom', ['C06'], S,
  "        self.pos = 0\n        tokens = []", "        self.pos = 1 if latex.startswith('\\ufeff') else 0\n        tokens = []", 'SC9')
V('ck13-flag', ['C20'], PR,
  "            matches += checks.create_single_letter_matches(plain, cmdline)\n", "            if not cmdline.textgears:\n                matches += checks.create_single_letter_matches(plain, cmdline)\n", 'CK13')
V('ps7-cycle', ['C17'], 'yalafi/parameters.py',
  "class Parameters:\n", "import itertools\nsub_labels = itertools.cycle('abc')\n\nclass Parameters:\n    def next_label(self):\n        return next(sub_labels)\n", 'PS7')
V('reg1-drop', ['C18'], 'yalafi/packages/__init__.py',
  "        'listings',\n", "", 'REG1')
V('lt1-no-pushback', ['C12'], P,
  "                else:\n                    buf.back(lang_toks)\n                    if n < len(mac.defaults):", "                else:\n                    if n < len(mac.defaults):", 'LT1')
V('lt1-skip-space-again', ['C12'], P,
  "            lang_toks = []\n            tok = buf.cur()\n            while buf.is_space(tok):\n                if type(tok) is defs.LanguageToken:\n                    lang_toks.append(tok)\n                tok = buf.next()\n", "            lang_toks = []\n            tok = buf.skip_space()\n", 'LT1')
V('ck14-nofilter', ['C20'], 'yalafi/shell/checks.py',
  "                        if m.group(0).isalpha() and not f(m))", "                        if not f(m))", 'CK14')
V('ck14-neutral-order', ['C20'], 'yalafi/shell/checks.py',
  "                        if m.group(0).isalpha() and not f(m))", "                        if not f(m) and m.group(0).isalpha())", [])
V('ck15-joined', ['C20'], 'yalafi/shell/checks.py',
  "    hits = list((m.start(0), m.end(0))\n                    for pat in accept for m in re.finditer(pat, plain))", "    alt = '|'.join(accept)\n    hits = list((m.start(0), m.end(0))\n                    for m in re.finditer(alt, plain)) if alt else []", 'CK15')
V('sb7-nostrip', ['C09', 'C19'], 'yalafi/handlers.py',
  "    name = parser.get_text_direct(args[1]).strip()", "    name = parser.get_text_direct(args[1])", 'SB7')
V('sb7-neutral-later', ['C09'], 'yalafi/handlers.py',
  "    name = parser.get_text_direct(args[1]).strip()", "    name = parser.get_text_direct(args[1])\n    name = name.strip()", [])
V('ix8-nolimit', ['C07'], 'yalafi/handlers.py',
  "        nargs = int(nargs) if len(nargs) < 100 else 10", "        nargs = int(nargs)", 'IX8')
V('ix8-neutral-limit', ['C07'], 'yalafi/handlers.py',
  "        nargs = int(nargs) if len(nargs) < 100 else 10", "        nargs = 10 if len(nargs) >= 100 else int(nargs)", [])
# ---- round 7 rules
V('rx8-flag-as-count', ['C16'], 'yalafi/shell/genhtml.py',
  "    return re.sub(r'((?:.|\\n)*?(?!\\Z)|(?:.|\\n)+?)(<br>\\n|\\Z)', f, s)", "    return re.sub(r'(.*?(?!\\Z)|.+?)(<br>\\n|\\Z)', f, s, re.DOTALL)", 'RX8')
V('rx8-neutral-kw', ['C16'], 'yalafi/shell/genhtml.py',
  "    return re.sub(r'((?:.|\\n)*?(?!\\Z)|(?:.|\\n)+?)(<br>\\n|\\Z)', f, s)", "    return re.sub(r'(.*?(?!\\Z)|.+?)(<br>\\n|\\Z)', f, s, flags=re.DOTALL)", [])
V('tc1-isinstance', ['C19'], 'yalafi/packages/glossaries.py',
  "type(t) is defs.TextToken", "isinstance(t, defs.TextToken)", 'TC1')
V('sp6-at', ['C19'], 'yalafi/parameters.py',
  "            '\\\\,': '\\N{NARROW NO-BREAK SPACE}',", "            '\\\\,': '\\N{NARROW NO-BREAK SPACE}',\n            '\\\\@': '',", 'SP6')
V('ml11-soft-select', ['C12'], 'yalafi/packages/babel.py',
  "    return [LanguageToken(pos, lang=lang, hard=True, brk=selectlang_break)]", "    return [LanguageToken(pos, lang=lang, brk=selectlang_break)]", 'ML11')
VARIANTS.append(dict(id='lc5-stale-sep', props=['C13'], expect=['LC5'], edits=[
  (U, "def replace_phrases(txt, pos, lines):\n    for lin in lines:\n", "def replace_phrases(txt, pos, lines):\n    s = ''\n    for lin in lines:\n"),
  (U, "        t = s = ''", "        t = ''")]))
V('pd7b-peek-pos', ['C04'], 'yalafi/packages/xspace.py',
  "        return [defs.SpaceToken(pos, ' ')]", "        return [defs.SpaceToken(tok.pos, ' ')]", 'PD7b')
V('sb8-early', ['C03', 'C09'], P,
  "        name = tok.txt\n        args = []\n", "        name = tok.txt\n        if name in self.parms.newcommand_ignore:\n            return [defs.ActionToken(start)]\n        args = []\n", 'SB8')
V('sb2c-nocopy', ['C10', 'C04'], P,
  "                        arg = [copy.copy(t) for t in mac.defaults[n]]\n                        for t in arg:\n                            t.pos = start\n                            t.pos_fix = True", "                        arg = mac.defaults[n]", 'SB2c')
V('tx4-crlf', ['C14'], 'yalafi/shell/server.py',
  "        latex = requ['text'][0]", "        latex = requ['text'][0].replace('\\r\\n', '\\n')", 'TX4')
V('nd1-set', ['C17'], T2,
  "    for p in packs.split(','):", "    for p in set(packs.split(',')):", 'ND1')
V('tj8-in-before-type', ['C15'], PR,
  "        json_fatal('JSON root element')\n\n    def f(err):", "        json_fatal('JSON root element')\n    if 'response' in dic:\n        dic = json_get(dic, 'response', dict)\n\n    def f(err):", 'TJ8')
V('ix20-third', ['C07'], U,
  "                and not sections[1].back\n", "                and not sections[1].back\n                and not sections[2].brk\n", 'IX20')
V('fd1-unchecked', ['C18'], 'yalafi/shell/shell.py',
  "    tex = fp.read()\n", "    tex = fp.read()\n    tex = tex[:tex.find('\\\\end{document}')]\n", 'FD1')
V('fd1-neutral-checked', ['C18'], 'yalafi/shell/shell.py',
  "    tex = fp.read()\n", "    tex = fp.read()\n    end_doc = tex.find('\\\\end{document}')\n    if end_doc >= 0 and False:\n        tex = tex[:end_doc]\n", [])
V('dt2-verb-late', ['C08', 'C10'], MP,
  "            elif type(tok) is defs.VerbatimToken:\n                # \\verb text is data: do not compare it with stop tokens etc.\n                out.append(defs.MathElemToken(tok.pos, tok.txt))\n            elif tok.txt in toks_stop:\n                buf.next()\n                break\n",
  "            elif tok.txt in toks_stop:\n                buf.next()\n                break\n            elif type(tok) is defs.VerbatimToken:\n                out.append(defs.MathElemToken(tok.pos, tok.txt))\n", 'DT2')
V('to1-label', ['C05'], 'yalafi/packages/cleveref.py',
  "        Macro(parms, '\\\\label', args='OA', repl=''),", "        Macro(parms, '\\\\label', args='AO', repl=''),", 'TO1')
V('sbl3-direct', ['C08', 'C09'], 'yalafi/handlers.py',
  "    file = parser.get_text_expanded(args[0])", "    file = parser.get_text_direct(args[0])", 'SBL3')
V('uk8-reformat', ['C19'], 'yalafi/shell/gentext.py',
  "    if not unkn.split():\n        return\n    out.write('=== ' + file + ' ===\\n')\n    out.write(unkn)", "    names = unkn.split()\n    if not names:\n        return\n    out.write('=== ' + file + ' ===\\n')\n    out.write('\\n'.join(names) + '\\n')", 'UK8')
V('ns1-shlex', ['C20'], 'yalafi/shell/shell.py',
  "import argparse\n", "import argparse\nimport shlex\n", 'NS1')
V('ord1-early-lines', ['C16'], 'yalafi/shell/genhtml.py',
  "        if h.unsure or h.end <= h.beg:\n            h.end = h.beg + 1\n", "        h.endlin = tex.count('\\n', 0, h.end) + 1\n        if h.unsure or h.end <= h.beg:\n            h.end = h.beg + 1\n", 'ORD1')
VARIANTS.append(dict(id='guard1-nopop', props=['C09'], expect=['GUARD1'], edits=[
  ('yalafi/handlers.py', "    extracted = parser.extracted\n    parser.extracted = []\n    try:\n        toks = parser.parser_work(latex)", "    if file in parser.unknowns:\n        utils.fatal('recursive')\n    parser.unknowns.append(file)\n    extracted = parser.extracted\n    parser.extracted = []\n    try:\n        toks = parser.parser_work(latex)")]))
V('ps8-class-store', ['C17'], 'yalafi/shell/server.py',
  "        latex = requ['text'][0]\n", "        latex = requ['text'][0]\n        Handler.last_text = latex\n", 'PS8')
