"""Token classes, constructor calls and small syntactic helpers shared by the rules."""
import ast

from .model import AnalysisError, unparse
from .rdefs import reachdefs

OUTPUT_CLASSES = ('defs.TextToken', 'defs.SpaceToken', 'defs.ParagraphToken')
TEXTLESS_CLASSES = ('defs.ActionToken', 'defs.VoidToken', 'defs.LanguageToken')
SEMANTIC_FIELDS = ('pos', 'pos_fix', 'txt', 'arg', 'environ', 'lang', 'back', 'hard', 'brk', 'toks')


def token_ctor(model, call):
    """Cls if the call constructs a token class"""
    r = model.resolve_call(call)
    if r and r[0] == 'class' and model.is_subclass(r[1], 'defs.TextToken'):
        return r[1]
    return None


def ctor_params(model, cls):
    init = model.find_method(cls, '__init__')
    if init is None:
        raise AnalysisError('no __init__ for class ' + cls.qname)
    return init.params[1:], init


def ctor_args(model, call, cls):
    """parameter name -> argument node (positional and keyword), None if defaulted"""
    params, init = ctor_params(model, cls)
    out = {p: None for p in params}
    for i, a in enumerate(call.args):
        if isinstance(a, ast.Starred):
            out['*'] = a
            continue
        if i < len(params):
            out[params[i]] = a
    for k in call.keywords:
        if k.arg is not None:
            out[k.arg] = k.value
    return out


def all_ctor_calls(model, skip_mods=()):
    for m in model.mods.values():
        if m.short in skip_mods:
            continue
        for n in ast.walk(m.tree):
            if isinstance(n, ast.Call):
                c = token_ctor(model, n)
                if c is not None:
                    yield n, c


def is_const(e, value=None):
    if not isinstance(e, ast.Constant):
        return False
    return value is None or e.value is value or (e.value == value and type(e.value) is type(value))


def call_name(call):
    f = call.func
    if isinstance(f, ast.Attribute):
        return f.attr
    if isinstance(f, ast.Name):
        return f.id
    return ''


def resolve_local(model, e, depth=4):
    """follow a local Name through single reaching assignments: yields the value
    expressions it may stand for (or the Name itself if unknown)"""
    if depth <= 0 or not isinstance(e, ast.Name) or getattr(e, '_fn', None) is None:
        return [e]
    rd = reachdefs(e._fn)
    out = []
    for kind, name, node in rd.defs_of(e):
        if kind == 'assign':
            out.extend(resolve_local(model, node, depth - 1))
        else:
            return [e]
    return out or [e]


def func_returns(func):
    """Return value expressions of a function (own scope only)"""
    from .model import iter_scope
    if isinstance(func.node, ast.Lambda):
        return [func.node.body]
    out = []
    for n in iter_scope(func.node):
        if isinstance(n, ast.Return):
            out.append(n.value)
    return out


def explode_assigns(stmts):
    """a statement list in which a parallel assignment `a, b = x, y` whose right-hand sides do not
    read a target of the same statement is replaced by the equivalent simple assignments
    (synthetic Assign nodes that share position and parent with the original)"""
    out = []
    for st in stmts:
        if isinstance(st, ast.Assign) and len(st.targets) == 1 and isinstance(st.targets[0], ast.Tuple) \
                and isinstance(st.value, ast.Tuple) and len(st.targets[0].elts) == len(st.value.elts):
            tgts = [ast.unparse(t) for t in st.targets[0].elts]
            ok = True
            for k, v in enumerate(st.value.elts):
                for x in ast.walk(v):
                    if isinstance(x, (ast.Name, ast.Attribute)) and ast.unparse(x) in tgts[:k]:
                        ok = False
            if ok:
                for t, v in zip(st.targets[0].elts, st.value.elts):
                    a = ast.Assign(targets=[t], value=v)
                    for attr in ('lineno', 'col_offset', 'end_lineno', 'end_col_offset', '_mod', '_fn', '_parent'):
                        if hasattr(st, attr):
                            setattr(a, attr, getattr(st, attr))
                    out.append(a)
                continue
        out.append(st)
    return out


def body_with_tail(model, f):
    """the statements of f followed by those of a method of the same class that f calls in its final
    `return self.m(...)` (a tail of the function moved into a helper method; one level)"""
    body = list(f.node.body)
    last = body[-1] if body else None
    if isinstance(last, ast.Return) and isinstance(last.value, ast.Call) and isinstance(last.value.func, ast.Attribute) \
            and isinstance(last.value.func.value, ast.Name) and last.value.func.value.id == 'self' and f.cls is not None:
        q = f.qname.rsplit('.', 1)[0] + '.' + last.value.func.attr
        if model.has_func(q):
            body += list(model.func(q).node.body)
    return body


def alias_text(fnode, expr):
    """source text of expr in which every local name that is bound exactly once in fnode (plain
    assignment, no loop / augmented assignment) is replaced by the text of that value (one level)"""
    import copy as _copy
    binds = {}
    for n in ast.walk(fnode):
        if isinstance(n, ast.Assign):
            for t in n.targets:
                for m in ast.walk(t):
                    if isinstance(m, ast.Name):
                        binds.setdefault(m.id, []).append(n.value if isinstance(t, ast.Name) else None)
        elif isinstance(n, (ast.AugAssign, ast.AnnAssign, ast.For, ast.comprehension, ast.NamedExpr)):
            for m in ast.walk(n.target):
                if isinstance(m, ast.Name):
                    binds.setdefault(m.id, []).append(None)
        elif isinstance(n, ast.arg):
            binds.setdefault(n.arg, []).append(None)
    out = ast.unparse(expr)
    names = {m.id for m in ast.walk(expr) if isinstance(m, ast.Name) and isinstance(m.ctx, ast.Load)}
    import re as _re
    for nm in names:
        v = binds.get(nm)
        if v and len(v) == 1 and v[0] is not None:
            out = _re.sub(r'(?<![\w.])%s(?!\w)' % _re.escape(nm), '(' + ast.unparse(v[0]) + ')', out)
    return out


def reach_text(func, expr):
    """source text of expr in which every local name with exactly one reaching definition that is a
    plain assignment is replaced by the text of the assigned value (one level; flow-sensitive)"""
    import re as _re
    from .rdefs import reachdefs
    rd = reachdefs(func)
    out = ast.unparse(expr)
    for m in ast.walk(expr):
        if isinstance(m, ast.Name) and isinstance(m.ctx, ast.Load):
            ds = rd.defs_of(m)
            if len(ds) == 1 and ds[0][0] == 'assign' and isinstance(ds[0][2], ast.AST):
                out = _re.sub(r'(?<![\w.])%s(?!\w)' % _re.escape(m.id), '(' + ast.unparse(ds[0][2]) + ')', out)
    return out


def is_space_classes(model):
    """class names that Buffer.is_space() accepts: members of a tuple / list / set display, or the right-hand
    sides of == / is comparisons, in the body of the function"""
    f = model.func('scanner.Buffer.is_space')
    names = []
    for n in ast.walk(f.node):
        if isinstance(n, (ast.Tuple, ast.List, ast.Set)):
            names += [ast.unparse(x).split('.')[-1] for x in n.elts]
        elif isinstance(n, ast.Compare) and len(n.ops) == 1 and isinstance(n.ops[0], (ast.Eq, ast.Is)):
            c = ast.unparse(n.comparators[0]).split('.')[-1]
            if c.endswith('Token'):
                names.append(c)
    return [x for x in names if x.endswith('Token')]
