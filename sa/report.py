"""Findings, rule results, evidence files, known findings (DESIGN.md 6.2, 6.3)."""
import json
import os
import time

from .model import stmt_text, AnalysisError

VERIF = os.path.dirname(os.path.dirname(os.path.abspath(__file__)))


class Finding:
    def __init__(self, rule, node=None, msg='', mod=None, fn=None, stmt=None, witness=None):
        self.rule = rule
        self.msg = msg
        self.module = mod if mod is not None else (node._mod.rel if node is not None else '?')
        if fn is None and node is not None:
            fn = node._fn.qname if getattr(node, '_fn', None) else '<module>'
        self.function = fn or '<module>'
        self.stmt = stmt if stmt is not None else (stmt_text(node) if node is not None else '')
        self.line = getattr(node, 'lineno', 0) if node is not None else 0
        self.witness = witness

    def key(self):
        return '%s|%s|%s|%s' % (self.rule, self.module, self.function, self.stmt)

    def text(self):
        return '%s:%d %s rule=%s: %s   [%s]' % (
            self.module, self.line, self.function, self.rule, self.msg, self.stmt)

    def as_dict(self):
        d = dict(rule=self.rule, module=self.module, function=self.function,
                 statement=self.stmt, line=self.line, reason=self.msg, key=self.key())
        if self.witness:
            d['witness_recipe'] = self.witness
        return d


class RuleResult:
    """what one rule did on this run"""
    def __init__(self, rule, text, floor=0):
        self.rule = rule
        self.text = text            # the rule in words
        self.floor = floor          # minimal number of instances confirmed by hand
        self.instances = 0          # obligations enumerated
        self.nontrivial = 0         # discharged by a guard / data-flow / algebraic argument
        self.findings = []
        self.undecided = []         # constructs the rule could not classify (no alarm)
        self.samples = []
        self.exceptions = []        # named exceptions used, with reason
        self.analysed = set()       # functions looked at

    def ok(self, node, how, nontrivial=False, sample=True):
        self.instances += 1
        if nontrivial:
            self.nontrivial += 1
        if node is not None and getattr(node, '_fn', None):
            self.analysed.add(node._fn.qname)
        if sample and len(self.samples) < 6 and node is not None:
            self.samples.append({
                'rule': self.rule,
                'site': '%s:%d' % (node._mod.rel, getattr(node, 'lineno', 0)),
                'function': node._fn.qname if getattr(node, '_fn', None) else '<module>',
                'statement': stmt_text(node)[:160], 'discharged_by': how})

    def ok_plain(self, what, how, nontrivial=False):
        self.instances += 1
        if nontrivial:
            self.nontrivial += 1
        if len(self.samples) < 6:
            self.samples.append({'rule': self.rule, 'obligation': what, 'discharged_by': how})

    def fail(self, node, msg, **kw):
        self.instances += 1
        if node is not None and getattr(node, '_fn', None):
            self.analysed.add(node._fn.qname)
        self.findings.append(Finding(self.rule, node, msg, **kw))

    def undec(self, node, msg):
        self.undecided.append('%s:%d %s: %s' % (
            node._mod.rel, getattr(node, 'lineno', 0), stmt_text(node)[:100], msg))

    def exception(self, name, reason):
        self.exceptions.append('%s: %s' % (name, reason))

    def check_floor(self):
        if self.findings:
            return      # a rule that reports something is not vacuous
        if self.instances < self.floor:
            raise AnalysisError(
                'rule %s matched %d instance(s), fewer than the %d confirmed by hand: '
                'the rule would pass vacuously' % (self.rule, self.instances, self.floor))


def load_known():
    p = os.path.join(VERIF, 'known_findings.json')
    if not os.path.exists(p):
        return []
    with open(p) as f:
        return json.load(f).get('findings', [])


def write_evidence(prop, tier, seed, results, wall, violations, extra_assumptions, explanation,
                   n_files, n_funcs):
    inst = sum(r.instances for r in results)
    nontriv = sum(r.nontrivial for r in results)
    disch = inst - sum(len(r.findings) for r in results)
    samples = []
    for r in results:
        samples.extend(r.samples[:3])
    cov = {
        'explanation': explanation,
        'evaluations': inst,
        'distinct_nontrivial': nontriv,
        'rule': 'one case = one rule instance (construction site, store, call site, path, '
                'table entry or algebraic obligation) enumerated from the current source; '
                'non-trivial = its discharge needed a guard, data-flow or algebraic argument '
                '(not a literal match)',
        'obligations': inst,
        'discharged': disch,
        'samples': samples or [{'note': 'no instance'}],
        'exhaustive': True,
        'files_analysed': n_files,
        'functions_in_model': n_funcs,
        'rules': [{
            'rule': r.rule, 'text': r.text, 'instances': r.instances, 'floor': r.floor,
            'nontrivial': r.nontrivial, 'findings': [f.as_dict() for f in r.findings],
            'undecided': r.undecided, 'named_exceptions': r.exceptions,
            'functions_analysed': sorted(r.analysed)} for r in results],
        'checker_cmd': './check %s --tier %s' % (prop, tier),
        'trusted_base': ['CPython ast (parsing only)', 'the resolver of sa/model.py',
                         'Python list/str/re semantics as encoded in the rules'],
    }
    ev = {
        'property_id': prop, 'tier': tier, 'seed': seed, 'level': 'other',
        'coverage': cov,
        'assumptions': extra_assumptions,
        'wall_s': round(wall, 3),
        'violations': violations,
    }
    d = os.path.join(VERIF, 'evidence')
    os.makedirs(d, exist_ok=True)
    with open(os.path.join(d, prop + '.json'), 'w') as f:
        json.dump(ev, f, indent=1, ensure_ascii=False)
        f.write('\n')
    return ev


def write_replay(prop, n, finding):
    d = os.path.join(VERIF, 'evidence', 'replay')
    os.makedirs(d, exist_ok=True)
    p = os.path.join(d, '%s-%d.json' % (prop, n))
    with open(p, 'w') as f:
        json.dump({'property': prop, 'finding': finding.as_dict(),
                   'how_to_replay': './check %s --tier quick  (static: the finding is a '
                                    'function of the working tree)' % prop},
                  f, indent=1, ensure_ascii=False)
        f.write('\n')
    return p
