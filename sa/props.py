"""Which rules serve which property (DESIGN.md section 4)."""
from .rules import tables as T

PROPS = {
    'C06': {
        'rules': [T.sp1, T.sp2, T.sp3, T.ix4],
        'explanation': 'static table and dispatch rules: the special-sequence table equals '
                       'the documented one and contains nothing else that plain prose could '
                       'hit (SP1), values are never longer than keys (SP3), longest match '
                       '(SP2), tables well-formed (IX4)',
        'assumptions': ['str.startswith / list.sort semantics'],
    },
}

# properties not claimed (yet), with the reason; kept current by hand
NOT_APPLICABLE = {
    'C09': 'substitution correctness over all definitions/documents and the equality of three '
           'runs up to a constant shift are relations over run-time token sequences and between '
           'executions; no static rule in reach decides them (DESIGN.md 4, C09)',
}
for _p in ['C%02d' % i for i in range(1, 21)]:
    if _p not in PROPS and _p not in NOT_APPLICABLE:
        NOT_APPLICABLE[_p] = 'check under construction in this session (rules planned in DESIGN.md 4)'

MANIFEST_TEXT = {
    'C06': {
        'level': 'static table/dispatch rules: decides that the special-sequence table is the '
                 'documented one, contains no key that plain prose could hit, has no value longer '
                 'than its key, and that the scanner matches longest first; it does not decide '
                 'the behaviour on all strings (adjacency with the blank-line pass is left out)',
        'design_ref': 'DESIGN.md 3.8 (SP1-SP3), 3.6 (IX4), 4 C06',
        'note': 'trusted: str.startswith/list.sort semantics, the literal evaluation of '
                'Parameters.special_tokens; the reference table is frozen from the property statement',
        'technique': 'static analysis: literal table evaluation against a frozen reference + '
                     'AST classification of the sort key and the matching loop',
    },
}
