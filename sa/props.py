"""Which rules serve which property (DESIGN.md section 4), with the texts that go into
MANIFEST.json and the evidence files."""
from .rules import tables as T
from .rules import pd as PD
from .rules import em as EM
from .rules import ls as LS
from .rules import ab as AB
from .rules import tj as TJ
from .rules import ps as PS
from .rules import th as TH
from .rules import misc as MI
from .rules import mt as MT
from .rules import scan as SC
from .rules import ok as OK
from .rules import struct as ST
from .rules import more as MO
from .rules import rx as RX
from .rules import rg as RG
from .rules import r2 as R2
from .rules import r3 as R3
from .rules import c09 as C9
from .rules import r4 as R4
from .rules import r5 as R5
from .rules import r6 as R6
from .rules import r7 as R7

TRUST = ('trusted: the CPython parser (ast), the callee resolver of sa/model.py (receiver roles, '
         'unique method names), Python list/str/re semantics as encoded in the rules; ')

PROPS = {}


def prop(pid, rules, explanation, level, note, technique, design_ref, assumptions=()):
    PROPS[pid] = dict(rules=rules, explanation=explanation, level=level, note=TRUST + note,
                      technique=technique, design_ref=design_ref,
                      assumptions=list(assumptions))


prop('C01',
     [PD.pd1, PD.pd2, PD.pd3, PD.pd4, PD.pd5, PD.pd8, SC.pd6, MI.pd0, MI.tx1, MI.df1, OK.ok4, EM.em1, AB.ab1, LS.ls1, LS.ls1_ml, LS.ls1_shell, LS.ls1w, AB.ab3, R2.okv,
      T.sp3, R4.pd9, R5.em8, R5.pd10, R6.sc9, R7.tc1, R7.pd7b],
     'inductive argument from static rules: tokens outside the scanner are pinned, '
     'single-character or faithful copies (PD1, PD2, SP3), pinned positions are never shifted '
     'or spread (PD3, PD4), shared tokens are never re-stamped (PD5), the error mark is used '
     'whole (EM1), and text and map are built in lock step in every builder incl. phrase '
     'replacement, --unkn, the multi-language join and the shell concatenation (LS1*)',
     'decides the structural core of C01 for all inputs and option combinations (rules '
     'quantify over all paths; options only select paths): equal lengths by symbolic affine '
     'length algebra with inductive loop invariants, range by the pinned/anchored token '
     'discipline. Not decided: that scanner look-ahead positions are inside the text is taken '
     'from the anchoring rule PD6',
     'the witness recipes (macro body used at the end of the file) show the rules are '
     'necessary conditions; regex engine semantics for finditer',
     'static analysis: constructor/store census on the AST with ownership data-flow, guard '
     'dominance, and symbolic affine length evaluation with Houdini loop invariants',
     'DESIGN.md 3.1, 3.2, 4 C01')

prop('C02',
     [SC.pd6, PD.pd1, PD.pd3, PD.pd4, PD.pd5, PD.pd8, MI.pd0, MI.tx1, T.sp3, LS.ls1, LS.ls1_ml, AB.ab3, R3.rs1, LS.ls1_shell, SC.vb1, R7.tx4],
     'copied text keeps its own offset: argument tokens are moved, never rewritten (PD5); a '
     'shortened token advances its position by the removed prefix, only if unpinned (PD4, '
     'PD3); replaced sequences are copy-form tokens at the position of the sequence (PD1, '
     'SP3); non-pinned tokens spread pos..pos+len-1 in get_txt_pos (LS1)',
     'decides the structural part (anchoring outside the scanner, no rewriting of moved '
     'tokens, trim/advance pairing); not decided: which layouts shorten a token, and the '
     'string logic of comment/space scanning',
     'scanner anchoring itself is rule PD6',
     'static analysis: AST store census + ownership data-flow + guard dominance',
     'DESIGN.md 3.1, 4 C02')

prop('C03',
     [MI.dt1, MI.ex2, MI.df1, PD.pd5, ST.ls2p, ST.at1, ST.ex1, RG.rg1, RG.rg2, R2.at2, SC.sc5, R3.rs1, R4.exw, R4.um1, R4.nm1, R4.st1, R4.sig1, R4.df2, R4.sbl1, R5.ex1c, SC.pd6, R5.em7, R6.sk1, SC.vb1, R6.reg1, R6.sc9, R7.tc1, R7.sp6, R7.sb8, R3.sp5, R7.dt2, R7.to1],
     'no markup class reaches the default emit and comments are dropped (DT1); an argument '
     'handed back for expansion is not expanded a second time by its handler (EX2: no '
     'duplicated footnotes); text of definition files never reaches the output, including '
     'extracted flows (DF1); stored bodies and arguments are not mutated between uses (PD5)',
     'decides the "never leaks" half for comments / definitions and the duplication clause '
     'for handler arguments; not decided: that arbitrary nestings expand to the right multiset '
     'of words in order (run-time token sequences)',
     'the handler registry (Macro/Environ repl=) is complete as evaluated',
     'static analysis: dispatch-chain exhaustiveness, expand/return census per handler over '
     'resolved aliases, data-flow of parsed definition tokens',
     'DESIGN.md 3.8 (DT1, EX1), 3.4 (DF1), 4 C03')

prop('C04',
     [PD.pd1, PD.pd2, PD.pd3, PD.pd5, PD.pd8, MI.pd0, ST.pd7, AB.ab1, AB.ab3, R4.pd9, C9.sb1, OK.ok2, R3.rs1, R5.pd10, PD.pd4, MI.df1, R7.pd7b, R7.sb2c],
     'every generated token is pinned (PD1), re-stamped tokens are pinned (PD2), and bodies, '
     'defaults, glossary and cleveref replacements are copied before they are stamped (PD5)',
     'decides that generated text cannot spread or be re-mapped by a later use; not decided: '
     'that the position taken is the best one inside the span (PD7 provenance is partial)',
     'copy.copy is shallow and sufficient (token fields are scalars)',
     'static analysis: constructor census + ownership data-flow with verified fresh-list '
     'summaries, parameter obligations moved to call sites',
     'DESIGN.md 3.1, 4 C04')

prop('C05',
     [MO.ac1, MO.ac2, PD.pd4, PD.pd3, R3.tk1, R3.ml8, R3.sc7, R3.ac3, R4.ab5, RX.rp1, R5.um2, R6.em9, R6.sb6, R6.skp1, R7.fd1, R7.to1],
     'enabling invariants of the line-removal pass: every vanishing construct leaves an action '
     'token (or a paragraph token / visible text) on every path and substituted arguments are '
     'bracketed by action tokens (AC1); the skip-space set excludes paragraph tokens (AC2); a '
     'shortened token advances its position by what was removed, only if unpinned (PD4, PD3)',
     'decides only the two preconditions the blank-line algorithm relies on and the position '
     'bookkeeping of shortened tokens; NOT decided: the line-removal algorithm itself and the '
     'comment scanner over all layouts - the bulk of the property. A pass of this check does '
     'not show C05',
     '',
     'static analysis: must-contain-action summaries over return expressions with reaching '
     'definitions; class-set check of Buffer.is_space',
     'DESIGN.md 3.8 (AC1, AC2), 4 C05')

prop('C06',
     [T.sp1, T.sp2, T.sp3, T.ix4, MI.pd0, SC.sp4, SC.pd6, R3.ix15, R3.ac3, PD.pd1, PD.pd5, R3.sc7, R4.nl1, ST.ls2p, R3.rs1, R5.dt1c, R5.tx3, LS.ls1, R6.opt1, R6.sc9, R7.sp6, SC.ix19],
     'static table and dispatch rules: the special-sequence table equals the documented one '
     'and contains nothing else that plain prose could hit (SP1), values are never longer '
     'than keys (SP3), longest match (SP2), tables well-formed (IX4)',
     'decides that the special-sequence table is the documented one, contains no key that '
     'plain prose could hit, has no value longer than its key, and that the scanner matches '
     'longest first; it does not decide the behaviour on all strings (adjacency with the '
     'blank-line pass is left out)',
     'str.startswith/list.sort semantics; the reference table is frozen from the property '
     'statement',
     'static analysis: literal table evaluation against a frozen reference + AST '
     'classification of the sort key and the matching loop',
     'DESIGN.md 3.8 (SP1-SP3), 3.6 (IX4), 4 C06')

prop('C07',
     [SC.pd6, T.ix4, ST.at1, RG.ix1, RG.ix2a, MO.ix2s, MO.ix6, MO.ix7, MO.ix8, MO.ix9, MO.ix10, MO.pg1, MI.tx1, R3.sp5, R3.ix11, R3.ix12, R3.ix13, R3.ix15, R4.ix16, MO.ml2, ST.ex1, R5.ix17, R6.und1, SC.ix19, R6.ix18, R7.lc5, R3.rs1, MI.df1, R7.ix20, R7.fd1],
     'progress of the scanner on every path (PD6: the scan position strictly increases, with '
     'bounds of next()/find() results), well-formed tables (IX4)',
     'decides termination of the scanner and table well-formedness; further index-safety rules '
     'are added below; not decided: absence of every exception kind on every path, recursion '
     'depth, expansion blow-up (excluded by the property)',
     '',
     'static analysis: symbolic evaluation of the scanner with affine bounds; table evaluation',
     'DESIGN.md 3.6, 4 C07')

prop('C08',
     [EM.em1, EM.em2, EM.em3, R2.em4, AB.ab1, OK.ok1, SC.sc5, R3.rs1, R4.em5, MI.dt1, R4.em6, R4.st1, MI.ex2, R5.pair1, R5.em7, R5.em8, R6.sk1, PS.ps1, R6.em9, ST.at1, R7.dt2, R7.sbl3],
     'the mark is used whole (EM1), is produced only together with a diagnostic (EM2), and '
     'recovery pushes the consumed tokens back (EM3)',
     'decides the structural clauses "complete mark", "never a mark without diagnostic", '
     '"no text lost on recovery"; not decided: that a well-formed document triggers none of '
     'the error sites',
     'sys.stderr.write is the diagnostic channel',
     'static analysis: call-site census of latex_error, dominance of the diagnostic, '
     'data-flow of the collected tokens into buf.back',
     'DESIGN.md 3.7, 4 C08')

prop('C09',
     [C9.sb1, C9.sb2, C9.sb3, C9.sb4, C9.sb5, ST.pd7, PD.pd5, MI.df1, MO.ix6, R3.ix12, MI.uk, R3.rs1, R4.sc8, R4.sb2b, ST.at1, R2.at2, R4.um1, R4.en1, R4.exw, R4.st1, R4.sbl1, PS.ps1, R4.sh1, R6.memo1, R6.lp1, R6.sb6, R6.sb7, R7.sb8, R7.sb2c, R7.guard1, R7.sbl3],
     'structural clauses only: the substitution loop replaces #k by the complete k-th argument and '
     'copies every other body token once, in order (SB1); one argument per code, defaults at the '
     'index of the code (SB2); \\newcommand / \\def register unconditionally under the literal name '
     'with n codes, optional first iff a default is given, body and default from the right '
     'arguments (SB3); definition handlers return no text (SB4, DF1); the three supply routes fill '
     'the one table of the one parser, which is never replaced, and a use looks the definition up '
     'at the time of use (SB5); argument references are validated against n (IX6, IX12); stored '
     'bodies and defaults are copied before they are stamped (PD5, PD7)',
     'decides the SHAPE of the definition and substitution machinery, each clause a necessary '
     'condition of C09 (breaking it breaks substitution, redefinition, or the equality of the three '
     'routes). NOT decided: that nested uses expand fully for all bodies, that single-token '
     'arguments are collected as TeX does, and the equality of the extracted text of three runs up '
     'to a constant shift - these are relations over run-time token sequences and between '
     'executions',
     'the registry entry of \\newcommand (code *AOOA) gives the argument layout the rules use',
     'static analysis: shape analysis of the substitution loop by case split on the token class, '
     'constructor-argument census of the registration sites against the registry entry, '
     'return-value census of the definition handlers, store census of the macro tables',
     'DESIGN.md 3.8, 4 C09')

prop('C10',
     [MT.mt1, MT.mt2, MT.mt5, R2.mt6, R2.mt7, R2.mt8, MI.ex2, MI.lc1, PS.ps3, T.mt4, PD.pd1, R3.ix14, MO.ml2, R3.tk1, PD.pd5, R4.sh1, R4.nm1, MI.dt1, ST.ex1, R5.mt4b, MI.ml6, R4.lt2, R6.spc1, R6.opt1, R6.lt3, R7.sb2c, R7.dt2],
     'rotation state: an argument is expanded once (EX2: formulas inside handler arguments '
     'consume one placeholder), collections are per language and looked up at the time of use '
     '(LC1), punctuation entries are single characters (MT4), generated tokens pinned (PD1)',
     'decides: per maths part exactly one rotation and one placeholder on every inline path, '
     'punctuation only from the table, blanks only for maths space (MT1, all 280 valuations of '
     'the decision table), callers (MT2), rotation state per language and per call (LC1, '
     'EX2); not decided: that a formula consisting of maths only yields exactly one part '
     '(token classification in expand_math_section)',
     '',
     'static analysis: abstract interpretation of replace_section over truth values '
     '(decision-table extraction, exhaustive over consistent valuations) against a reference '
     'table; call-site and table checks',
     'DESIGN.md 3.8 (MT1-MT4), 4 C10')

prop('C11',
     [MT.mt1, MT.mt2, MT.mt3, MT.mt5, R2.mt6, R2.mt7, R2.mt8, T.mt4, MI.lc1, PS.ps3, PD.pd1, R3.ix14, MO.ml2, R3.tk1, PD.pd5, R4.nm1, R5.mt4b, R5.at3, R6.mok1, R6.opt1],
     'the decision table of replace_section equals the documented scheme incl. rotation points, '
     'operator words and punctuation (MT1); section flag / next-replacement threading and the '
     'final punctuation of simple / removed equations (MT2); all catalogue equation '
     'environments are EquEnv (MT3); last character of a part (MT5); collections per '
     'language at the time of use (LC1); generated characters pinned (PD1)',
     'decides the rewriting scheme per part and its threading through sections; not decided: '
     'row / section splitting over all token sequences and the interaction of '
     '\\label / \\nonumber / braces with the last character beyond MT5',
     'the reference table is written down from README "Parser for maths material" and the '
     'statements of C10 / C11',
     'static analysis: abstract interpretation over truth values (decision table, 280 '
     'valuations) + call-site / registry checks',
     'DESIGN.md 3.8 (MT1-MT5), 4 C11')

prop('C12',
     [LS.ls1_ml, MO.ml2, R2.ml4, R2.lc2, MI.ml6, MI.lc1, ST.ex1, OK.ok4, R2.okv, R3.ml7, R3.ml8, R4.acc1, R4.sh1, R4.lt1, R4.lt2, LS.ls1_shell, OK.ok2, R5.sbl2, R5.lc4, R6.ml10, R6.lt3, R6.la1, R6.skp1, R7.ml11, R7.ix20],
     'text and map of every language section stay in lock step through sectioning, joining '
     'and placeholder insertion (LS1m)',
     'decides only the lock-step clause of C12 so far',
     '',
     'static analysis: symbolic affine length evaluation with a class invariant for '
     'LanguageSection',
     'DESIGN.md 3.2, 4 C12')

prop('C13',
     [LS.ls1, AB.ab3, R2.okv, RX.rp1, R2.ps5, R3.rp2, R3.rx5, R4.rx6, MO.ln1, LS.ls1_ml, R4.rx7, R5.ab3r, R6.ln2, R7.rx8, R7.lc5, R7.fd1],
     'equal lengths after substitution for every combination of shorter / equal / longer '
     'replacement (LS1 on substitute and replace_phrases)',
     'decides the equal-length clause; more clauses follow',
     'regex engine semantics for finditer',
     'static analysis: symbolic affine length evaluation with inductive loop invariant',
     'DESIGN.md 3.2, 4 C13')

prop('C14',
     [OK.ok1, OK.ok2, OK.ok4, R2.th3, R2.okv, LS.ls1_shell, AB.ab2, MI.oks, PS.ps1, R3.ok6, R3.ml7, R3.ix13, R2.cm2, R4.ml9, R5.tx2, MO.ln1, MO.ml2, AB.ab3, LS.ls1, R2.ml4, R5.un1, R6.lt3, R6.lb1, R7.rx8, R7.ml11, R7.tx4, PD.pd4, MI.ml6, R7.fd1, R7.ord1, R7.ps8],
     'the chain part offset -> total offset -> LaTeX offset -> line / column: every match of a '
     'part is shifted once by the text accumulated before it (OK2), the accumulated text and map '
     'stay in lock step incl. delimiter padding (LS1s), map entries are read through abs() and '
     'converted with - 1 / last - first + 1 (OKS, OK4), indices are clamped (AB2), and the '
     'line / column formulas of text, json, xml, xml-b and the diagnostics have the documented '
     'normal forms (OK1, sibling agreement); sorting by LaTeX position on every path (OK2)',
     'decides the arithmetic of the reporting chain for all matches and formats; not decided: '
     'that the character map itself is right (C01/C02/C04), excerpt contents, HTTP behaviour',
     'conventions (1-based text report, 0-based json/xml with exclusive tox) frozen from the '
     'README and the statement of C14',
     'static analysis: symbolic evaluation of the formatters to affine normal forms over '
     'NL()/RF() atoms compared with the convention; structural typestate of the shift loop',
     'DESIGN.md 3.2, 4 C14')

prop('C15',
     [TJ.tj1, TJ.tj2, TJ.tj3, AB.ab2, MI.oks, R2.okv, R3.ix13, R4.tj4, R4.tj5, R4.th8, OK.ok1, R4.en2, R5.tj6, R5.tj7, R3.rx5, R6.und1, TH.th10, R6.ln3, R7.tj8, MI.df1],
     'every access to answer data is type-checked through json_get or validated at source '
     '(TJ1, interprocedural taint from JSONDecoder.decode through parameters, callbacks, '
     'tuples and attributes), decoding is guarded (TJ2), the error path is one diagnostic and '
     'exit status 1 (TJ3), reported locations are clamped into the map (AB2)',
     'decides the core of C15 for every malformed answer: no raw operation on answer data, '
     'every decode inside a try that ends in the diagnostic, clamped/rejected offsets; not '
     'decided: exceptions unrelated to the answer (I/O, stdout encoding)',
     'json_get / json_fatal are the only sanitiser and are checked structurally (TJ3)',
     'static analysis: interprocedural taint analysis with sanitiser and validated-at-source '
     'keys, try/except coverage, affine clamp proofs with min/max case splits',
     'DESIGN.md 3.4, 3.2 (AB2), 4 C15')

prop('C16',
     [TH.th1, TH.th2, R2.th3, R2.th4, R2.cm2, MO.ln1, R3.rx5, R3.ix13, R3.cm3, R3.th6, R4.th8, OK.ok2, R4.ps6, R4.th7, R5.tx2, R5.th9, R6.und1, R6.lb1, R6.ln3, R7.rx8, R7.ord1],
     'escaping exactly once for all sources the property names, by a three-valued taint '
     '(raw / escaped-or-markup / mixed) through concatenations, helper functions, re.sub '
     'callbacks and result tuples; protect_html checked as a table (TH1); each match '
     'highlighted exactly once, in place or in the overlap list, with the source tiled from a '
     'cursor without gap or duplication - path-sensitive symbolic evaluation of the region '
     'loop (TH2/LS2)',
     'decides the escaping clause and the each-match-once / tiling clauses; not decided: '
     'line-number alignment of the table and the regular expressions that keep <span> inside '
     'one line',
     'sources are exactly those C16 names (source text, message, suggestion, context, rule '
     'id); URL and file name are reported as by-catch only',
     'static analysis: interprocedural string-taint analysis with sanitiser + path-sensitive '
     'symbolic evaluation of cursor and accumulators',
     'DESIGN.md 3.4 (TH1, TH2), 3.2 (LS2), 4 C16')

prop('C18',
     [ST.ex1, ST.wl1, ST.ls2p, MI.dt1, MI.df1, R2.cm2, SC.sc5, R3.rs1, R4.exw, R4.df2, R4.rx7, R4.sh3, R5.ex1c, R5.sh3b, SC.vb1, R6.reg1, SC.pd6, R5.tx3, R7.fd1],
     'init_extractions rewrites every macro and extracts the first mandatory argument, the main '
     'text is dropped, flows are appended once in order (EX1); the work list takes one name per '
     'iteration, records it exactly as tested after the done / skip test, and adds only names '
     'that are neither done nor pending nor skipped (WL1); skipped regions and comments do not '
     'reach the expander (LS2p, DT1)',
     'decides the extraction bookkeeping and the work-list discipline (each file once, '
     'terminates on cycles); not decided: occurrences in verbatim material, file-name '
     'normalisation',
     '',
     'static analysis: loop-structure and guard-dominance checks on init_extractions / parse / '
     'the module-level work list; symbolic partition check of the skip loop',
     'DESIGN.md 3.8 (EX1, WL1), 4 C18')

prop('C19',
     [MI.uk, R2.uk5, SC.sc5, PS.ps1, R3.sp5, R3.mc1, R3.rs1, R4.um1, R4.sh1, R4.exw, R4.acc1, R4.st1, R5.uk7, R6.memo1, R6.lp1, R6.cl1, R6.sk1, R3.sc7, R3.cm3, R6.reg1, R6.sb7, R7.tc1, R7.sp6, R7.dt2, R7.uk8],
     'recorded only when undeclared at the time of use, only in text mode, once, reset per '
     'document, printed one per line (UK); what is declared does not depend on earlier calls '
     '(PS1)',
     'decides the recording conditions and history independence; not decided: that comments '
     'and skipped regions never reach the expander (DT1 gives the structural half)',
     '',
     'static analysis: guard-fact dominance at every recording site incl. helper functions '
     'and companion containers, literal math flags at call sites',
     'DESIGN.md 3.8 (UK1-UK4), 4 C19')

prop('C20',
     [RX.ck1, RX.ck4, RX.ck5, RX.ab4, OK.ok2, PS.ps1, R3.lc3, R3.ck6, R3.ck7, R4.ck8, R4.ck10, R4.rx7, R5.un1, R5.lc4, R6.und1, R6.ck13, R6.ck14, R6.ck15, R7.ns1],
     'single-letter scan pattern has width 1 between word boundaries and letters only, accepted '
     'patterns are literal, the suppression test is beg <= position < end with the right '
     'strictness, offset and length come from one match (CK1); the equation-punctuation pattern '
     'allows an optional , ; : in the look-ahead and before a word (CK4); the placeholder '
     'alternation comes from the maths collections only (CK5); the context excerpt marks the '
     'flagged characters (AB4)',
     'decides width / anchoring / structure of the scan patterns (regex AST) and the excerpt '
     'arithmetic; not decided: the equation-punctuation pattern over all texts (regular-language '
     'reasoning beyond structure)',
     'Python re semantics; patterns are partially evaluated with a hole for the placeholder '
     'alternation',
     'static analysis: regular-expression ASTs (re._parser) of partially evaluated pattern '
     'strings, comparison-strictness census, symbolic excerpt arithmetic',
     'DESIGN.md 3.8 (CK1-CK3), 3.2 (AB4), 4 C20')

prop('C17',
     [PS.ps1, PS.ps2, PS.ps3, R2.ps5, R4.ps6, R5.pair1, R6.ps7, R7.nd1, R7.guard1, R7.ps8],
     'nothing reachable from the per-document entry points writes to an object that outlives '
     'the call: whole-program field-based may-alias analysis of persistent allocation sites '
     '(module level, class level, default arguments, cache decorators) against every in-place '
     'mutation in reachable code (PS1), no global re-binding (PS2), parser state constructed '
     'per call (PS3); the server mutates copies only (PS1 on Handler.create_message)',
     'decides the core of C17 for all call histories: no persistent mutable state is written '
     'per document; not decided: state outside the interpreter (files, the LT server)',
     'call graph incl. registry callbacks and dynamic module handlers; shallow-copy '
     'semantics (elements of a copy alias the elements of the original)',
     'static analysis: Andersen-style field-based points-to over persistent sites + '
     'reachability on the resolved call graph',
     'DESIGN.md 3.5, 4 C17')

# properties not claimed (yet), with the reason; kept current by hand
NOT_APPLICABLE = {
}
for _p in ['C%02d' % i for i in range(1, 21)]:
    if _p not in PROPS and _p not in NOT_APPLICABLE:
        NOT_APPLICABLE[_p] = 'check under construction in this session (rules planned in DESIGN.md 4)'

MANIFEST_TEXT = {p: {'level': d['level'], 'design_ref': d['design_ref'], 'note': d['note'],
                     'technique': d['technique']} for p, d in PROPS.items()}
