"""Component C/D of DESIGN.md: a structured forward data-flow interpreter over the
statement kinds used in the repository.  Subclasses supply the lattice."""
import ast

from .model import AnalysisError


class Flow:
    """forward abstract interpretation of one function body.

    States are dict-like values handled only through copy/join/transfer hooks; None is
    'unreachable'.  Loops are iterated to a fixed point (join must be monotone on a
    lattice of finite height, or widen() must be overridden)."""

    MAX_ITER = 40

    def __init__(self):
        self.loop_stack = []
        self.returns = []       # (Return node or None for fall-through, state)
        self.pre = {}           # id(stmt) -> state before it (joined over visits)

    # ---- hooks --------------------------------------------------------------
    def copy(self, st):
        return dict(st)

    def join(self, a, b):
        raise NotImplementedError

    def equal(self, a, b):
        return a == b

    def transfer(self, stmt, st):
        return st

    def cond(self, test, st, branch):
        return st

    def bind_for(self, node, st):
        return st

    def bind_with(self, node, st):
        return st

    def bind_except(self, handler, st):
        return st

    def on_return(self, node, st):
        pass

    def nested_def(self, node, st):
        return st

    def widen(self, old, new):
        return new

    # ---- driver -------------------------------------------------------------
    def run(self, body, st):
        out = self.block(body, st)
        if out is not None:
            self.returns.append((None, out))
            self.on_return(None, out)
        return out

    def j(self, a, b):
        if a is None:
            return b
        if b is None:
            return a
        return self.join(a, b)

    def block(self, stmts, st):
        for s in stmts:
            if st is None:
                return None
            st = self.stmt(s, st)
        return st

    def _record(self, s, st):
        k = id(s)
        if k in self.pre:
            self.pre[k] = self.j(self.pre[k], self.copy(st))
        else:
            self.pre[k] = self.copy(st)

    def stmt(self, s, st):
        self._record(s, st)
        if isinstance(s, ast.If):
            a = self.block(s.body, self.cond(s.test, self.copy(st), True))
            b = self.block(s.orelse, self.cond(s.test, self.copy(st), False))
            return self.j(a, b)
        if isinstance(s, (ast.While, ast.For)):
            return self.loop(s, st)
        if isinstance(s, ast.Try):
            before = self.copy(st)
            body_out = self.block(s.body, st)
            hin = self.j(before, self.copy(body_out) if body_out is not None else None)
            outs = []
            for h in s.handlers:
                hs = self.bind_except(h, self.copy(hin))
                outs.append(self.block(h.body, hs))
            if body_out is not None and s.orelse:
                body_out = self.block(s.orelse, body_out)
            res = body_out
            for o in outs:
                res = self.j(res, o)
            if s.finalbody:
                if res is None:
                    # still analyse the finally block for its effects on recorded states
                    self.block(s.finalbody, self.copy(hin))
                    return None
                res = self.block(s.finalbody, res)
            return res
        if isinstance(s, ast.With):
            st = self.bind_with(s, st)
            return self.block(s.body, st)
        if isinstance(s, ast.Return):
            self.returns.append((s, st))
            self.on_return(s, st)
            return None
        if isinstance(s, ast.Raise):
            st = self.transfer(s, st)
            return None
        if isinstance(s, ast.Break):
            if self.loop_stack:
                self.loop_stack[-1]['break'].append(st)
            return None
        if isinstance(s, ast.Continue):
            if self.loop_stack:
                self.loop_stack[-1]['continue'].append(st)
            return None
        if isinstance(s, (ast.FunctionDef, ast.AsyncFunctionDef, ast.ClassDef)):
            return self.nested_def(s, st)
        if isinstance(s, (ast.Match, ast.AsyncFor, ast.AsyncWith)):
            raise AnalysisError('statement kind %s not modelled (line %d)'
                                % (type(s).__name__, s.lineno))
        st = self.transfer(s, st)
        if isinstance(s, ast.Expr) and always_exits([s]):
            return None         # fatal(), json_fatal(), sys.exit(): no return
        return st

    def loop(self, s, st):
        head = self.copy(st)
        breaks_all = []
        it = 0
        while True:
            it += 1
            frame = {'break': [], 'continue': []}
            self.loop_stack.append(frame)
            if isinstance(s, ast.While):
                entry = self.cond(s.test, self.copy(head), True)
            else:
                entry = self.bind_for(s, self.copy(head))
            out = self.block(s.body, entry)
            self.loop_stack.pop()
            back = out
            for c in frame['continue']:
                back = self.j(back, c)
            new_head = self.j(self.copy(st), back) if back is not None else self.copy(st)
            breaks_all = frame['break']
            if self.equal(new_head, head):
                break
            if it >= self.MAX_ITER:
                raise AnalysisError('data-flow did not converge in loop at line %d' % s.lineno)
            head = self.widen(head, new_head)
        # loop exit: condition false (or iterator exhausted) from the head state
        if isinstance(s, ast.While):
            if isinstance(s.test, ast.Constant) and s.test.value is True:
                exit_st = None
            else:
                exit_st = self.cond(s.test, self.copy(head), False)
        else:
            exit_st = self.copy(head)
        if exit_st is not None and s.orelse:
            exit_st = self.block(s.orelse, exit_st)
        for b in breaks_all:
            exit_st = self.j(exit_st, b)
        return exit_st


def always_exits(stmts):
    """True if control cannot fall out of the end of this statement list"""
    for s in stmts:
        if isinstance(s, (ast.Return, ast.Raise, ast.Break, ast.Continue)):
            return True
        if isinstance(s, ast.If) and s.orelse and always_exits(s.body) and always_exits(s.orelse):
            return True
        if isinstance(s, ast.Expr) and isinstance(s.value, ast.Call):
            f = s.value.func
            name = f.attr if isinstance(f, ast.Attribute) else getattr(f, 'id', '')
            if name in ('fatal', 'json_fatal', 'exit'):
                return True
    return False
