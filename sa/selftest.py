def run(prop, seed):
    return []
