"""Testing the checker both ways (DESIGN.md 6.4).

Every variant is a one-site edit of a scratch copy of the repository's package (made
under a fresh temporary directory outside /repo and /verif and removed afterwards):
  * firing variants break one rule instance while the code still compiles; the named
    rule must report a finding;
  * neutral variants are behaviour-preserving edits; every rule of the property must
    stay silent.
A variant whose anchor text is not present in the current tree is skipped (the tree under
analysis may itself have been edited); skipped variants are counted in the output."""
import importlib
import multiprocessing
import os
import shutil
import sys
import tempfile

from .model import Model, AnalysisError, REPO


def _load_variants():
    from .variants import VARIANTS
    from .props import PROPS
    out = list(VARIANTS)
    # behaviour-preserving refactorings written by independent sub-agents (whole patches):
    # every check must stay silent on them
    nd = os.path.join(os.path.dirname(os.path.dirname(os.path.abspath(__file__))), 'selftest', 'neutral')
    if os.path.isdir(nd):
        for d in sorted(os.listdir(nd)):
            p = os.path.join(nd, d, 'patch.diff')
            if os.path.exists(p):
                out.append(dict(id='neutral-' + d, props=sorted(PROPS), patch=p, expect=[]))
    # behaviour-breaking changes written by independent sub-agents (seeded/<id>/patch.diff):
    # those that the check of their property reported when seeded/EXPECT.json was generated
    # must still be reported by (at least one of) the same rules
    base = os.path.dirname(os.path.dirname(os.path.abspath(__file__)))
    ex = os.path.join(base, 'seeded', 'EXPECT.json')
    if os.path.exists(ex):
        import json
        for sid, rules in sorted(json.load(open(ex)).items()):
            p = os.path.join(base, 'seeded', sid, 'patch.diff')
            own = sid.split('-')[0]
            if os.path.exists(p) and rules and own in PROPS:
                out.append(dict(id='seed-' + sid, props=[own], patch=p, expect=sorted(rules), any=True))
    return out


def apply_variant(root, v):
    """returns False if the anchor is missing"""
    if 'patch' in v:
        import subprocess
        p = subprocess.run('patch -p1 -s --dry-run < %s && patch -p1 -s < %s' % (v['patch'], v['patch']),
                           shell=True, cwd=root, capture_output=True)
        return p.returncode == 0
    edits = v['edits'] if 'edits' in v else [(v['file'], v['old'], v['new'])]
    for file, old, new in edits:
        p = os.path.join(root, file)
        if not os.path.exists(p):
            return False
        with open(p, encoding='utf-8', newline=None) as f:
            s = f.read()
        if s.count(old) != 1:
            return False
        s = s.replace(old, new)
        with open(p, 'w', encoding='utf-8') as f:
            f.write(s)
    return True


def _respells_known(f):
    from . import report
    k = f.key().split('|')
    for e in report.load_known():
        if e.get('status') == 'known' and e.get('key', '').split('|')[:3] == k[:3]:
            return True
    return False


class _VariantTimeout(Exception):
    pass


def _alarm(signum, frame):
    raise _VariantTimeout()


def run_variant(args):
    v, props = args
    import signal
    signal.signal(signal.SIGALRM, _alarm)
    signal.alarm(300)
    try:
        return _run_variant(v, props)
    except _VariantTimeout:
        return (v['id'], 'error', ['the analysis of this variant did not terminate within 300 s'])
    finally:
        signal.alarm(0)


def _run_variant(v, props):
    from . import rdefs
    from .main import run_property
    tmp = tempfile.mkdtemp(prefix='verif-selftest-')
    try:
        shutil.copytree(os.path.join(REPO, 'yalafi'), os.path.join(tmp, 'yalafi'),
                        ignore=shutil.ignore_patterns('__pycache__'))
        if os.path.exists(os.path.join(REPO, 'list-of-macros.md')):
            shutil.copy(os.path.join(REPO, 'list-of-macros.md'), tmp)
        if not apply_variant(tmp, v):
            return (v['id'], 'skipped', [])
        if 'patch' not in v:
            try:
                compile(open(os.path.join(tmp, (v.get('file') or v['edits'][0][0])),
                             encoding='utf-8').read(), 'x', 'exec')
            except SyntaxError as e:
                return (v['id'], 'error', ['variant does not compile: %s' % e])
        rdefs.reset_cache()
        from . import normalize as _nz
        _nz.reset()
        fired = set()
        errs = []
        try:
            model = Model(repo=tmp)
            for p in props:
                viol, results = run_property(p, 'quick', 0, model=model, quiet=True, write=False)
                for f in viol:
                    if not v['expect'] and _respells_known(f):
                        continue    # a recorded defect, re-spelled by a neutral refactoring
                    fired.add(f.rule)
        except AnalysisError as e:
            errs.append('analysis error: %s' % e)
        return (v['id'], 'ran', sorted(fired), errs)
    finally:
        shutil.rmtree(tmp, ignore_errors=True)


LAST = {}


def run(prop, seed, verbose=False, only=None):
    """self-test for one property (or all if prop is None); returns list of failure texts"""
    from .props import PROPS
    variants = _load_variants()
    jobs = []
    for v in variants:
        vprops = v['props']
        if prop is not None and prop not in vprops:
            continue
        if only and v['id'] not in only:
            continue
        ps = [p for p in vprops if p in PROPS and (prop is None or p == prop)]
        if not ps:
            continue
        jobs.append((v, ps))
    LAST.clear()
    if not jobs:
        return []
    import random
    random.Random(seed).shuffle(jobs)
    with multiprocessing.Pool(min(16, len(jobs))) as pool:
        res = pool.map(run_variant, jobs)
    byid = {v['id']: v for v, _ in jobs}
    fails = []
    skipped = 0
    for rr in res:
        vid, status = rr[0], rr[1]
        v = byid[vid]
        if status == 'skipped':
            skipped += 1
            if verbose:
                print('  skipped  %s' % vid)
            continue
        if status == 'error':
            fails.append('%s: %s' % (vid, rr[2]))
            continue
        fired, errs = set(rr[2]), rr[3]
        exp = set(v['expect'])
        if errs:
            fails.append('%s: %s' % (vid, errs))
        elif exp and v.get('any') and (exp & fired):
            if verbose:
                print('  ok       %s -> %s' % (vid, sorted(fired)))
        elif exp and not (exp <= fired):
            fails.append('%s: expected %s to fire, got %s' % (vid, sorted(exp), sorted(fired)))
        elif not exp and fired:
            fails.append('%s: neutral variant raised %s' % (vid, sorted(fired)))
        elif verbose:
            print('  ok       %s -> %s' % (vid, sorted(fired) or 'silent'))
    LAST.update({'variants': len(jobs), 'skipped': skipped, 'failures': len(fails),
                 'firing': sum(1 for v, _ in jobs if v['expect']),
                 'neutral': sum(1 for v, _ in jobs if not v['expect']),
                 'ids': sorted(v['id'] for v, _ in jobs)})
    print('self-test%s: %d variant(s), %d skipped (anchor absent), %d failure(s)'
          % (' ' + prop if prop else '', len(jobs), skipped, len(fails)))
    for f in fails:
        print('  SELFTEST-FAIL ' + f)
    return fails


if __name__ == '__main__':
    import argparse
    ap = argparse.ArgumentParser()
    ap.add_argument('prop', nargs='?')
    ap.add_argument('--only', nargs='*')
    a = ap.parse_args()
    sys.exit(1 if run(a.prop, 0, verbose=True, only=a.only) else 0)
