"""Static-analysis machinery for the YaLafi properties (see /verif/DESIGN.md)."""
