"""Affine terms over opaque atoms and a small inequality prover (no solver).

Aff: sum(coef * atom) + const with integer coefficients.  Atoms are hashable values; an
atom is known to be non-negative if it is registered as such (lengths, counts, abs).

prove_ge0(goal, facts): goal >= 0 follows if  goal - sum(c_i * f_i)  is trivially
non-negative for some choice of c_i in {0,1,2} over at most MAX_COMBO facts, where every
fact f_i >= 0 is known.  Disjunctions (from min / max) are handled by case split."""
import itertools


class Aff:
    __slots__ = ('t', 'c')

    def __init__(self, terms=None, const=0):
        self.t = {k: v for k, v in (terms or {}).items() if v != 0}
        self.c = const

    @staticmethod
    def atom(a):
        return Aff({a: 1}, 0)

    @staticmethod
    def const(c):
        return Aff({}, c)

    def __add__(self, o):
        o = _aff(o)
        t = dict(self.t)
        for k, v in o.t.items():
            t[k] = t.get(k, 0) + v
        return Aff(t, self.c + o.c)

    __radd__ = __add__

    def __neg__(self):
        return Aff({k: -v for k, v in self.t.items()}, -self.c)

    def __sub__(self, o):
        return self + (-_aff(o))

    def __rsub__(self, o):
        return _aff(o) - self

    def __mul__(self, k):
        if isinstance(k, Aff):
            if k.is_const():
                k = k.c
            elif self.is_const():
                return k * self.c
            else:
                return None
        return Aff({a: v * k for a, v in self.t.items()}, self.c * k)

    def is_const(self):
        return not self.t

    def __eq__(self, o):
        o = _aff(o)
        return self.c == o.c and self.t == o.t

    def __hash__(self):
        return hash((self.c, frozenset(self.t.items())))

    def key(self):
        return (self.c, tuple(sorted(((repr(k), v) for k, v in self.t.items()))))

    def __repr__(self):
        parts = []
        for k, v in sorted(self.t.items(), key=lambda kv: repr(kv[0])):
            name = atom_name(k)
            if v == 1:
                parts.append('+' + name)
            elif v == -1:
                parts.append('-' + name)
            else:
                parts.append('%+d*%s' % (v, name))
        if self.c or not parts:
            parts.append('%+d' % self.c)
        s = ''.join(parts)
        return s[1:] if s.startswith('+') else s


def atom_name(a):
    """readable name of an atom for reports"""
    def short(x):
        if isinstance(x, str):
            return x
        if isinstance(x, int):
            return '#%d' % x
        if isinstance(x, tuple) and len(x) == 2 and isinstance(x[0], str) and isinstance(x[1], int):
            return '%s#%d' % x
        import zlib
        return '@%03d' % (zlib.crc32(repr(x).encode()) % 1000)
    if isinstance(a, tuple) and a and isinstance(a[0], str):
        if a[0] == 'len' and len(a) == 2:
            return 'len(%s)' % short(a[1])
        if len(a) == 2:
            return '%s(%s)' % (a[0], short(a[1]))
        return '%s(%s)' % (a[0], ','.join(short(x) for x in a[1:]))
    return short(a)


def _aff(x):
    if isinstance(x, Aff):
        return x
    return Aff({}, x)


NONNEG_KINDS = ('len', 'count', 'abs', 'nn', 'slice')


def atom_nonneg(a):
    return isinstance(a, tuple) and a and a[0] in NONNEG_KINDS


def trivially_ge0(e):
    if e.c < 0:
        return False
    for a, v in e.t.items():
        if v < 0 or not atom_nonneg(a):
            return False
    return True


MAX_COMBO = 4


class Facts:
    """conjunction of facts f >= 0 plus disjunctions of such conjunctions"""
    def __init__(self, facts=(), disj=()):
        self.facts = tuple(facts)
        self.disj = tuple(disj)     # each: tuple of alternatives; alternative = tuple of Aff

    def add(self, *fs):
        new = [f for f in fs if f is not None and f not in self.facts and not trivially_ge0(f)]
        return Facts(self.facts + tuple(new), self.disj)

    def add_eq(self, a, b):
        return self.add(a - b, b - a)

    def add_disj(self, alts):
        return Facts(self.facts, self.disj + (tuple(tuple(a) for a in alts),))

    def meet(self, o):
        """facts valid on both paths"""
        fs = tuple(f for f in self.facts if f in o.facts)
        ds = tuple(d for d in self.disj if d in o.disj)
        return Facts(fs, ds)

    def cases(self):
        if not self.disj:
            yield self.facts
            return
        for combo in itertools.product(*self.disj):
            fs = list(self.facts)
            for alt in combo:
                fs.extend(alt)
            yield tuple(fs)

    def prove_ge0(self, goal):
        goal = _aff(goal)
        for fs in self.cases():
            if not _prove(goal, fs):
                return False
        return True

    def prove_eq(self, a, b):
        d = _aff(a) - _aff(b)
        if d.is_const():
            return d.c == 0
        return self.prove_ge0(d) and self.prove_ge0(-d)

    def infeasible(self):
        return self.prove_ge0(Aff.const(-1))

    def __eq__(self, o):
        return isinstance(o, Facts) and set(self.facts) == set(o.facts) and set(self.disj) == set(o.disj)

    def __repr__(self):
        return ' & '.join('%r>=0' % f for f in self.facts) + \
            ''.join(' & (' + ' | '.join(' & '.join('%r>=0' % f for f in alt) for alt in d) + ')'
                    for d in self.disj)


def _problem_atoms(e):
    """atoms that keep e from being trivially non-negative"""
    out = []
    for a, v in e.t.items():
        if v < 0 or not atom_nonneg(a):
            out.append((a, v))
    return out


MAX_DEPTH = 6


def _prove(goal, facts):
    if trivially_ge0(goal):
        return True
    facts = [f for f in facts if f.t or f.c < 0]
    seen = set()

    def dfs(r, depth, used):
        if trivially_ge0(r):
            return True
        if depth == 0:
            return False
        k = (r.key(), depth)
        if k in seen:
            return False
        seen.add(k)
        probs = _problem_atoms(r)
        if not probs:
            # only the constant is negative: look for contradicting facts (f <= -1 overall)
            probs = []
        # pick the first problematic atom and try every fact that reduces it
        cands = []
        if probs:
            a, v = probs[0]
            for i, f in enumerate(facts):
                if used.count(i) >= 2:
                    continue
                fv = f.t.get(a, 0)
                if fv != 0 and (fv > 0) == (v > 0):
                    cands.append(i)
        else:
            for i, f in enumerate(facts):
                if used.count(i) < 1 and f.c < 0:
                    cands.append(i)
        for i in cands:
            if dfs(r - facts[i], depth - 1, used + [i]):
                return True
        return False

    if dfs(goal, MAX_DEPTH, []):
        return True
    # contradiction among the facts makes everything provable
    seen.clear()
    return dfs(Aff.const(-1), MAX_DEPTH, [])
