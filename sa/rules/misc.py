"""PD0, TX1, OKS, DF1, UK1-UK4, DT1, EX2, ML6, LC1: smaller structural rules."""
import ast

from ..model import AnalysisError, unparse, iter_scope
from ..report import RuleResult
from ..rdefs import reachdefs
from ..callgraph import callgraph
from .. import guards
from .. import tok as T
from .. import tables
from .em import dominating_stmts


# ----------------------------------------------------------------------------- PD0
def pd0(model):
    r = RuleResult('PD0', 'token constructors are faithful: TextToken.__init__ stores pos, txt '
                   'and pos_fix from its parameters, pos_fix defaults to False, and every '
                   'subclass forwards its own pos / text / pos_fix to the base constructor',
                   floor=20)
    base = model.cls('defs.TextToken')
    init = base.methods.get('__init__')
    if init is None or len(init.params) < 4:
        raise AnalysisError('anchor vanished: TextToken.__init__(self, pos, txt, pos_fix)')
    roles = dict(zip(('pos', 'txt', 'pos_fix'), init.params[1:4]))
    stored = {}
    for s in init.node.body:
        if isinstance(s, ast.Assign) and len(s.targets) == 1 and isinstance(s.targets[0], ast.Attribute) \
                and unparse(s.targets[0].value) == 'self':
            stored[s.targets[0].attr] = s
    for field, par in roles.items():
        s = stored.get(field)
        if s is not None and isinstance(s.value, ast.Name) and s.value.id == par:
            r.ok(s, 'self.%s = %s' % (field, par))
        else:
            r.fail(init.node, 'TextToken.__init__ does not store its parameter %s in self.%s'
                   % (par, field), stmt='self.%s' % field)
    for q, c in sorted(model.token_classes().items()):
        ini = c.methods.get('__init__')
        if ini is None:
            continue
        a = ini.node.args
        names = [x.arg for x in a.args]
        defaults = dict(zip(names[len(names) - len(a.defaults):], a.defaults))
        if 'pos_fix' in names:
            d = defaults.get('pos_fix')
            if d is not None and T.is_const(d, False):
                r.ok(ini.node, '%s: pos_fix defaults to False' % c.name)
            else:
                r.fail(ini.node, '%s: the default of pos_fix is not False: tokens made by the '
                       'scanner would be pinned' % c.name, stmt='%s.__init__ default pos_fix' % c.name,
                       witness='plain prose with a run of two blanks: the map is no longer the identity')
        if c is base:
            continue
        sup = [n for n in ast.walk(ini.node) if isinstance(n, ast.Call)
               and isinstance(n.func, ast.Attribute) and n.func.attr == '__init__'
               and isinstance(n.func.value, ast.Call) and getattr(n.func.value.func, 'id', '') == 'super']
        if len(sup) != 1:
            r.fail(ini.node, '%s.__init__ does not call the base constructor exactly once' % c.name,
                   stmt='%s.__init__ super call' % c.name)
            continue
        call = sup[0]
        # which base signature?  (all token classes derive directly from TextToken)
        args = list(call.args)
        kw = {k.arg: k.value for k in call.keywords}
        p0 = args[0] if args else kw.get(roles['pos'])
        ok = True
        if c.qname == 'mathparser.MathPartToken':
            r.ok(call, 'MathPartToken: position and text of its first part', sample=False)
            continue
        if not (isinstance(p0, ast.Name) and p0.id == names[1]):
            r.fail(call, '%s does not forward its position parameter to the base constructor' % c.name)
            ok = False
        t0 = args[1] if len(args) > 1 else kw.get(roles['txt'])
        if len(names) > 2 and names[2] not in ('pos_fix', 'lang', 'environ', 'arg') \
                and not T.is_const(t0):
            if not (isinstance(t0, ast.Name) and t0.id == names[2]):
                r.fail(call, '%s does not forward its text parameter to the base constructor' % c.name)
                ok = False
        if 'pos_fix' in names:
            f0 = args[2] if len(args) > 2 else kw.get(roles['pos_fix'])
            if not (isinstance(f0, ast.Name) and f0.id == 'pos_fix'):
                r.fail(call, '%s accepts pos_fix but does not pass it on: every pos_fix=True at '
                       'its call sites is silently dropped' % c.name,
                       witness='a generated multi-character token of this class at the end of the file')
                ok = False
        if ok:
            r.ok(call, '%s forwards pos%s%s' % (c.name, ', text' if len(names) > 2 else '',
                                                ', pos_fix' if 'pos_fix' in names else ''),
                 nontrivial='pos_fix' in names)
    return r


# ----------------------------------------------------------------------------- TX1
def tx1(model):
    r = RuleResult('TX1', 'the string handed to the scanner is the caller\'s string: tex2txt -> '
                   'Parser.parse -> parser_work -> Scanner.scan pass their text parameter on '
                   'without re-binding it (positions refer to the original source)', floor=4)
    chain = [('tex2txt.tex2txt', 0, 'parser.Parser.parse', 0),
             ('parser.Parser.parse', 0, 'parser.Parser.parser_work', 0),
             ('parser.Parser.parser_work', 0, 'scanner.Scanner.scan', 0)]
    for src, pidx, dst, aidx in chain:
        f = model.func(src)
        g = model.func(dst)
        off = 1 if f.cls is not None else 0
        par = f.params[pidx + off]
        rd = reachdefs(f)
        calls = [n for n in iter_scope(f.node) if isinstance(n, ast.Call)
                 and (model.resolve_call(n) or (0, 0))[1] is g]
        hit = False
        for c in calls:
            if aidx >= len(c.args):
                continue
            a = c.args[aidx]
            if isinstance(a, ast.Name) and a.id == par:
                hit = True
                ds = rd.defs_of(a)
                if all(k == 'param' for k, _, _ in ds):
                    r.ok(c, '%s passes its parameter %s unchanged to %s' % (f.name, par, g.name),
                         nontrivial=True)
                else:
                    r.fail(c, '%s re-binds %s before handing it to %s: all positions then refer '
                           'to the modified copy, not to the source' % (f.name, par, g.name),
                           witness='a source for which the modification changes the length, e.g. '
                                   'decomposed Unicode characters under normalisation')
        if not hit:
            # the defs text is also parsed; require at least one call with the parameter
            r.fail(f.node, '%s no longer passes its text parameter to %s' % (f.name, g.name),
                   stmt='%s -> %s' % (src, dst))
    sc = model.func('scanner.Scanner.scan')
    ok = False
    for s in sc.node.body:
        if isinstance(s, ast.Assign) and unparse(s.targets[0]) == 'self.latex' \
                and isinstance(s.value, ast.Name) and s.value.id == sc.params[1]:
            ok = True
            r.ok(s, 'Scanner.scan scans its parameter')
    if not ok:
        r.fail(sc.node, 'Scanner.scan does not scan its parameter unchanged')
    return r


# ----------------------------------------------------------------------------- OKS
def oks(model):
    r = RuleResult('OKS', 'entries of a character map are signed (a negative entry marks an '
                   'unsure position): every read is wrapped directly in abs() or compared with '
                   '0; arithmetic on raw entries is a kind error', floor=4)
    sites = [('shell.utils.map_match_position', 2), ('shell.genhtml.generate_html', 1)]
    names = []
    for q, idx in sites:
        f = model.func(q)
        names.append((f, f.params[idx]))
    # the collect phase of generate_html may live in a helper that receives the map
    from .th import html_phases
    ph = html_phases(model)
    if ph['collect'] and ph['collect'][0].qname != 'shell.genhtml.generate_html':
        hf = ph['collect'][0]
        g = model.func('shell.genhtml.generate_html')
        for c in ast.walk(g.node):
            if isinstance(c, ast.Call) and (model.resolve_call(c) or (0, 0))[1] is hf:
                for i, a in enumerate(c.args):
                    if isinstance(a, ast.Name) and a.id == g.params[1] and i < len(hf.params):
                        names.append((hf, hf.params[i]))
    from .ok import sort_key_function
    f = sort_key_function(model)
    outer = model.func('shell.proofreader.run_proofreader_options')
    acc = None
    for n in iter_scope(outer.node):
        if isinstance(n, ast.Return) and isinstance(n.value, ast.Tuple) and len(n.value.elts) == 4 \
                and isinstance(n.value.elts[2], ast.Name):
            acc = n.value.elts[2].id
    if acc and f is not None:
        names.append((f, acc))
    for fn, name in names:
        for n in iter_scope(fn.node):
            if isinstance(n, ast.Subscript) and isinstance(n.value, ast.Name) and n.value.id == name \
                    and isinstance(n.ctx, ast.Load) and not isinstance(n.slice, ast.Slice):
                p = n._parent
                if isinstance(p, ast.Call) and getattr(p.func, 'id', '') == 'abs' and p.args[0] is n:
                    r.ok(n, 'abs(%s)' % unparse(n), nontrivial=True)
                elif isinstance(p, ast.Compare) and p.left is n and len(p.comparators) == 1 \
                        and T.is_const(p.comparators[0], 0):
                    r.ok(n, 'sign test %s' % unparse(p))
                elif isinstance(p, ast.List):
                    r.ok(n, 'entry copied into a map', sample=False)
                elif isinstance(p, ast.Assign) and len(p.targets) == 1 and isinstance(p.targets[0], ast.Name) \
                        and _alias_only_abs(fn, p.targets[0].id, p):
                    r.ok(n, 'entry kept in a local that is only used through abs() / a sign test',
                         nontrivial=True)
                else:
                    r.fail(n, 'raw map entry %s is used without abs(): wrong for unsure (negative) '
                           'entries and, in a difference, for non-monotonic maps' % unparse(n),
                           witness='a match spanning a macro that re-orders its arguments')
    return r


def _alias_only_abs(fn, v, assign=None):
    uses = [n for n in iter_scope(fn.node) if isinstance(n, ast.Name) and n.id == v
            and isinstance(n.ctx, ast.Load)]
    if assign is not None:
        # only the uses that this assignment reaches (the name may be re-used for something else further down)
        from ..rdefs import reachdefs
        rd = reachdefs(fn)
        uses = [u for u in uses if any(k == 'assign' and node is assign.value for k, _n, node in rd.defs_of(u))]
    if not uses:
        return False
    for u in uses:
        p = u._parent
        if isinstance(p, ast.Call) and getattr(p.func, 'id', '') == 'abs' and p.args[0] is u:
            continue
        if isinstance(p, ast.Compare) and p.left is u and len(p.comparators) == 1 \
                and T.is_const(p.comparators[0], 0):
            continue
        return False
    return True


# ----------------------------------------------------------------------------- DF1
def _flows_only_into_filter(model, fn, call, r, what):
    """the token list returned by `call` (assigned to a name) is used only as first argument
    of filter_set_toks(.., .., LanguageToken)"""
    p = call._parent
    if not (isinstance(p, ast.Assign) and isinstance(p.targets[0], ast.Name)):
        r.fail(call, '%s: the tokens of the parsed definitions are not kept apart' % what)
        return
    v = p.targets[0].id
    uses = [n for n in iter_scope(fn.node) if isinstance(n, ast.Name) and n.id == v
            and isinstance(n.ctx, ast.Load)]
    rd = reachdefs(fn)
    ok = True
    for u in uses:
        ds = rd.defs_of(u)
        if not any(k == 'assign' and node is call for k, _, node in ds):
            continue
        par = u._parent
        good = False
        if isinstance(par, ast.Call) and par.args and par.args[0] is u:
            rc = model.resolve_call(par)
            if rc and rc[0] == 'func' and rc[1].qname == 'utils.filter_set_toks' and len(par.args) >= 3:
                cls = model.class_of_expr(par._mod, par._fn, par.args[2])
                good = cls is not None and cls.qname == 'defs.LanguageToken'
        if not good:
            ok = False
            r.fail(u, '%s: tokens from the definitions reach %s unfiltered: text of the '
                   'definitions leaks into the output' % (what, type(par).__name__))
    if ok:
        r.ok(call, '%s: the parsed tokens flow only through filter_set_toks(.., LanguageToken)' % what,
             nontrivial=True)


def df1(model):
    r = RuleResult('DF1', 'tokens produced by parsing the --defs text or an \\LTinput file reach '
                   'the output only as LanguageTokens (filter_set_toks), and text flows extracted '
                   'meanwhile (footnotes) are discarded', floor=4)
    pw = model.func('parser.Parser.parser_work')
    # Parser.parse
    f = model.func('parser.Parser.parse')
    calls = [n for n in iter_scope(f.node) if isinstance(n, ast.Call)
             and (model.resolve_call(n) or (0, 0))[1] is pw]
    dpar = f.params[2] if len(f.params) > 2 else None
    dcalls = [c for c in calls if c.args and isinstance(c.args[0], ast.Name) and c.args[0].id == dpar]
    mcalls = [c for c in calls if c not in dcalls]
    if not dcalls or not mcalls:
        raise AnalysisError('anchor vanished: parse() parses definitions and document separately')
    for c in dcalls:
        _flows_only_into_filter(model, f, c, r, 'Parser.parse(define)')
        # a reset of self.extracted after the definitions and before the document
        later = False
        blk_after = []
        s = c
        while not isinstance(s, ast.stmt):
            s = s._parent
        seq = _block(s)
        blk_after = seq[seq.index(s) + 1:]
        reset = any(isinstance(x, ast.Assign) and unparse(x.targets[0]) == 'self.extracted'
                    and isinstance(x.value, ast.List) and not x.value.elts for x in blk_after)
        doms_main = dominating_stmts(mcalls[0])
        reset_before_defs_only = any(isinstance(x, ast.Assign) and unparse(x.targets[0]) == 'self.extracted'
                                     for x in doms_main)
        if reset:
            r.ok(s, 'self.extracted is emptied after the definitions have been parsed', nontrivial=True)
        else:
            r.fail(s, 'text flows extracted from the definitions (e.g. a \\footnote) are kept: '
                   'they are output with positions of the definitions text',
                   witness="tex2txt('x', Options(defs='long text \\\\footnote{abcdef}'))")
    # handlers.h_load_defs
    h = model.func('handlers.h_load_defs')
    hc = [n for n in iter_scope(h.node) if isinstance(n, ast.Call)
          and (model.resolve_call(n) or (0, 0))[1] is pw]
    if not hc:
        raise AnalysisError('anchor vanished: h_load_defs parses the file with parser_work')
    for c in hc:
        _flows_only_into_filter(model, h, c, r, '\\LTinput')
        doms = T.explode_assigns(dominating_stmts(c))
        save = [x for x in doms if isinstance(x, ast.Assign) and isinstance(x.value, ast.Attribute)
                and x.value.attr == 'extracted' and isinstance(x.targets[0], ast.Name)]
        cleared = [x for x in doms if isinstance(x, ast.Assign) and isinstance(x.targets[0], ast.Attribute)
                   and x.targets[0].attr == 'extracted']
        s = c
        while not isinstance(s, ast.stmt) or s._parent is not h.node:
            s = s._parent
        after = h.node.body[h.node.body.index(s) + 1:]
        restored = [x for x in after if isinstance(x, ast.Assign) and isinstance(x.targets[0], ast.Attribute)
                    and x.targets[0].attr == 'extracted' and isinstance(x.value, ast.Name)
                    and save and x.value.id == save[0].targets[0].id]
        truncated = [x for x in after if isinstance(x, ast.Delete)
                     and any('extracted' in unparse(t) for t in x.targets)]
        if (save and cleared and restored) or truncated:
            r.ok(c, 'extracted flows of the file are dropped (saved, emptied, restored)', nontrivial=True)
        else:
            r.fail(c, 'text flows extracted from the \\LTinput file are kept: they are output '
                   'with positions of that file')
    return r


def _block(stmt):
    p = stmt._parent
    for field in ('body', 'orelse', 'finalbody'):
        seq = getattr(p, field, None)
        if isinstance(seq, list) and stmt in seq:
            return seq
    return [stmt]


# ----------------------------------------------------------------------------- UK
def _absent_via_get(fn, e, truth):
    """attribute name C if the fact says: X is None, where the local X was bound once to <..>.C.get(key)
    (the key is absent from the table C)"""
    x = None
    if isinstance(e, ast.Compare) and len(e.ops) == 1 and isinstance(e.left, ast.Name) \
            and isinstance(e.comparators[0], ast.Constant) and e.comparators[0].value is None:
        if (isinstance(e.ops[0], ast.Is) and truth) or (isinstance(e.ops[0], ast.IsNot) and not truth):
            x = e.left.id
    if x is None:
        return None
    vals = []
    for n in iter_scope(fn.node):
        if isinstance(n, ast.Assign) and any(isinstance(m, ast.Name) and m.id == x for t in n.targets for m in ast.walk(t)):
            vals.append(n.value if len(n.targets) == 1 and isinstance(n.targets[0], ast.Name) else None)
        elif isinstance(n, (ast.AugAssign, ast.For, ast.NamedExpr)) and any(
                isinstance(m, ast.Name) and m.id == x for m in ast.walk(n.target)):
            vals.append(n.value if isinstance(n, ast.NamedExpr) else None)
    if len(vals) != 1 or vals[0] is None:
        return None
    v = vals[0]
    if isinstance(v, ast.Call) and isinstance(v.func, ast.Attribute) and v.func.attr == 'get' \
            and isinstance(v.func.value, ast.Attribute) and (len(v.args) == 1 or (
                len(v.args) == 2 and isinstance(v.args[1], ast.Constant) and v.args[1].value is None)):
        return v.func.value.attr
    return None


def uk(model):
    r = RuleResult('UK', 'an unknown name is recorded only in the not-declared branch of '
                   'expand_macro / begin_environment, only outside maths, once (membership test '
                   'on the list itself, or on a companion container updated only together with '
                   'it); the maths parser passes math=True, the text parser math=False; parse() '
                   'resets the list; tex2txt prints one name per line', floor=8)
    P = model.cls('parser.Parser')
    appends = []
    for f in model.all_funcs():
        if isinstance(f.node, ast.Lambda):
            continue
        for n in iter_scope(f.node):
            if isinstance(n, ast.Call) and isinstance(n.func, ast.Attribute) \
                    and n.func.attr in ('append', 'insert', 'extend', 'add') \
                    and isinstance(n.func.value, ast.Attribute) and n.func.value.attr == 'unknowns':
                appends.append(n)
    if not appends:
        raise AnalysisError('anchor vanished: no place records unknown names')
    companions = set()
    for n in appends:
        fn = n._fn
        name_arg = n.args[-1] if n.args else None
        fs = guards.facts(n)
        # (a) not declared
        undeclared = any(t is False and isinstance(e, ast.Compare) and isinstance(e.ops[0], ast.In)
                         and isinstance(e.comparators[0], ast.Attribute)
                         and e.comparators[0].attr in ('the_macros', 'the_environments')
                         for e, t in fs) or \
            any(t is True and isinstance(e, ast.Compare) and isinstance(e.ops[0], ast.NotIn)
                and isinstance(e.comparators[0], ast.Attribute)
                and e.comparators[0].attr in ('the_macros', 'the_environments') for e, t in fs)
        if not undeclared:
            undeclared = any(_absent_via_get(fn, e, t) in ('the_macros', 'the_environments') for e, t in fs)
        # (b) outside maths: a fact `<param> is False`
        mathpar = [p for p in fn.params if p == 'math' or p.startswith('math')]
        not_math = any(t is False and isinstance(e, ast.Name) and e.id in fn.params for e, t in fs)
        # (c) once
        once = False
        for e, t in fs:
            if isinstance(e, ast.Compare) and len(e.ops) == 1 and isinstance(e.comparators[0], ast.Attribute):
                neg = (isinstance(e.ops[0], ast.In) and t is False) or (isinstance(e.ops[0], ast.NotIn) and t is True)
                if not neg:
                    continue
                cont = e.comparators[0].attr
                if cont == 'unknowns':
                    once = True
                elif cont not in ('the_macros', 'the_environments'):
                    once = True
                    companions.add(cont)
        if not undeclared:
            # helper function: declaredness must be established at every call site
            sites = callgraph(model).callers.get(fn.qname, [])
            undeclared = bool(sites) and all(
                any((t is False and isinstance(e, ast.Compare) and isinstance(e.ops[0], ast.In)
                     or t is True and isinstance(e, ast.Compare) and isinstance(e.ops[0], ast.NotIn))
                    and isinstance(e.comparators[0], ast.Attribute)
                    and e.comparators[0].attr in ('the_macros', 'the_environments')
                    for e, t in guards.facts(c)) for c in sites)
        for flag, what, wit in ((undeclared, 'only for names that are not declared',
                                 'a declared macro'),
                                (not_math, 'only outside maths (guard on the math flag)',
                                 'an unknown macro used only inside $...$'),
                                (once, 'only once (membership test)', 'the same unknown macro twice')):
            if flag:
                r.ok(n, 'recorded ' + what, nontrivial=True)
            else:
                r.fail(n, 'an unknown name is recorded without the condition: ' + what, witness=wit)
    # companion containers must only change together with the list
    for cont in sorted(companions):
        for f in model.all_funcs():
            if isinstance(f.node, ast.Lambda):
                continue
            for n in iter_scope(f.node):
                if isinstance(n, ast.Call) and isinstance(n.func, ast.Attribute) \
                        and n.func.attr in ('add', 'append', 'update', 'extend') \
                        and isinstance(n.func.value, ast.Attribute) and n.func.value.attr == cont:
                    blk = _block(_stmt(n))
                    paired = any(a in [x for s in blk for x in ast.walk(s)] for a in appends)
                    # ... and under the same conditions: outside maths
                    fn2 = n._fn
                    guarded = any(t is False and isinstance(e, ast.Name) and e.id in fn2.params
                                  for e, t in guards.facts(n))
                    if paired and guarded:
                        r.ok(n, 'companion container %s changes only together with the list' % cont,
                             nontrivial=True)
                    else:
                        r.fail(n, 'the duplicate filter %s is updated where the name is not '
                               'recorded (e.g. for a use inside maths): a later use in text is '
                               'then omitted from the list' % cont,
                               witness='$x\\in\\R$ ... the set \\R')
    # math flag at the call sites
    for q, want in (('parser.Parser.expand_macro', 2), ('parser.Parser.begin_environment', 2)):
        f = model.func(q)
        for c in callgraph(model).callers.get(q, []):
            if len(c.args) <= want:
                r.undec(c, 'math flag not positional')
                continue
            a = c.args[want]
            in_math = c._fn is not None and c._fn.cls is not None and c._fn.cls.qname == 'mathparser.MathParser'
            if isinstance(a, ast.Constant) and a.value is in_math:
                r.ok(c, '%s passes math=%s' % (c._fn.qname, a.value))
            elif isinstance(a, ast.Name) and c._fn is not None and a.id in c._fn.params:
                r.ok(c, 'passes its own math flag on', sample=False)
            else:
                r.fail(c, '%s is called with math=%s from %s' % (f.name, unparse(a),
                                                                'the maths parser' if in_math else 'text mode'))
    # reset per document
    pf = model.func('parser.Parser.parse')
    if any(isinstance(s, ast.Assign) and unparse(s.targets[0]) == 'self.unknowns'
           and isinstance(s.value, ast.List) and not s.value.elts for s in pf.node.body):
        r.ok(pf.node, 'parse() resets the list', nontrivial=True)
    else:
        r.fail(pf.node, 'parse() does not reset the list of unknowns', stmt='parse resets unknowns')
    # output: one per line
    tt = model.inl().func('tex2txt.tex2txt')
    out_ok = False
    for n in iter_scope(tt.node):
        if isinstance(n, ast.Call) and isinstance(n.func, ast.Attribute) and n.func.attr == 'join' \
                and T.is_const(n.func.value, '\n') and n.args and isinstance(n.args[0], ast.Call) \
                and T.call_name(n.args[0]) == 'get_unknowns':
            out_ok = True
            r.ok(n, "'\\n'.join(unknowns): one name per line")
    if not out_ok:
        r.fail(tt.node, 'the unknowns are not written one per line', stmt='unknowns output')
    return r


def _stmt(n):
    while not isinstance(n, ast.stmt):
        n = n._parent
    return n


# ----------------------------------------------------------------------------- DT1
MARKUP_CLASSES = ['MacroToken', 'BeginToken', 'EndToken', 'ItemToken', 'AccentToken', 'SpecialToken',
                  'VerbatimToken', 'CommentToken', 'MathBeginToken', 'LanguageToken']
MARKUP_TEXTS = ['$', '$$', '\\(', '\\[', '{', '}', '\\\\']


def dt1(model):
    r = RuleResult('DT1', 'dispatch exhaustiveness of expand_sequence: every markup token class '
                   'and the texts $ $$ \\( \\[ { } \\\\ have a branch before the default emit; the '
                   'comment branch emits nothing; get_text_direct drops comments', floor=15)
    f = model.func('parser.Parser.expand_sequence')
    loop = [s for s in f.node.body if isinstance(s, ast.While)]
    if not loop:
        raise AnalysisError('anchor vanished: main loop of expand_sequence')
    chain = [s for s in loop[0].body if isinstance(s, ast.If)]
    if not chain:
        raise AnalysisError('anchor vanished: dispatch chain of expand_sequence')
    top = chain[0]
    branches = []
    cur = top
    default = None
    while True:
        branches.append((cur.test, cur.body))
        if len(cur.orelse) == 1 and isinstance(cur.orelse[0], ast.If):
            cur = cur.orelse[0]
        else:
            default = cur.orelse
            break
    classes, texts = {}, {}
    for test, body in branches:
        for n in ast.walk(test):
            if isinstance(n, ast.Compare) and len(n.ops) == 1:
                if isinstance(n.ops[0], ast.Is) and isinstance(n.left, ast.Call) \
                        and getattr(n.left.func, 'id', '') == 'type':
                    c = model.class_of_expr(f.mod, f, n.comparators[0])
                    if c:
                        classes.setdefault(c.name, body)
                elif isinstance(n.ops[0], ast.Eq) and isinstance(n.comparators[0], ast.Constant) \
                        and isinstance(n.left, ast.Attribute) and n.left.attr == 'txt':
                    texts.setdefault(n.comparators[0].value, body)
    for c in MARKUP_CLASSES:
        if c in classes:
            r.ok(top, 'class %s has a branch' % c, sample=False)
        else:
            r.fail(top, 'tokens of class %s fall through to the default branch and are copied '
                   'to the output' % c, stmt='dispatch of ' + c)
    for t in MARKUP_TEXTS:
        if t in texts:
            r.ok(top, 'text %r has a branch' % t, sample=False)
        else:
            r.fail(top, 'the markup text %r falls through to the default branch' % t,
                   stmt='dispatch of %r' % t)
    # (b) order: the text of a VerbatimToken is arbitrary user text; a branch that tests the
    # token text against markup and stands in front of the VerbatimToken branch (without
    # excluding that class itself) takes \verb|$| for a maths delimiter and \verb|{| for a brace
    verb_idx = None
    for i, (test, body) in enumerate(branches):
        # only a branch that takes EVERY VerbatimToken shields the text tests behind it
        if isinstance(test, ast.Compare) and isinstance(test.ops[0], ast.Is) and isinstance(test.left, ast.Call) \
                and getattr(test.left.func, 'id', '') == 'type' and unparse(test.comparators[0]).endswith('VerbatimToken') \
                and verb_idx is None:
            verb_idx = i
    if verb_idx is None:
        verb_idx = len(branches)
    if True:
        for i, (test, body) in enumerate(branches[:verb_idx]):
            lits = [n.comparators[0].value for n in ast.walk(test) if isinstance(n, ast.Compare) and len(n.ops) == 1
                    and isinstance(n.ops[0], ast.Eq) and isinstance(n.comparators[0], ast.Constant)
                    and isinstance(n.left, ast.Attribute) and n.left.attr == 'txt'
                    and n.comparators[0].value in MARKUP_TEXTS]
            classy = any(isinstance(n, ast.Compare) and isinstance(n.left, ast.Call) and getattr(n.left.func, 'id', '') == 'type'
                         for n in ast.walk(test))
            if lits and not classy:
                r.fail(test, 'the branch for the text %s stands in front of the VerbatimToken branch: '
                       'verbatim text that happens to be %s is taken for markup'
                       % (' / '.join(repr(x) for x in lits), ' or '.join(repr(x) for x in lits)),
                       witness='A \\verb|$| B  (false "missing end of maths", rest of the paragraph lost)')
            elif lits:
                r.ok(test, 'text test combined with a class test', nontrivial=True)
        if not any(f_.rule == 'DT1' and 'VerbatimToken branch' in f_.msg for f_ in r.findings):
            r.ok(top, 'no markup text test precedes the VerbatimToken branch', nontrivial=True)
    # comment branch emits nothing
    cb = classes.get('CommentToken')
    if cb is not None:
        emits = [n for s in cb for n in ast.walk(s) if isinstance(n, (ast.Call, ast.AugAssign))]
        if emits:
            r.fail(cb[0], 'the comment branch emits something: comment text can leak')
        else:
            r.ok(cb[0], 'the comment branch emits nothing', nontrivial=True)
    # default branch copies the token
    if default and any(isinstance(n, ast.Call) and isinstance(n.func, ast.Attribute)
                       and n.func.attr == 'append' for s in default for n in ast.walk(s)):
        r.ok(default[0], 'default branch copies the token')
    else:
        r.fail(top, 'ordinary text tokens are no longer copied by a default branch',
               stmt='default emit')
    gd = model.func('parser.Parser.get_text_direct')
    if any(isinstance(n, ast.Compare) and 'CommentToken' in unparse(n) and isinstance(n.ops[0], ast.IsNot)
           for n in ast.walk(gd.node)):
        r.ok(gd.node, 'get_text_direct skips CommentToken', nontrivial=True)
    else:
        r.fail(gd.node, 'get_text_direct no longer drops comments', stmt='get_text_direct filter')
    return r


# ----------------------------------------------------------------------------- EX2
EXPANDERS = {'get_text_expanded', 'expand_sequence', 'parse_keyvals_dict', 'parse_keyvals_list',
             'expand_keyvals'}


def _ancestors(n, stop):
    p = getattr(n, '_parent', None)
    while p is not None and p is not stop:
        yield p
        p = getattr(p, '_parent', None)


def ex2(model):
    r = RuleResult('EX2', 'an argument token list that a handler hands back for expansion '
                   '(returns it) is not also expanded by the handler itself: a second expansion '
                   'extracts footnotes twice and rotates maths placeholders twice', floor=20)
    cg = callgraph(model)
    scope = [f for f in model.all_funcs() if not isinstance(f.node, ast.Lambda)
             and (f.mod.short == 'handlers' or f.mod.short.startswith('packages')
                  or f.mod.short.startswith('documentclasses'))]
    for f in scope:
        # token-list variables: args[k] and local aliases / parameters
        def root(e, depth=3):
            """canonical text of the token list an expression denotes"""
            if isinstance(e, ast.Subscript) and isinstance(e.value, ast.Name) \
                    and isinstance(e.slice, ast.Constant) and e.value.id in f.params:
                return unparse(e)
            if isinstance(e, ast.Name) and depth > 0:
                vals = T.resolve_local(model, e)
                # reassigned through a call with the same list (toks = cap_first(toks))
                for v in vals:
                    if isinstance(v, ast.Call) and v.args and T.call_name(v) not in EXPANDERS \
                            and T.call_name(v) not in ('get_text_direct',):
                        rr = root(v.args[0], depth - 1)
                        if rr:
                            return rr
                if len(vals) == 1 and vals[0] is not e:
                    return root(vals[0], depth - 1)
                if e.id in f.params:
                    return e.id
            return None
        expanded, returned = {}, {}
        for n in iter_scope(f.node):
            if isinstance(n, ast.Call) and T.call_name(n) in EXPANDERS and n.args:
                k = root(n.args[0])
                if k:
                    expanded.setdefault(k, n)
        # returned: names / subscripts occurring in a return expression, or added to a list
        # variable that is returned
        ret_names = set()
        for n in iter_scope(f.node):
            if isinstance(n, ast.Return) and n.value is not None:
                for x in ast.walk(n.value):
                    if isinstance(x, (ast.Name, ast.Subscript)):
                        if isinstance(x, ast.Name):
                            ret_names.add(x.id)
                        k = root(x)
                        if k and not _inside_call(x, n.value):
                            returned.setdefault(k, n)
        for n in iter_scope(f.node):
            src = None
            if isinstance(n, ast.AugAssign) and isinstance(n.target, ast.Name) and n.target.id in ret_names:
                src = n.value
            elif isinstance(n, ast.Assign) and len(n.targets) == 1 and isinstance(n.targets[0], ast.Name) \
                    and n.targets[0].id in ret_names:
                src = n.value
            if src is not None:
                for x in ast.walk(src):
                    if isinstance(x, (ast.Name, ast.Subscript)) and not _inside_call(x, src):
                        k = root(x)
                        if k:
                            returned.setdefault(k, n)
        # (b) tokens that are already expanded (result of expand_sequence) are handed back
        for n in iter_scope(f.node):
            if isinstance(n, ast.Call) and T.call_name(n) == 'expand_sequence':
                p = n._parent
                tgt = None
                if isinstance(p, ast.Assign) and isinstance(p.targets[0], ast.Name):
                    tgt = p.targets[0].id
                if isinstance(p, ast.Return) or (tgt and tgt in ret_names) \
                        or any(isinstance(q, ast.Return) for q in _ancestors(n, f.node)):
                    r.fail(n, 'the handler expands tokens itself and hands the expanded tokens back: '
                           'they are expanded a second time, where the text of \\$, \\{, \\} is taken '
                           'for markup', witness='a heading with \\$ or \\{ in its title')
        if not expanded and not returned:
            continue
        both = sorted(set(expanded) & set(returned))
        for k in both:
            r.fail(expanded[k], 'token list %s is expanded here and also handed back for expansion '
                   '(%s): footnotes in it are extracted twice, formulas in it consume two '
                   'placeholders' % (k, unparse(returned[k])[:50]),
                   witness='a \\footnote or an inline formula inside this argument')
        for k in sorted(set(expanded) | set(returned)):
            if k not in both:
                r.ok(expanded.get(k) or returned.get(k),
                     'token list %s is %s only' % (k, 'expanded' if k in expanded else 'handed back'),
                     nontrivial=True, sample=k in expanded)
    return r


def _inside_call(x, stop):
    """is x an argument of a call (other than list concatenation) below stop?"""
    p = x._parent
    while p is not None:
        if isinstance(p, ast.Call):
            return True
        if p is stop:
            break
        p = p._parent
    return False


# ----------------------------------------------------------------------------- LC1
def lc1(model):
    r = RuleResult('LC1', 'language-dependent collections are looked up through '
                   'parms.lang_context at the time of use and are distinct objects per language: '
                   'no copy of a lang_context value is stored in an attribute, and no language '
                   'setting re-uses the list object of another one', floor=8)
    for f in model.all_funcs():
        if isinstance(f.node, ast.Lambda) or f.mod.short == 'parameters':
            continue
        for n in iter_scope(f.node):
            if isinstance(n, ast.Assign) and any(isinstance(t, ast.Attribute) for t in n.targets):
                if any(isinstance(x, ast.Attribute) and x.attr == 'lang_context' for x in ast.walk(n.value)):
                    r.fail(n, 'a value looked up through lang_context is stored in an attribute: '
                           'it goes stale when the language changes (multi-language mode)',
                           witness='an equation after \\selectlanguage in multi-language mode')
            if isinstance(n, ast.Attribute) and n.attr == 'lang_context' and isinstance(n.ctx, ast.Load):
                r.ok(n, 'lang_context read at the time of use', sample=False)
    for call, kw in tables.language_settings(model):
        for k, v in kw.items():
            if k in ('math_repl_inline', 'math_repl_display', 'lang_change_repl', 'math_op_text',
                     'short_macros') or k.endswith('_vowel'):
                if isinstance(v, (ast.List, ast.Dict)) or T.is_const(v):
                    r.ok(call, '%s is a fresh display' % k, sample=False)
                else:
                    r.fail(call, 'setting %s=%s re-uses an existing object: collections rotated in '
                           'place would share their state between languages' % (k, unparse(v)[:50]),
                           stmt='%s=%s' % (k, unparse(v)[:60]),
                           witness='formulas in two languages of one multi-language document')
    return r


# ----------------------------------------------------------------------------- ML6
def ml6(model):
    r = RuleResult('ML6', 'wherever class options and package options are combined, the global '
                   '(class) options come first, so that the package\'s own option is the last and '
                   'wins in the reversed scan of get_language_token', floor=3)
    for m in model.mods.values():
        for n in ast.walk(m.tree):
            if isinstance(n, ast.BinOp) and isinstance(n.op, ast.Add):
                l, rr = n.left, n.right
                lg = isinstance(l, ast.Attribute) and l.attr == 'global_latex_options'
                rg = isinstance(rr, ast.Attribute) and rr.attr == 'global_latex_options'
                if lg and not rg:
                    r.ok(n, 'global options first')
                elif rg and not lg:
                    r.fail(n, 'package options are put before the class options: a class-level '
                           'language option overrides the option given to the package itself',
                           witness='\\documentclass[english]{article} \\usepackage[german]{babel}')
    gl = model.func('packages.babel.get_language_token')
    rev = any(isinstance(n, ast.For) and isinstance(n.iter, ast.Call)
              and getattr(n.iter.func, 'id', '') == 'reversed' for n in ast.walk(gl.node))
    # the same as a search expression: next(<opt for opt in reversed(options) if ..>, default)
    rev = rev or any(isinstance(n, ast.Call) and getattr(n.func, 'id', '') == 'next' and n.args
                     and isinstance(n.args[0], ast.GeneratorExp)
                     and isinstance(n.args[0].generators[0].iter, ast.Call)
                     and getattr(n.args[0].generators[0].iter.func, 'id', '') == 'reversed'
                     for n in ast.walk(gl.node))
    if rev:
        r.ok(gl.node, 'get_language_token scans the options from the end', nontrivial=True)
    else:
        r.fail(gl.node, 'get_language_token no longer lets the last option win',
               stmt='reversed scan of options')
    return r
