"""Rules added after the fifth round of seeded defects (DESIGN.md 3.10): EX1(c), UM2, PAIR1, SBL2,
AB3(r), TJ6, TJ7, TX2, TH9, SH3(b), EM7."""
import ast

from ..model import AnalysisError, unparse, iter_scope
from ..report import RuleResult
from ..flow import Flow, always_exits
from .. import guards
from .. import tok as T
from .r4 import _anc, _stmt_of, _json_int_source


# ----------------------------------------------------------------------------- EX1(c)
def ex1c(model):
    r = RuleResult('EX1c', 'every extracted flow that is not empty is output: the loop of Parser.parse '
                   'that appends the flows skips a flow only if it is empty', floor=1)
    p = model.func('parser.Parser.parse')
    loop = [s for s in p.node.body if isinstance(s, ast.For) and 'extracted' in unparse(s.iter)]
    if not loop or not isinstance(loop[0].target, ast.Name):
        raise AnalysisError('anchor vanished: loop over the extracted flows in Parser.parse')
    lp = loop[0]
    v = lp.target.id
    tests = [n.test for n in ast.walk(lp) if isinstance(n, ast.If)] + \
            [n.test for n in ast.walk(lp) if isinstance(n, ast.IfExp)]
    bad = []
    for t in tests:
        fs = []
        guards.split_fact(t, True, fs)
        for e, tr in fs:
            if isinstance(e, ast.Name) and e.id == v:
                continue
            if isinstance(e, ast.Call) and getattr(e.func, 'id', '') == 'len' and e.args and unparse(e.args[0]) == v:
                continue
            if isinstance(e, ast.Compare) and isinstance(e.left, ast.Call) and getattr(e.left.func, 'id', '') == 'len' \
                    and e.left.args and unparse(e.left.args[0]) == v:
                continue
            bad.append(e)
    if isinstance(lp.iter, ast.Call) and getattr(lp.iter.func, 'id', '') not in ('list', 'iter', 'tuple'):
        bad.append(lp.iter)
    if bad:
        r.fail(lp, 'a text flow is output only under the condition %s: footnotes and captions that the '
               'condition rejects are lost' % unparse(bad[0])[:60],
               witness='\\newcommand{\\remarks}{\\footnote{A}\\footnote{B}}\\remarks: both flows start at '
                       'the position of the call')
    else:
        r.ok(lp, 'only empty flows are skipped', nontrivial=True)
    return r


# ----------------------------------------------------------------------------- UM2
def um2(model):
    r = RuleResult('UM2', 'an unknown environment vanishes alone: the branch of begin_environment for an '
                   'undeclared name reads nothing more from the buffer (what follows \\begin{name} is '
                   'ordinary text, with its white space)', floor=1)
    f = model.func('parser.Parser.begin_environment')
    br = None
    for n in iter_scope(f.node):
        if isinstance(n, ast.If) and isinstance(n.test, ast.Compare) and isinstance(n.test.ops[0], ast.NotIn) \
                and unparse(n.test.comparators[0]).endswith('the_environments'):
            br = n
    if br is None:
        r.undec(f.node, 'branch for undeclared environments not recognised')
        r.instances = 1
        return r
    bufname = f.params[1] if len(f.params) > 1 else 'buf'
    reads = [c for s in br.body for c in ast.walk(s) if isinstance(c, ast.Call) and (
        (isinstance(c.func, ast.Attribute) and unparse(c.func.value) == bufname)
        or any(isinstance(a, ast.Name) and a.id == bufname for a in c.args))]
    if reads:
        r.fail(reads[0], 'after \\begin{<unknown>} the parser reads on with %s: white space or text that '
               'follows is swallowed' % unparse(reads[0])[:40],
               witness='He wrote:\\begin{quote} All is well.  ->  "He wrote:All is well."')
    else:
        r.ok(br, 'the branch for undeclared environments does not touch the buffer', nontrivial=True)
    return r


# ----------------------------------------------------------------------------- PAIR1
class _Open(Flow):
    def __init__(self, recv, opens, closes):
        super().__init__()
        self.recv, self.opens, self.closes = recv, opens, closes
        self.leaks = []

    def copy(self, st):
        return dict(st)

    def join(self, a, b):
        return {'open': a.get('open', False) or b.get('open', False)}

    def equal(self, a, b):
        return a == b

    def transfer(self, s, st):
        for c in ast.walk(s):
            if isinstance(c, ast.Call) and isinstance(c.func, ast.Attribute) and unparse(c.func.value) == self.recv:
                if c.func.attr in self.opens:
                    st['open'] = True
                elif c.func.attr in self.closes:
                    st['open'] = False
        return st

    def on_return(self, node, st):
        if st.get('open'):
            self.leaks.append(node)


def pair1(model):
    r = RuleResult('PAIR1', 'a function that registers something in a collection of the parser / a '
                   'module and removes it again before it returns (append .. pop, add .. discard) '
                   'removes it on every path - also on the error returns in between', floor=0)
    n_pairs = 0
    for f in model.all_funcs():
        if isinstance(f.node, ast.Lambda) or not isinstance(f.node.body, list):
            continue
        opens, closes = {}, {}
        for c in iter_scope(f.node):
            if isinstance(c, ast.Call) and isinstance(c.func, ast.Attribute) and isinstance(c.func.value, (ast.Attribute, ast.Name)) \
                    and isinstance(c._parent, ast.Expr):
                recv = unparse(c.func.value)
                if c.func.attr in ('append', 'add'):
                    opens.setdefault(recv, []).append(c)
                elif c.func.attr in ('pop', 'remove', 'discard') and len(c.args) <= 1:
                    closes.setdefault(recv, []).append(c)
        for recv in opens:
            if recv not in closes or '.' not in recv:
                continue                      # only state that outlives the call (attributes)
            # the register / unregister pattern: one append and one removal, append first
            if len(opens[recv]) != 1 or opens[recv][0].lineno > closes[recv][0].lineno:
                continue
            # the removal must not be what the function is about (stack machines pop what others pushed)
            if any(isinstance(a, (ast.For, ast.While)) for a in _anc(opens[recv][0], f.node)):
                continue
            n_pairs += 1
            fl = _Open(recv, ('append', 'add'), ('pop', 'remove', 'discard'))
            try:
                fl.run(f.node.body, {'open': False})
            except AnalysisError:
                continue
            leaks = [x for x in fl.leaks if x is not None]
            if leaks:
                r.fail(leaks[0], '%s registers an entry in %s and returns here without removing it: the next '
                       'call finds the stale entry' % (f.name, recv),
                       witness='\\LTinput of a file that cannot be read, twice in one document')
            else:
                r.ok(opens[recv][0], '%s: entry of %s removed on every path' % (f.name, recv), nontrivial=True)
    r.instances = max(r.instances, 1)
    return r


# ----------------------------------------------------------------------------- SBL2
def sbl2(model):
    r = RuleResult('SBL2', 'sibling agreement in babel: every handler that reads a language name from '
                   'its argument expands it the same way (\\selectlanguage, \\foreignlanguage and '
                   'otherlanguage accept a macro as language name or none of them does)', floor=2)
    m = model.mod('packages.babel')
    uses = []
    for f in [x for x in model.all_funcs() if x.mod is m and not isinstance(x.node, ast.Lambda)]:
        for c in iter_scope(f.node):
            if isinstance(c, ast.Call) and T.call_name(c) in ('get_text_expanded', 'get_text_direct') and c.args \
                    and isinstance(c.args[0], ast.Subscript) and isinstance(c.args[0].value, ast.Name) \
                    and c.args[0].value.id in f.params:
                # is the text used as a language name?
                st = _stmt_of(c)
                tgt = st.targets[0].id if isinstance(st, ast.Assign) and isinstance(st.targets[0], ast.Name) else None
                lang_use = 'lang' in (tgt or '') or any(
                    isinstance(x, ast.Call) and T.call_name(x) in ('translate_lang', 'LanguageToken') for x in _anc(c, f.node))
                if not lang_use and tgt:
                    lang_use = any(isinstance(x, ast.Call) and T.call_name(x) in ('translate_lang', 'LanguageToken')
                                   and any(isinstance(y, ast.Name) and y.id == tgt for y in ast.walk(x))
                                   for x in iter_scope(f.node))
                if lang_use:
                    uses.append((f, c))
    kinds = {T.call_name(c) for f, c in uses}
    if len(kinds) <= 1:
        for f, c in uses:
            r.ok(c, '%s reads the language name with %s' % (f.name, T.call_name(c)), nontrivial=True)
        if not uses:
            r.undec(m.tree, 'no handler reading a language name recognised')
            r.instances = 2
    else:
        minority = min(kinds, key=lambda k: sum(1 for f, c in uses if T.call_name(c) == k))
        for f, c in uses:
            if T.call_name(c) == minority:
                r.fail(c, '%s reads the language name with %s, its siblings with %s: a language given by '
                       'a macro is understood by some babel commands and falls back to the default in '
                       'this one' % (f.name, minority, sorted(kinds - {minority})[0]),
                       witness='\\newcommand{\\seclang}{german}\\begin{otherlanguage}{\\seclang}')
            else:
                r.ok(c, '%s: %s' % (f.name, T.call_name(c)), sample=False)
    return r


# ----------------------------------------------------------------------------- AB3(r)
def ab3r(model):
    r = RuleResult('AB3r', 'substitute returns what it has built: every return value is the accumulated '
                   'output plus the rest of the input behind the cursor (no shortcut that hands back '
                   'the input after replacements have been made)', floor=1)
    f = model.func('utils.substitute')
    rets = [n for n in iter_scope(f.node) if isinstance(n, ast.Return) and n.value is not None]
    accs = set()
    for n in iter_scope(f.node):
        if isinstance(n, ast.AugAssign) and isinstance(n.target, ast.Name):
            accs.add(n.target.id)
        if isinstance(n, ast.Call) and T.call_name(n) in ('append', 'extend') and isinstance(n.func.value, ast.Name):
            accs.add(n.func.value.id)
    accs -= set(f.params)
    for n in rets:
        names = {x.id for x in ast.walk(n.value) if isinstance(x, ast.Name)}
        in_loop = any(isinstance(a, (ast.For, ast.While)) for a in _anc(n, f.node))
        if names & accs:
            r.ok(n, 'the accumulated output is returned', nontrivial=True)
        elif not in_loop and n.lineno < min((x.lineno for x in iter_scope(f.node) if isinstance(x, (ast.For, ast.While))),
                                            default=10**9):
            r.ok(n, 'return before any replacement is made', sample=False)
        else:
            r.fail(n, 'substitute returns %s, not the output it has accumulated: replacements made so far '
                   '(e.g. a deletion at the very start of the text) are thrown away' % unparse(n.value)[:40],
                   witness="rule 'Well, &' (empty replacement) on a text that starts with 'Well,' and contains it once")
    return r


# ----------------------------------------------------------------------------- TJ6 / TJ7
def tj6(model):
    r = RuleResult('TJ6', 'the JSON report is written with the default settings of json.dumps for '
                   'non-finite numbers (allow_nan=False raises ValueError for Infinity / NaN, which '
                   'the answer of the proofreader may contain)', floor=1)
    n = 0
    for m in model.mods.values():
        if not m.short.startswith('shell'):
            continue
        for c in ast.walk(m.tree):
            if isinstance(c, ast.Call) and T.call_name(c) in ('dumps', 'dump') and unparse(c.func).startswith('json'):
                n += 1
                kw = [k for k in c.keywords if k.arg == 'allow_nan']
                in_try = any(isinstance(a, ast.Try) for a in _anc(c))
                if kw and T.is_const(kw[0].value, False) and not in_try:
                    r.fail(c, 'json.dumps(.., allow_nan=False) on data of the proofreader answer: a value '
                           'like 1e999 or -Infinity in a match ends in ValueError',
                           witness='"contextForSureMatch": 1e999 in an otherwise valid answer, --output json')
                else:
                    r.ok(c, 'json.dumps with default number handling', nontrivial=True)
    r.instances = max(r.instances, 1)
    return r


def tj7(model):
    r = RuleResult('TJ7', 'a number of the answer indexes a list only behind a range test: offsets and '
                   'lengths are compared with the length of the list (or clamped) before they are '
                   'used as subscripts', floor=2)
    for f in model.all_funcs():
        if isinstance(f.node, ast.Lambda) or not f.mod.short.startswith('shell'):
            continue
        for n in iter_scope(f.node):
            if not (isinstance(n, ast.Subscript) and isinstance(n.ctx, ast.Load) and not isinstance(n.slice, ast.Slice)):
                continue
            if isinstance(n.slice, ast.Constant):
                continue
            src = _json_int_source(model, n.slice)
            if src is None:
                continue
            names = {x.id for x in ast.walk(n.slice) if isinstance(x, ast.Name)}
            base = unparse(n.value)

            def ranged(e, t):
                if not isinstance(e, ast.Compare):
                    return False
                txt = unparse(e)
                enames = {x.id for x in ast.walk(e) if isinstance(x, ast.Name)}
                has_len = 'len(' in txt or any(
                    isinstance(v2, ast.Call) and getattr(v2.func, 'id', '') == 'len'
                    for x in ast.walk(e) if isinstance(x, ast.Name) and x.id not in names
                    for v2 in T.resolve_local(model, x))
                return any(v in enames for v in names) and has_len
            if guards.has_fact(n, ranged):
                r.ok(n, '%s behind a range test' % unparse(n)[:40], nontrivial=True)
            else:
                r.fail(n, 'the index %s comes from the answer (%s) and is used on %s without a range test: '
                       'IndexError instead of the diagnostic' % (unparse(n.slice)[:30], unparse(src)[:40], base),
                       witness='offset far beyond the text in an otherwise valid answer')
    return r


# ----------------------------------------------------------------------------- TX2
def tx2(model):
    r = RuleResult('TX2', 'the shell hands the file contents to the filter and to the reports as read: '
                   'the only change is a final line break added to a text that does not end with one '
                   '(strip / rstrip / replace would make reports disagree with the file)', floor=1)
    f = model.func('shell.proofreader.run_proofreader')
    reads = [n for n in iter_scope(f.node) if isinstance(n, ast.Assign) and isinstance(n.value, ast.Call)
             and T.call_name(n.value) == 'read' and isinstance(n.targets[0], ast.Name)]
    if not reads:
        r.undec(f.node, 'file read not recognised')
        r.instances = 1
        return r
    v = reads[0].targets[0].id
    for n in iter_scope(f.node):
        if isinstance(n, ast.Assign) and any(isinstance(t, ast.Name) and t.id == v for t in n.targets) and n is not reads[0]:
            r.fail(n, 'the text of the file is replaced by %s before it is checked and reported: source '
                   'lines vanish from (or change in) the report' % unparse(n.value)[:50],
                   witness='a file that ends with several empty lines, negative --context')
        elif isinstance(n, ast.AugAssign) and isinstance(n.target, ast.Name) and n.target.id == v:
            ok = T.is_const(n.value, '\n') and guards.has_fact(
                n, lambda e, t: not t and isinstance(e, ast.Call) and T.call_name(e) == 'endswith'
                and e.args and T.is_const(e.args[0], '\n'))
            if ok:
                r.ok(n, 'a final line break is added only if it is missing', nontrivial=True)
            else:
                r.fail(n, 'the text of the file is extended by %s' % unparse(n.value)[:30])
    r.instances = max(r.instances, 1)
    return r


# ----------------------------------------------------------------------------- TH9
def th9(model):
    r = RuleResult('TH9', 'generate_highlight wraps every line piece of the highlighted text into the '
                   'highlight tags - also an empty piece (a match on a line break or of length zero '
                   'still gets its box): every return of the replacement function contains the '
                   'opening and the closing tag', floor=1)
    f = model.func('shell.genhtml.generate_highlight')
    inner = [d for d in ast.walk(f.node) if isinstance(d, (ast.FunctionDef, ast.Lambda)) and d is not f.node]
    if not inner:
        r.undec(f.node, 'replacement function of generate_highlight not found')
        r.instances = 1
        return r
    for d in inner:
        rets = [d.body] if isinstance(d, ast.Lambda) else [n.value for n in ast.walk(d) if isinstance(n, ast.Return)]
        for rv in rets:
            names = {x.id for x in ast.walk(rv) if isinstance(x, ast.Name)} if rv is not None else set()
            if {'pre', 'post'} <= names:
                r.ok(rv, 'line piece wrapped in the highlight tags', nontrivial=True)
            else:
                r.fail(rv if rv is not None else d, 'a line piece is returned without the highlight tags (%s): a '
                       'match that covers only a line break is not highlighted anywhere'
                       % (unparse(rv)[:40] if rv is not None else 'None'),
                       witness='a match of length 1 on the line break at the end of a line')
    return r


# ----------------------------------------------------------------------------- SH3(b)
def sh3b(model):
    r = RuleResult('SH3b', 'the file-inclusion scan parses with the same --no-specials setting as the '
                   'check itself (skip comments and special sequences are (in)active alike)', floor=1)
    n = 0
    for m in model.mods.values():
        if not m.short.startswith('shell'):
            continue
        for c in ast.walk(m.tree):
            if isinstance(c, ast.Call) and T.call_name(c) == 'Options' and any(k.arg == 'extr' for k in c.keywords):
                ex = [k.value for k in c.keywords if k.arg == 'extr'][0]
                if isinstance(ex, ast.Attribute) and ex.attr == 'extract':
                    continue
                n += 1
                ns = [k for k in c.keywords if k.arg == 'nosp']
                if ns and unparse(ns[0].value) == 'cmdline.no_specials':
                    r.ok(c, 'inclusion scan passes nosp=cmdline.no_specials', nontrivial=True)
                else:
                    r.fail(c, 'the file-inclusion scan does not pass nosp=cmdline.no_specials: with '
                           '--no-specials an \\input inside an (inactive) LT-SKIP region is still skipped '
                           'by the scan, the file is never checked',
                           witness='--no-specials --include, \\input between %%% LT-SKIP-BEGIN / END')
    r.instances = max(r.instances, 1)
    return r


# ----------------------------------------------------------------------------- EM7
def em7(model):
    r = RuleResult('EM7', 'open maths ends at the end of its paragraph, whatever kind of maths it is: in '
                   'expand_math_section the recovery "missing end of maths" is taken for every '
                   'ParagraphToken, unconditionally', floor=1)
    f = model.func('mathparser.MathParser.expand_math_section')
    hit = False
    for n in iter_scope(f.node):
        if isinstance(n, ast.If) and any(isinstance(c, ast.Call) and T.call_name(c) == 'latex_error'
                                         for s in n.body for c in ast.walk(s)):
            hit = True
            disj = n.test.values if isinstance(n.test, ast.BoolOp) and isinstance(n.test.op, ast.Or) else [n.test]
            ok = any(isinstance(d, ast.Compare) and isinstance(d.left, ast.Call) and getattr(d.left.func, 'id', '') == 'type'
                     and unparse(d.comparators[0]).endswith('ParagraphToken') and isinstance(d.ops[0], (ast.Is, ast.Eq))
                     for d in disj)
            if ok:
                r.ok(n, 'a ParagraphToken always ends the maths with an error mark', nontrivial=True)
            else:
                r.fail(n, 'the paragraph end terminates open maths only under an extra condition (%s): a '
                       'displayed equation with a wrong terminator swallows the following paragraphs'
                       % unparse(n.test)[:60],
                       witness='\\begin{equation*} a \\end{equation} followed by further paragraphs')
    if not hit:
        r.undec(f.node, 'recovery branch of expand_math_section not recognised')
        r.instances = 1
    return r


# ----------------------------------------------------------------------------- UK7
def uk7(model):
    r = RuleResult('UK7', 'only names are listed as unknown: the environment name read behind \\begin can '
                   'be empty (\\begin at the end of the text, \\begin{}); it is recorded only if it is '
                   'not', floor=1)
    f = model.func('parser.Parser.begin_environment')
    apps = [n for n in iter_scope(f.node) if isinstance(n, ast.Call) and T.call_name(n) == 'append'
            and unparse(n.func.value).endswith('unknowns') and n.args]
    if not apps:
        r.undec(f.node, 'recording of unknown environments not found')
        r.instances = 1
        return r
    for a in apps:
        v = unparse(a.args[0])
        ok = guards.has_fact(a, lambda e, t: (t and unparse(e) == v) or (
            not t and isinstance(e, ast.UnaryOp) and unparse(e.operand) == v) or (
            isinstance(e, ast.Compare) and unparse(e.left) == v and T.is_const(e.comparators[0], '')
            and isinstance(e.ops[0], (ast.NotEq, ast.Eq)) and isinstance(e.ops[0], ast.NotEq) == t))
        if ok:
            r.ok(a, 'the environment name is recorded only if it is not empty', nontrivial=True)
        else:
            r.fail(a, 'an empty environment name is recorded as unknown: the list of unknown names gets an '
                   'empty line', witness='a text that ends with \\begin, or contains \\begin{}; --unkn')
    return r
