"""Rules added after the fifth round of seeded defects (DESIGN.md 3.10): EX1(c), UM2, PAIR1, SBL2,
AB3(r), TJ6, TJ7, TX2, TH9, SH3(b), EM7."""
import ast

from ..model import AnalysisError, unparse, iter_scope
from ..report import RuleResult
from ..flow import Flow, always_exits
from .. import guards
from .. import tok as T
from .r4 import _anc, _stmt_of, _json_int_source


# ----------------------------------------------------------------------------- EX1(c)
def ex1c(model):
    r = RuleResult('EX1c', 'every extracted flow that is not empty is output: the loop of Parser.parse '
                   'that appends the flows skips a flow only if it is empty', floor=1)
    p = model.func('parser.Parser.parse')
    loop = [s for s in T.body_with_tail(model.inl(), model.inl().func('parser.Parser.parse')) if isinstance(s, ast.For) and 'extracted' in unparse(s.iter)]
    if not loop or not isinstance(loop[0].target, ast.Name):
        raise AnalysisError('anchor vanished: loop over the extracted flows in Parser.parse')
    lp = loop[0]
    v = lp.target.id
    tests = [n.test for n in ast.walk(lp) if isinstance(n, ast.If)] + \
            [n.test for n in ast.walk(lp) if isinstance(n, ast.IfExp)]
    bad = []
    for t in tests:
        fs = []
        guards.split_fact(t, True, fs)
        for e, tr in fs:
            if isinstance(e, ast.Name) and e.id == v:
                continue
            if isinstance(e, ast.Call) and getattr(e.func, 'id', '') == 'len' and e.args and unparse(e.args[0]) == v:
                continue
            if isinstance(e, ast.Compare) and isinstance(e.left, ast.Call) and getattr(e.left.func, 'id', '') == 'len' \
                    and e.left.args and unparse(e.left.args[0]) == v:
                continue
            bad.append(e)
    if isinstance(lp.iter, ast.Call) and getattr(lp.iter.func, 'id', '') not in ('list', 'iter', 'tuple'):
        bad.append(lp.iter)
    if bad:
        r.fail(lp, 'a text flow is output only under the condition %s: footnotes and captions that the '
               'condition rejects are lost' % unparse(bad[0])[:60],
               witness='\\newcommand{\\remarks}{\\footnote{A}\\footnote{B}}\\remarks: both flows start at '
                       'the position of the call')
    else:
        r.ok(lp, 'only empty flows are skipped', nontrivial=True)
    return r


# ----------------------------------------------------------------------------- UM2
def um2(model):
    r = RuleResult('UM2', 'an unknown environment vanishes alone: the branch of begin_environment for an '
                   'undeclared name reads nothing more from the buffer (what follows \\begin{name} is '
                   'ordinary text, with its white space)', floor=1)
    f = model.func('parser.Parser.begin_environment')
    br = None
    for n in iter_scope(f.node):
        if isinstance(n, ast.If) and isinstance(n.test, ast.Compare) and isinstance(n.test.ops[0], ast.NotIn) \
                and unparse(n.test.comparators[0]).endswith('the_environments'):
            br = n
    if br is None:
        r.undec(f.node, 'branch for undeclared environments not recognised')
        r.instances = 1
        return r
    bufname = f.params[1] if len(f.params) > 1 else 'buf'
    reads = [c for s in br.body for c in ast.walk(s) if isinstance(c, ast.Call) and (
        (isinstance(c.func, ast.Attribute) and unparse(c.func.value) == bufname)
        or any(isinstance(a, ast.Name) and a.id == bufname for a in c.args))]
    if reads:
        r.fail(reads[0], 'after \\begin{<unknown>} the parser reads on with %s: white space or text that '
               'follows is swallowed' % unparse(reads[0])[:40],
               witness='He wrote:\\begin{quote} All is well.  ->  "He wrote:All is well."')
    else:
        r.ok(br, 'the branch for undeclared environments does not touch the buffer', nontrivial=True)
    return r


# ----------------------------------------------------------------------------- PAIR1
class _Open(Flow):
    def __init__(self, recv, opens, closes):
        super().__init__()
        self.recv, self.opens, self.closes = recv, opens, closes
        self.leaks = []

    def copy(self, st):
        return dict(st)

    def join(self, a, b):
        return {'open': a.get('open', False) or b.get('open', False)}

    def equal(self, a, b):
        return a == b

    def transfer(self, s, st):
        for c in ast.walk(s):
            if isinstance(c, ast.Call) and isinstance(c.func, ast.Attribute) and unparse(c.func.value) == self.recv:
                if c.func.attr in self.opens:
                    st['open'] = True
                elif c.func.attr in self.closes:
                    st['open'] = False
        return st

    def on_return(self, node, st):
        if st.get('open'):
            self.leaks.append(node)


def pair1(model):
    r = RuleResult('PAIR1', 'a function that registers something in a collection of the parser / a '
                   'module and removes it again before it returns (append .. pop, add .. discard) '
                   'removes it on every path - also on the error returns in between', floor=0)
    n_pairs = 0
    for f in model.all_funcs():
        if isinstance(f.node, ast.Lambda) or not isinstance(f.node.body, list):
            continue
        opens, closes = {}, {}
        for c in iter_scope(f.node):
            if isinstance(c, ast.Call) and isinstance(c.func, ast.Attribute) and isinstance(c.func.value, (ast.Attribute, ast.Name)) \
                    and isinstance(c._parent, ast.Expr):
                recv = unparse(c.func.value)
                if c.func.attr in ('append', 'add'):
                    opens.setdefault(recv, []).append(c)
                elif c.func.attr in ('pop', 'remove', 'discard') and len(c.args) <= 1:
                    closes.setdefault(recv, []).append(c)
        for recv in opens:
            if recv not in closes or '.' not in recv:
                continue                      # only state that outlives the call (attributes)
            # the register / unregister pattern: one append and one removal, append first
            if len(opens[recv]) != 1 or opens[recv][0].lineno > closes[recv][0].lineno:
                continue
            # the removal must not be what the function is about (stack machines pop what others pushed)
            if any(isinstance(a, (ast.For, ast.While)) for a in _anc(opens[recv][0], f.node)):
                continue
            n_pairs += 1
            fl = _Open(recv, ('append', 'add'), ('pop', 'remove', 'discard'))
            try:
                fl.run(f.node.body, {'open': False})
            except AnalysisError:
                continue
            leaks = [x for x in fl.leaks if x is not None]
            if leaks:
                r.fail(leaks[0], '%s registers an entry in %s and returns here without removing it: the next '
                       'call finds the stale entry' % (f.name, recv),
                       witness='\\LTinput of a file that cannot be read, twice in one document')
            else:
                r.ok(opens[recv][0], '%s: entry of %s removed on every path' % (f.name, recv), nontrivial=True)
    r.instances = max(r.instances, 1)
    return r


# ----------------------------------------------------------------------------- SBL2
def sbl2(model):
    r = RuleResult('SBL2', 'sibling agreement in babel: every handler that reads a language name from '
                   'its argument expands it the same way (\\selectlanguage, \\foreignlanguage and '
                   'otherlanguage accept a macro as language name or none of them does)', floor=2)
    m = model.mod('packages.babel')
    uses = []
    for f in [x for x in model.all_funcs() if x.mod is m and not isinstance(x.node, ast.Lambda)]:
        for c in iter_scope(f.node):
            if isinstance(c, ast.Call) and T.call_name(c) in ('get_text_expanded', 'get_text_direct') and c.args \
                    and isinstance(c.args[0], ast.Subscript) and isinstance(c.args[0].value, ast.Name) \
                    and c.args[0].value.id in f.params:
                # is the text used as a language name?
                st = _stmt_of(c)
                tgt = st.targets[0].id if isinstance(st, ast.Assign) and isinstance(st.targets[0], ast.Name) else None
                lang_use = 'lang' in (tgt or '') or any(
                    isinstance(x, ast.Call) and T.call_name(x) in ('translate_lang', 'LanguageToken') for x in _anc(c, f.node))
                if not lang_use and tgt:
                    lang_use = any(isinstance(x, ast.Call) and T.call_name(x) in ('translate_lang', 'LanguageToken')
                                   and any(isinstance(y, ast.Name) and y.id == tgt for y in ast.walk(x))
                                   for x in iter_scope(f.node))
                if lang_use:
                    uses.append((f, c))
    kinds = {T.call_name(c) for f, c in uses}
    if len(kinds) <= 1:
        for f, c in uses:
            r.ok(c, '%s reads the language name with %s' % (f.name, T.call_name(c)), nontrivial=True)
        if not uses:
            r.undec(m.tree, 'no handler reading a language name recognised')
            r.instances = 2
    else:
        minority = min(kinds, key=lambda k: sum(1 for f, c in uses if T.call_name(c) == k))
        for f, c in uses:
            if T.call_name(c) == minority:
                r.fail(c, '%s reads the language name with %s, its siblings with %s: a language given by '
                       'a macro is understood by some babel commands and falls back to the default in '
                       'this one' % (f.name, minority, sorted(kinds - {minority})[0]),
                       witness='\\newcommand{\\seclang}{german}\\begin{otherlanguage}{\\seclang}')
            else:
                r.ok(c, '%s: %s' % (f.name, T.call_name(c)), sample=False)
    return r


# ----------------------------------------------------------------------------- AB3(r)
def ab3r(model):
    r = RuleResult('AB3r', 'substitute returns what it has built: every return value is the accumulated '
                   'output plus the rest of the input behind the cursor (no shortcut that hands back '
                   'the input after replacements have been made)', floor=1)
    f = model.func('utils.substitute')
    rets = [n for n in iter_scope(f.node) if isinstance(n, ast.Return) and n.value is not None]
    accs = set()
    for n in iter_scope(f.node):
        if isinstance(n, ast.AugAssign) and isinstance(n.target, ast.Name):
            accs.add(n.target.id)
        if isinstance(n, ast.Call) and T.call_name(n) in ('append', 'extend') and isinstance(n.func.value, ast.Name):
            accs.add(n.func.value.id)
    accs -= set(f.params)
    for n in rets:
        names = {x.id for x in ast.walk(n.value) if isinstance(x, ast.Name)}
        in_loop = any(isinstance(a, (ast.For, ast.While)) for a in _anc(n, f.node))
        if names & accs:
            r.ok(n, 'the accumulated output is returned', nontrivial=True)
        elif not in_loop and n.lineno < min((x.lineno for x in iter_scope(f.node) if isinstance(x, (ast.For, ast.While))),
                                            default=10**9):
            r.ok(n, 'return before any replacement is made', sample=False)
        else:
            r.fail(n, 'substitute returns %s, not the output it has accumulated: replacements made so far '
                   '(e.g. a deletion at the very start of the text) are thrown away' % unparse(n.value)[:40],
                   witness="rule 'Well, &' (empty replacement) on a text that starts with 'Well,' and contains it once")
    return r


# ----------------------------------------------------------------------------- TJ6 / TJ7
def tj6(model):
    r = RuleResult('TJ6', 'the JSON report is written with the default settings of json.dumps for '
                   'non-finite numbers (allow_nan=False raises ValueError for Infinity / NaN, which '
                   'the answer of the proofreader may contain)', floor=1)
    n = 0
    for m in model.mods.values():
        if not m.short.startswith('shell'):
            continue
        for c in ast.walk(m.tree):
            if isinstance(c, ast.Call) and T.call_name(c) in ('dumps', 'dump') and unparse(c.func).startswith('json'):
                n += 1
                kw = [k for k in c.keywords if k.arg == 'allow_nan']
                in_try = any(isinstance(a, ast.Try) for a in _anc(c))
                if kw and T.is_const(kw[0].value, False) and not in_try:
                    r.fail(c, 'json.dumps(.., allow_nan=False) on data of the proofreader answer: a value '
                           'like 1e999 or -Infinity in a match ends in ValueError',
                           witness='"contextForSureMatch": 1e999 in an otherwise valid answer, --output json')
                else:
                    r.ok(c, 'json.dumps with default number handling', nontrivial=True)
    r.instances = max(r.instances, 1)
    return r


def tj7(model):
    r = RuleResult('TJ7', 'a number of the answer indexes a list only behind a range test: offsets and '
                   'lengths are compared with the length of the list (or clamped) before they are '
                   'used as subscripts', floor=2)
    for f in model.all_funcs():
        if isinstance(f.node, ast.Lambda) or not f.mod.short.startswith('shell'):
            continue
        for n in iter_scope(f.node):
            if not (isinstance(n, ast.Subscript) and isinstance(n.ctx, ast.Load) and not isinstance(n.slice, ast.Slice)):
                continue
            if isinstance(n.slice, ast.Constant):
                continue
            src = _json_int_source(model, n.slice)
            if src is None:
                continue
            names = {x.id for x in ast.walk(n.slice) if isinstance(x, ast.Name)}
            # an index that is a local name for an expression over tested numbers: last = max(beg, end - 1)
            for nm in list(names):
                vals = T.resolve_local(model, next(x for x in ast.walk(n.slice) if isinstance(x, ast.Name) and x.id == nm))
                if len(vals) == 1 and isinstance(vals[0], ast.Call) and getattr(vals[0].func, 'id', '') in ('max', 'min'):
                    names |= {x.id for x in ast.walk(vals[0]) if isinstance(x, ast.Name)}
            base = unparse(n.value)

            def ranged(e, t):
                if not isinstance(e, ast.Compare):
                    return False
                txt = unparse(e)
                enames = {x.id for x in ast.walk(e) if isinstance(x, ast.Name)}
                has_len = 'len(' in txt or any(
                    isinstance(v2, ast.Call) and getattr(v2.func, 'id', '') == 'len'
                    for x in ast.walk(e) if isinstance(x, ast.Name) and x.id not in names
                    for v2 in T.resolve_local(model, x))
                return any(v in enames for v in names) and has_len
            if guards.has_fact(n, ranged):
                r.ok(n, '%s behind a range test' % unparse(n)[:40], nontrivial=True)
            else:
                r.fail(n, 'the index %s comes from the answer (%s) and is used on %s without a range test: '
                       'IndexError instead of the diagnostic' % (unparse(n.slice)[:30], unparse(src)[:40], base),
                       witness='offset far beyond the text in an otherwise valid answer')
    return r


# ----------------------------------------------------------------------------- TX2
def tx2(model):
    r = RuleResult('TX2', 'the shell hands the file contents to the filter and to the reports as read: '
                   'the only change is a final line break added to a text that does not end with one '
                   '(strip / rstrip / replace would make reports disagree with the file)', floor=1)
    f = model.func('shell.proofreader.run_proofreader')
    reads = [n for n in iter_scope(f.node) if isinstance(n, ast.Assign) and isinstance(n.value, ast.Call)
             and T.call_name(n.value) == 'read' and isinstance(n.targets[0], ast.Name)]
    if not reads:
        r.undec(f.node, 'file read not recognised')
        r.instances = 1
        return r
    v = reads[0].targets[0].id
    for n in iter_scope(f.node):
        if isinstance(n, ast.Assign) and any(isinstance(t, ast.Name) and t.id == v for t in n.targets) and n is not reads[0]:
            r.fail(n, 'the text of the file is replaced by %s before it is checked and reported: source '
                   'lines vanish from (or change in) the report' % unparse(n.value)[:50],
                   witness='a file that ends with several empty lines, negative --context')
        elif isinstance(n, ast.AugAssign) and isinstance(n.target, ast.Name) and n.target.id == v:
            ok = T.is_const(n.value, '\n') and guards.has_fact(
                n, lambda e, t: not t and isinstance(e, ast.Call) and T.call_name(e) == 'endswith'
                and e.args and T.is_const(e.args[0], '\n'))
            if ok:
                r.ok(n, 'a final line break is added only if it is missing', nontrivial=True)
            else:
                r.fail(n, 'the text of the file is extended by %s' % unparse(n.value)[:30])
    r.instances = max(r.instances, 1)
    return r


# ----------------------------------------------------------------------------- TH9
def th9(model):
    r = RuleResult('TH9', 'generate_highlight wraps every line piece of the highlighted text into the '
                   'highlight tags - also an empty piece (a match on a line break or of length zero '
                   'still gets its box): every return of the replacement function contains the '
                   'opening and the closing tag', floor=1)
    f = model.func('shell.genhtml.generate_highlight')
    inner = [d for d in ast.walk(f.node) if isinstance(d, (ast.FunctionDef, ast.Lambda)) and d is not f.node]
    if not inner:
        r.undec(f.node, 'replacement function of generate_highlight not found')
        r.instances = 1
        return r
    for d in inner:
        rets = [d.body] if isinstance(d, ast.Lambda) else [n.value for n in ast.walk(d) if isinstance(n, ast.Return)]
        for rv in rets:
            names = {x.id for x in ast.walk(rv) if isinstance(x, ast.Name)} if rv is not None else set()
            if {'pre', 'post'} <= names:
                r.ok(rv, 'line piece wrapped in the highlight tags', nontrivial=True)
            else:
                r.fail(rv if rv is not None else d, 'a line piece is returned without the highlight tags (%s): a '
                       'match that covers only a line break is not highlighted anywhere'
                       % (unparse(rv)[:40] if rv is not None else 'None'),
                       witness='a match of length 1 on the line break at the end of a line')
    return r


# ----------------------------------------------------------------------------- SH3(b)
def sh3b(model):
    r = RuleResult('SH3b', 'the file-inclusion scan parses with the same --no-specials setting as the '
                   'check itself (skip comments and special sequences are (in)active alike)', floor=1)
    n = 0
    for m in model.mods.values():
        if not m.short.startswith('shell'):
            continue
        for c in ast.walk(m.tree):
            if isinstance(c, ast.Call) and T.call_name(c) == 'Options' and any(k.arg == 'extr' for k in c.keywords):
                ex = [k.value for k in c.keywords if k.arg == 'extr'][0]
                if isinstance(ex, ast.Attribute) and ex.attr == 'extract':
                    continue
                n += 1
                ns = [k for k in c.keywords if k.arg == 'nosp']
                if ns and unparse(ns[0].value) == 'cmdline.no_specials':
                    r.ok(c, 'inclusion scan passes nosp=cmdline.no_specials', nontrivial=True)
                else:
                    r.fail(c, 'the file-inclusion scan does not pass nosp=cmdline.no_specials: with '
                           '--no-specials an \\input inside an (inactive) LT-SKIP region is still skipped '
                           'by the scan, the file is never checked',
                           witness='--no-specials --include, \\input between %%% LT-SKIP-BEGIN / END')
    r.instances = max(r.instances, 1)
    return r


# ----------------------------------------------------------------------------- EM7
def em7(model):
    r = RuleResult('EM7', 'open maths ends at the end of its paragraph, whatever kind of maths it is: in '
                   'expand_math_section the recovery "missing end of maths" is taken for every '
                   'ParagraphToken, unconditionally', floor=1)
    f = model.func('mathparser.MathParser.expand_math_section')
    hit = False
    for n in iter_scope(f.node):
        if isinstance(n, ast.If) and any(isinstance(c, ast.Call) and T.call_name(c) == 'latex_error'
                                         for s in n.body for c in ast.walk(s)):
            hit = True
            disj = n.test.values if isinstance(n.test, ast.BoolOp) and isinstance(n.test.op, ast.Or) else [n.test]
            ok = any(isinstance(d, ast.Compare) and isinstance(d.left, ast.Call) and getattr(d.left.func, 'id', '') == 'type'
                     and unparse(d.comparators[0]).endswith('ParagraphToken') and isinstance(d.ops[0], (ast.Is, ast.Eq))
                     for d in disj)
            if not ok:
                # any other spelling that is certainly true for a ParagraphToken (isinstance, membership in a tuple)
                from .r6 import _tri_tok
                toks = {unparse(x.left.args[0]) for x in ast.walk(n.test) if isinstance(x, ast.Compare)
                        and isinstance(x.left, ast.Call) and getattr(x.left.func, 'id', '') == 'type' and x.left.args}
                toks |= {unparse(x.args[0]) for x in ast.walk(n.test) if isinstance(x, ast.Call)
                         and getattr(x.func, 'id', '') == 'isinstance' and len(x.args) == 2}
                ok = any(_tri_tok(n.test, tn, 'ParagraphToken') is True for tn in toks)
            if ok:
                r.ok(n, 'a ParagraphToken always ends the maths with an error mark', nontrivial=True)
            else:
                r.fail(n, 'the paragraph end terminates open maths only under an extra condition (%s): a '
                       'displayed equation with a wrong terminator swallows the following paragraphs'
                       % unparse(n.test)[:60],
                       witness='\\begin{equation*} a \\end{equation} followed by further paragraphs')
    if not hit:
        r.undec(f.node, 'recovery branch of expand_math_section not recognised')
        r.instances = 1
    return r


# ----------------------------------------------------------------------------- UK7
def uk7(model):
    r = RuleResult('UK7', 'only names are listed as unknown: the environment name read behind \\begin can '
                   'be empty (\\begin at the end of the text, \\begin{}); it is recorded only if it is '
                   'not', floor=1)
    f = model.func('parser.Parser.begin_environment')
    apps = [n for n in iter_scope(f.node) if isinstance(n, ast.Call) and T.call_name(n) == 'append'
            and unparse(n.func.value).endswith('unknowns') and n.args]
    if not apps:
        r.undec(f.node, 'recording of unknown environments not found')
        r.instances = 1
        return r
    for a in apps:
        v = unparse(a.args[0])
        ok = guards.has_fact(a, lambda e, t: (t and unparse(e) == v) or (
            not t and isinstance(e, ast.UnaryOp) and unparse(e.operand) == v) or (
            isinstance(e, ast.Compare) and unparse(e.left) == v and T.is_const(e.comparators[0], '')
            and isinstance(e.ops[0], (ast.NotEq, ast.Eq)) and isinstance(e.ops[0], ast.NotEq) == t))
        if ok:
            r.ok(a, 'the environment name is recorded only if it is not empty', nontrivial=True)
        else:
            r.fail(a, 'an empty environment name is recorded as unknown: the list of unknown names gets an '
                   'empty line', witness='a text that ends with \\begin, or contains \\begin{}; --unkn')
    return r


# ----------------------------------------------------------------------------- MT4b / AT3 / LC4
def mt4b(model):
    from .. import tables
    r = RuleResult('MT4b', 'the punctuation that a formula hands on to the text is exactly . , ; : (C10 '
                   'and C11 name these four): Parameters.math_punctuation contains nothing else', floor=1)
    v, n = tables.parameters_table(model, 'math_punctuation')
    if not isinstance(v, (list, tuple)):
        # a computed table: look for the literal it is computed from
        f = model.func('parameters.Parameters.init_math_collections') if model.has_func(
            'parameters.Parameters.init_math_collections') else None
        src = None
        for fn in model.cls('parameters.Parameters').methods.values():
            for s in iter_scope(fn.node):
                if isinstance(s, ast.Assign) and unparse(s.targets[0]) == 'self.math_punctuation':
                    src = s
        if src is not None:
            names = [x.attr for x in ast.walk(src.value) if isinstance(x, ast.Attribute) and unparse(x.value) == 'self']
            for nm in names:
                v2, n2 = tables.parameters_table(model, nm)
                if isinstance(v2, (list, tuple)):
                    v, n = list(v2), src
    if not isinstance(v, (list, tuple)):
        r.undec(model.mod('parameters').tree, 'math_punctuation is not a literal table')
        r.instances = 1
        return r
    extra = [x for x in v if x not in ('.', ',', ';', ':')]
    missing = [x for x in ('.', ',', ';', ':') if x not in v]
    if extra or missing:
        r.fail(n, 'math_punctuation is %r: %s' % (list(v), ('the characters %r of a formula would be copied '
               'behind its placeholder (n! becomes C-C-C!)' % extra) if extra else ('%r is no longer kept' % missing)),
               stmt='math_punctuation table', witness='$n!$  /  $P = NP?$')
    else:
        r.ok(n, 'math_punctuation is . , ; :', nontrivial=True)
    return r


def at3(model):
    r = RuleResult('AT3', 'nesting levels are brace levels everywhere: iter_token_levels (used to find the '
                   'row separators of \\substack) changes the level only for { and }', floor=1)
    f = model.func('parser.Parser.iter_token_levels')
    lits = set()
    for n in iter_scope(f.node):
        if isinstance(n, ast.Compare) and unparse(n.left).endswith('.txt'):
            for c in n.comparators:
                if isinstance(c, ast.Constant):
                    lits.add(c.value)
                elif isinstance(c, (ast.Tuple, ast.List, ast.Set)):
                    lits |= {e.value for e in c.elts if isinstance(e, ast.Constant)}
    if not lits:
        r.undec(f.node, 'level tests of iter_token_levels not recognised')
        r.instances = 1
    elif lits <= {'{', '}'}:
        r.ok(f.node, 'levels are counted for { and } only', nontrivial=True)
    else:
        r.fail(f.node, 'iter_token_levels also counts %r as nesting: an unbalanced bracket inside \\substack '
               '(a half-open interval) hides the row separator behind it' % sorted(lits - {'{', '}'}),
               stmt='level characters', witness='\\substack{x \\in [0,1) \\\\ y \\in (0,1]}')
    return r


def lc4(model):
    r = RuleResult('LC4', 'language settings are looked up through the normalisation of the language code '
                   '(check_parser_lang: ru-RU -> ru): parser_lang_settings is never indexed with a raw '
                   'code', floor=2)
    for m in model.mods.values():
        for n in ast.walk(m.tree):
            key = None
            if isinstance(n, ast.Subscript) and isinstance(n.ctx, ast.Load) and unparse(n.value).endswith('parser_lang_settings'):
                key = n.slice
            elif isinstance(n, ast.Call) and isinstance(n.func, ast.Attribute) and n.func.attr == 'get' \
                    and unparse(n.func.value).endswith('parser_lang_settings') and n.args:
                key = n.args[0]
            if key is None:
                continue
            vals = T.resolve_local(model, key) if isinstance(key, ast.Name) else [key]
            if vals and all(isinstance(v, ast.Call) and T.call_name(v) == 'check_parser_lang' for v in vals):
                r.ok(n, 'key normalised by check_parser_lang', nontrivial=True)
            elif isinstance(key, ast.Constant):
                r.ok(n, 'literal key', sample=False)
            else:
                fn = next((a for a in _anc(n) if isinstance(a, ast.FunctionDef)), None)
                if fn is not None and fn.name == 'check_parser_lang':
                    r.ok(n, 'inside the normalisation', sample=False)
                    continue
                r.fail(n, 'parser_lang_settings is looked up with %s, not with check_parser_lang(..): a code '
                       'like ru-RU or RU is not found and the English tables are used' % unparse(key)[:40],
                       witness='--language ru-RU --equation-punctuation display')
    return r


# ----------------------------------------------------------------------------- EM8 / DT1c / TX3 / IX17
def em8(model):
    r = RuleResult('EM8', 'scanner errors are marked at the start of the faulty token: every error_token '
                   'call passes the start parameter of its scan method (an index inside the text), '
                   'not a position computed behind it', floor=2)
    cls = model.cls('scanner.Scanner')
    for f in cls.methods.values():
        for c in ast.walk(f.node):
            if isinstance(c, ast.Call) and T.call_name(c) == 'error_token' and c.args:
                pos = c.args[-1]
                holder = next((a for a in _anc(c) if isinstance(a, ast.FunctionDef) and a.name in cls.methods), None)
                params = [a.arg for a in holder.args.args] if holder is not None else []
                if isinstance(pos, ast.Name) and pos.id in params:
                    stores = [x for x in ast.walk(holder) if isinstance(x, ast.Name) and x.id == pos.id
                              and isinstance(x.ctx, ast.Store)]
                    if not stores:
                        r.ok(c, 'error mark at the token start %s' % pos.id, nontrivial=True)
                        continue
                r.fail(c, 'the error mark is placed at %s, not at the start of the token: for a fault at the '
                       'end of the text the position lies behind the last character' % unparse(pos)[:30],
                       witness='a text that ends with \\verb')
    return r


def dt1c(model):
    r = RuleResult('DT1c', '\\\\ always becomes a blank: the branch of expand_sequence for \\\\ appends its '
                   'SpaceToken unconditionally', floor=1)
    f = model.func('parser.Parser.expand_sequence')
    hit = False
    for n in iter_scope(f.node):
        if isinstance(n, ast.If) and isinstance(n.test, ast.Compare) and unparse(n.test.left).endswith('.txt') \
                and T.is_const(n.test.comparators[0], '\\\\') and isinstance(n.test.ops[0], ast.Eq):
            hit = True
            top = [s for s in n.body if isinstance(s, ast.Expr) and isinstance(s.value, ast.Call)
                   and T.call_name(s.value) in ('append', 'extend') and any(
                       isinstance(c, ast.Call) and T.call_name(c) == 'SpaceToken' for c in ast.walk(s))]
            top += [s for s in n.body if isinstance(s, ast.AugAssign) and any(
                isinstance(c, ast.Call) and T.call_name(c) == 'SpaceToken' for c in ast.walk(s))]
            if top:
                r.ok(top[0], 'the blank for \\\\ is appended unconditionally', nontrivial=True)
            else:
                r.fail(n, 'the blank for \\\\ is appended only under a condition (or not at all): "A \\\\B" '
                       'loses a character of the documented replacement', witness='A \\\\B  ->  expected "A  B"')
    if not hit:
        r.undec(f.node, 'branch for \\\\ not recognised')
        r.instances = 1
    return r


def tx3(model):
    r = RuleResult('TX3', 'tex2txt has no shortcut in front of the parser: every return follows the call of '
                   'Parser.parse (blank-only input comes back unchanged with the identity map)', floor=1)
    f = model.func('tex2txt.tex2txt')
    calls = [c.lineno for c in iter_scope(f.node) if isinstance(c, ast.Call) and T.call_name(c) == 'parse']
    if not calls:
        raise AnalysisError('anchor vanished: Parser.parse call in tex2txt')
    first = min(calls)
    for n in iter_scope(f.node):
        if isinstance(n, ast.Return):
            if n.lineno < first:
                r.fail(n, 'tex2txt returns %s before the text is parsed' % unparse(n.value)[:40] if n.value else 'None',
                       witness="tex2txt(' \\n', Options())  ->  expected (' \\n', [1, 2])")
            else:
                r.ok(n, 'return behind the parse', sample=False)
    return r


def ix17(model):
    r = RuleResult('IX17', 'the first / last character of a token text is taken only where the text is '
                   'known to be non-empty (LanguageTokens and action tokens have empty text)', floor=3)
    for f in model.all_funcs():
        if isinstance(f.node, ast.Lambda) or f.mod.short.startswith('shell') or f.mod.short == 'scanner':
            continue
        for n in iter_scope(f.node):
            if not (isinstance(n, ast.Subscript) and isinstance(n.ctx, ast.Load) and isinstance(n.value, ast.Attribute)
                    and n.value.attr == 'txt' and not isinstance(n.slice, ast.Slice)):
                continue
            idx = n.slice
            if isinstance(idx, ast.UnaryOp):
                idx = idx.operand
            if not (isinstance(idx, ast.Constant) and isinstance(idx.value, int)):
                continue
            base = unparse(n.value)
            bases = {base}
            tv0 = n.value.value
            if isinstance(tv0, ast.Name):
                for v0 in T.resolve_local(model, tv0):
                    if isinstance(v0, ast.Call) and unparse(v0.func) in ('copy.copy', 'copy.deepcopy') and v0.args:
                        bases.add(unparse(v0.args[0]) + '.txt')     # a copy has the same text

            def nonempty(e, t):
                if t and unparse(e) in bases:
                    return True
                if not t and isinstance(e, ast.UnaryOp) and unparse(e.operand) in bases:
                    return True
                if isinstance(e, ast.Compare) and len(e.ops) == 1 and unparse(e.left) == 'len(%s)' % base \
                        and isinstance(e.comparators[0], ast.Constant) and isinstance(e.comparators[0].value, int):
                    k, op = e.comparators[0].value, e.ops[0]
                    if t and ((isinstance(op, ast.Eq) and k >= 1) or (isinstance(op, ast.Gt) and k >= 0)
                              or (isinstance(op, ast.GtE) and k >= 1) or (isinstance(op, ast.NotEq) and k == 0)):
                        return True
                    if not t and ((isinstance(op, ast.Eq) and k == 0) or (isinstance(op, ast.Lt) and k >= 1)
                                  or (isinstance(op, ast.LtE) and k >= 0)):
                        return True
                if t and isinstance(e, ast.Call) and T.call_name(e) in ('strip', 'isalpha', 'isspace', 'isdigit') \
                        and unparse(e.func.value) == base:
                    return True
                # type test for a class whose text is never empty (scanner-made text tokens)
                if t and isinstance(e, ast.Compare) and isinstance(e.left, ast.Call) and getattr(e.left.func, 'id', '') == 'type' \
                        and unparse(e.left.args[0]) == unparse(n.value.value) \
                        and unparse(e.comparators[0]).split('.')[-1] in ('TextToken', 'SpecialToken', 'MacroToken',
                                                                      'MathElemToken', 'MathOperToken'):
                    return True
                return False
            def by_search():
                # L[v].txt[k] where v = next((i for i in range(..) if <test of L[i]>), -1) and v >= 0 holds:
                # the element found satisfies the test of the search
                tokx = n.value.value
                if not (isinstance(tokx, ast.Subscript) and isinstance(tokx.slice, ast.Name)):
                    return False
                v = tokx.slice.id
                lst = unparse(tokx.value)
                if not guards.has_fact(n, lambda e, t: t and isinstance(e, ast.Compare) and unparse(e.left) == v
                                       and isinstance(e.ops[0], (ast.GtE, ast.Gt))):
                    return False
                vals = T.resolve_local(model, tokx.slice)
                if not vals:
                    return False
                for val in vals:
                    if not (isinstance(val, ast.Call) and getattr(val.func, 'id', '') == 'next' and val.args
                            and isinstance(val.args[0], ast.GeneratorExp)):
                        return False
                    g = val.args[0].generators[0]
                    if not isinstance(g.target, ast.Name):
                        return False
                    el = '%s[%s]' % (lst, g.target.id)
                    okc = False
                    for c in g.ifs:
                        fs = []
                        guards.split_fact(c, True, fs)
                        for e, t in fs:
                            if t and unparse(e) in (el + '.txt', el + '.txt.strip()'):
                                okc = True
                            if t and isinstance(e, ast.Compare) and isinstance(e.left, ast.Call) \
                                    and getattr(e.left.func, 'id', '') == 'type' and unparse(e.left.args[0]) == el \
                                    and unparse(e.comparators[0]).split('.')[-1] in ('TextToken', 'SpecialToken', 'MacroToken') \
                                    and isinstance(e.ops[0], (ast.Is, ast.Eq)):
                                okc = True
                    if not okc:
                        return False
                return True
            def tested_elsewhere():
                # flow-insensitive fallback: the token (or the token it is a copy of) is tested for its
                # class or for non-empty text in a condition of this function that leaves a loop or the
                # function (search loop with break / else: return)
                roots = {unparse(n.value.value)}
                tv = n.value.value
                if isinstance(tv, ast.Name):
                    for v in T.resolve_local(model, tv):
                        if isinstance(v, ast.Call) and unparse(v.func) in ('copy.copy', 'copy.deepcopy') and v.args:
                            roots.add(unparse(v.args[0]))
                for c in iter_scope(f.node):
                    if isinstance(c, ast.If) and any(isinstance(x, (ast.Break, ast.Return, ast.Continue)) for x in c.body + c.orelse):
                        fs = []
                        guards.split_fact(c.test, True, fs)
                        guards.split_fact(c.test, False, fs)
                        for e, t in fs:
                            if unparse(e) in {r_ + '.txt' for r_ in roots}:
                                return True
                            if isinstance(e, ast.UnaryOp) and unparse(e.operand) in {r_ + '.txt' for r_ in roots}:
                                return True
                            if isinstance(e, ast.Compare) and isinstance(e.left, ast.Call) and getattr(e.left.func, 'id', '') == 'type' \
                                    and e.left.args and unparse(e.left.args[0]) in roots:
                                return True
                return False
            if guards.has_fact(n, nonempty):
                r.ok(n, '%s under a test that the text is not empty' % unparse(n), nontrivial=True)
            elif tested_elsewhere():
                r.ok(n, '%s: the token is tested in an exit condition of this function' % unparse(n), nontrivial=True)
            elif by_search():
                r.ok(n, '%s: the index was found by a search for a token with text' % unparse(n), nontrivial=True)
            else:
                r.fail(n, '%s is evaluated without a test of %s: a token with empty text (LanguageToken kept by '
                       'the line clean-up, action token) raises IndexError' % (unparse(n), base),
                       witness="\\'{\\foreignlanguage{german}{a}} in multi-language mode")
    return r


# ----------------------------------------------------------------------------- PD10 / UN1
def pd10(model):
    r = RuleResult('PD10', 'a handler factory is given text, not tokens: a closure that emits a captured '
                   'token list would output the tokens of the definition with the positions of the '
                   'definition (possibly of another text) at every use', floor=1)
    n = 0
    for f in model.all_funcs():
        if isinstance(f.node, ast.Lambda) or not isinstance(f.node.body, list) or not f.nested:
            continue
        # factory: returns one of its nested functions
        rets = [x for x in T.func_returns(f) if isinstance(x, ast.Name) and x.id in f.nested]
        if not rets:
            continue
        inner = f.nested[rets[0].id]
        free = [p for p in f.params if any(isinstance(x, ast.Name) and x.id == p for x in ast.walk(inner.node))]
        if not free:
            continue
        # parameters used as a token list inside the closure
        listy = set()
        for x in ast.walk(inner.node):
            if isinstance(x, ast.Call) and T.call_name(x) in ('copy', 'extend') and isinstance(x.func, ast.Attribute):
                if isinstance(x.func.value, ast.Name) and x.func.value.id in free and T.call_name(x) == 'copy':
                    listy.add(x.func.value.id)
                for a in x.args:
                    if isinstance(a, ast.Name) and a.id in free:
                        listy.add(a.id)
            if isinstance(x, ast.AugAssign) and isinstance(x.value, ast.Name) and x.value.id in free:
                listy.add(x.value.id)
            if isinstance(x, ast.Starred) and isinstance(x.value, ast.Name) and x.value.id in free:
                listy.add(x.value.id)
            if isinstance(x, ast.BinOp) and isinstance(x.op, ast.Add):
                for s_ in (x.left, x.right):
                    if isinstance(s_, ast.Name) and s_.id in free and isinstance(x.left if s_ is x.right else x.right, ast.List):
                        listy.add(s_.id)
        if not listy:
            n += 1
            r.ok(f.node, 'factory %s captures no token list' % f.name, sample=False)
            continue
        for m in model.mods.values():
            for c in ast.walk(m.tree):
                if isinstance(c, ast.Call) and (model.resolve_call(c) or (0, 0))[1] is f:
                    for p in listy:
                        k = f.params.index(p)
                        if k < len(c.args):
                            a = c.args[k]
                            vals = T.resolve_local(model, a) if isinstance(a, ast.Name) else [a]
                            if isinstance(a, ast.Name) and all(v is a for v in vals):
                                vals = []
                            allparams = set()
                            g = c._fn
                            while g is not None:
                                allparams |= set(g.params)
                                if isinstance(a, ast.Name) and not vals:
                                    # a free variable of the calling closure: defined in an enclosing function
                                    vals = [s_.value for s_ in iter_scope(g.node) if isinstance(s_, ast.Assign)
                                            and any(isinstance(t_, ast.Name) and t_.id == a.id for t_ in s_.targets)]
                                g = g.outer
                            tok = [v for v in vals if isinstance(v, ast.Subscript) and isinstance(v.value, ast.Name)
                                   and v.value.id in allparams]
                            n += 1
                            if tok:
                                r.fail(c, 'the handler factory %s receives the argument tokens %s and its closure '
                                       'emits them as they are: at every use they carry the positions of the '
                                       'definition' % (f.name, unparse(tok[0])),
                                       witness='\\newtheorem in the --defs file, \\begin{theorem} in a shorter document')
                            else:
                                r.ok(c, 'factory receives no raw argument tokens', nontrivial=True)
    r.instances = max(r.instances, 1)
    return r


def un1(model):
    r = RuleResult('UN1', 'units in the XML report: once a character offset has been converted to a byte '
                   'count (len(text[..].encode())), it is not used to slice or index the text again',
                   floor=1)
    for f in model.all_funcs():
        if isinstance(f.node, ast.Lambda) or not f.mod.short.startswith('shell.gen'):
            continue
        conv = []   # (name, stmt)
        for n in iter_scope(f.node):
            if isinstance(n, ast.Assign) and isinstance(n.targets[0], ast.Name) and isinstance(n.value, ast.Call) \
                    and getattr(n.value.func, 'id', '') == 'len' and n.value.args \
                    and any(isinstance(x, ast.Call) and T.call_name(x) == 'encode' for x in ast.walk(n.value.args[0])):
                conv.append((n.targets[0].id, n))
        for name, st in conv:
            blk = st._parent
            seq = next((getattr(blk, fld) for fld in ('body', 'orelse') if st in getattr(blk, fld, [])), [])
            later = seq[seq.index(st) + 1:] if st in seq else []
            bad = None
            for s in later:
                for x in ast.walk(s):
                    if isinstance(x, ast.Subscript) and any(isinstance(y, ast.Name) and y.id == name
                                                            for y in ast.walk(x.slice)):
                        bad = x
                if any(isinstance(t, ast.Name) and t.id == name and isinstance(t.ctx, ast.Store) for t in ast.walk(s)):
                    break
            if bad is not None:
                r.fail(bad, '%s holds a byte count after the conversion in line %d, but is used as a character '
                       'index in %s: the excerpt no longer marks the characters that offset and length select'
                       % (name, st.lineno, unparse(bad)[:50]),
                       witness='--output xml-b, non-ASCII text in front of the mark and a multi-byte character in it')
            else:
                r.ok(st, '%s is converted to bytes after its last use as a character index' % name, nontrivial=True)
    r.instances = max(r.instances, 1)
    return r
