"""RG1, RG2, IX1, IX2a: the macro / environment registry and its handlers
(DESIGN.md 3.8, 3.6)."""
import ast
import os
import re

from ..model import AnalysisError, unparse, iter_scope
from ..report import RuleResult
from ..callgraph import callgraph
from .. import guards
from .. import tables
from .. import tok as T

# hidden arguments (1-based numbers #k) of catalogue macros: labels, keys, file names,
# option lists, lengths, colours.  Written down from LaTeX semantics, not from the code.
HIDDEN = {
    '\\bibitem': {1}, '\\bibliographystyle': {1}, '\\footnotemark': {1}, '\\include': {1},
    '\\index': {1}, '\\input': {1}, '\\label': {1, 2}, '\\pagenumbering': {1}, '\\pageref': {1},
    '\\pagestyle': {1}, '\\ref': {1}, '\\thispagestyle': {1}, '\\vphantom': {1},
    '\\KOMAoption': {1}, '\\KOMAoptions': {1}, '\\eqref': {1}, '\\numberwithin': {1, 2},
    '\\theoremstyle': {1}, '\\newtheoremstyle': set(range(1, 10)), '\\ctikzset': {1},
    '\\crefname': {1, 2, 3}, '\\Crefname': {1, 2, 3}, '\\geometry': {1},
    '\\includegraphics': {1, 2}, '\\href': {1, 2}, '\\texorpdfstring': {2},
    '\\inputencoding': {1}, '\\lstinputlisting': {1, 2}, '\\lstset': {1}, '\\mathtoolsset': {1},
    '\\pgfplotsset': {1}, '\\tikzset': {1}, '\\usetikzlibrary': {1}, '\\unimathsetup': {1},
    '\\color': {1, 2}, '\\colorbox': {1, 2}, '\\definecolor': {1, 2, 3, 4}, '\\textcolor': {1, 2},
    '\\caption': {1}, '\\footnote': {1}, '\\footnotetext': {1}, '\\framebox': {1, 2},
    '\\vspace': {1, 2}, '\\glsdisp': {1, 2}, '\\glslink': {1, 2}, '\\addbibresource': {1, 2},
    '\\printbibliography': {1}, '\\setmathfont': {1, 2}, '\\fcolorbox': {1, 2, 3, 4},
    '\\LTalter': {1}, '\\LTskip': {1},
}
NEWCMD = re.compile(r'\\(?:re)?newcommand\{(\\[A-Za-z@]+)\}(?:\[(\d)\])?(?:\[([^\]]*)\])?\{(.*)\}\s*(?:%.*)?$')


def latex_defs(model):
    """(module, name, nargs, body, node) for every \\newcommand line in a string constant"""
    out = []
    for m in model.mods.values():
        for n in ast.walk(m.tree):
            if isinstance(n, ast.Constant) and isinstance(n.value, str) and '\\newcommand' in n.value:
                lines = n.value.split('\n')
                i = 0
                while i < len(lines):
                    l = lines[i].strip()
                    if l.startswith('\\newcommand') and l.count('{') > l.count('}'):
                        # definition spanning several lines (\par)
                        j = i + 1
                        while j < len(lines) and l.count('{') > l.count('}'):
                            l += '\n' + lines[j]
                            j += 1
                        i = j - 1
                    mm = NEWCMD.match(l.replace('\n', ' ')) if l.startswith('\\newcommand') else None
                    if mm:
                        out.append((m, mm.group(1), int(mm.group(2) or 0), mm.group(4), n))
                    i += 1
    return out


def _param_strings(model):
    """self.<attr> = '<literal>' in Parameters (macro_filter_add = '\\LTadd' ...)"""
    out = {}
    c = model.cls('parameters.Parameters')
    for f in c.methods.values():
        for n in ast.walk(f.node):
            if isinstance(n, ast.Assign) and isinstance(n.targets[0], ast.Attribute) \
                    and isinstance(n.value, ast.Constant) and isinstance(n.value.value, str):
                out[n.targets[0].attr] = n.value.value
    return out


def _entry_name(model, ent, pstr):
    n = ent['name']
    if n is None:
        return None
    v = tables.literal(n)
    if isinstance(v, str):
        return v
    if isinstance(n, ast.Attribute) and n.attr in pstr:
        return pstr[n.attr]
    if isinstance(n, ast.Name):
        vals = n._mod.globals.get(n.id)
        if vals and isinstance(vals[0], ast.Constant):
            return vals[0].value
    return None


def rg1(model):
    r = RuleResult('RG1', 'hidden arguments of catalogue macros (labels, keys, file names, option '
                   'lists, lengths, colours) do not occur in the replacement or extraction '
                   'template of the macro; the set of hidden arguments is written down from '
                   'LaTeX semantics', floor=40)
    pstr = _param_strings(model)
    for m, name, nargs, body, node in latex_defs(model):
        hid = HIDDEN.get(name)
        if not hid:
            r.ok(node, '%s: no hidden argument in the reference table' % name, sample=False)
            continue
        used = {int(x) for x in re.findall(r'#(\d)', body)}
        leak = sorted(used & hid)
        if leak:
            r.fail(node, 'the replacement of %s emits its hidden argument(s) %s: %r'
                   % (name, ', '.join('#%d' % k for k in leak), body),
                   mod=m.rel, fn='<table>', stmt='\\newcommand{%s}' % name,
                   witness='%s{secret-key} in running text' % name)
        else:
            r.ok_plain('%s hides %s' % (name, sorted(hid)), 'body %r references %s' % (body, sorted(used) or 'nothing'),
                       nontrivial=True)
    for ent in tables.registry(model):
        name = _entry_name(model, ent, pstr)
        hid = HIDDEN.get(name)
        if not hid:
            continue
        if ent['node']._fn is not None and ent['node']._fn.name == 'no_specials':
            r.exception('%s in no_specials' % name, 'option --nosp deactivates the special macros on purpose')
            continue
        for what, e in (('replacement', ent['repl']), ('extraction template', ent['kw'].get('extract'))):
            v = tables.literal(e) if e is not None else None
            if isinstance(v, str):
                used = {int(x) for x in re.findall(r'#(\d)', v)}
                leak = sorted(used & hid)
                if leak:
                    r.fail(ent['node'], 'the %s of %s emits its hidden argument(s) %s'
                           % (what, name, ', '.join('#%d' % k for k in leak)))
                else:
                    r.ok(ent['node'], '%s: %s %r does not reference hidden %s' % (name, what, v, sorted(hid)),
                         nontrivial=True, sample=False)
    return r


def catalogue(model):
    """sections of list-of-macros.md: list of (source file, macros, environments)"""
    p = os.path.join(model.repo, 'list-of-macros.md')
    if not os.path.exists(p):
        return None
    txt = open(p, encoding='utf-8').read()
    secs = []
    for sec in re.split(r'\n## ', txt)[1:]:
        src = re.search(r'Source: \[([^\]]+)\]', sec)
        if not src:
            continue
        def names(kind):
            mm = re.search(r'\*\*%s\*\*(.*?)(?=\n\*\*|\n\[Back|\Z)' % kind, sec, re.S)
            if not mm:
                return []
            body = mm.group(1).replace('\\(\\*\\)', '').replace('\\*', '*')
            prev = None
            while prev != body:
                prev = body
                body = re.sub(r'\([^()]*\)', '', body)
            out = []
            for item in body.replace('\n', ' ').split(','):
                item = item.strip().replace('\\\\', '\\').replace('\\_', '_')
                if not item:
                    continue
                w = item.split()[0]
                if re.match(r'^\\?[A-Za-z@]+\*?$', w) and (kind != 'Macros' or w.startswith('\\')):
                    out.append(w)
            return out
        secs.append((src.group(1).replace('\\_', '_'), names('Macros'), names('Environments')))
    return secs


def rg2(model):
    r = RuleResult('RG2', 'every macro and environment of the catalogue list-of-macros.md is '
                   'declared by the module the catalogue names as its source', floor=100)
    secs = catalogue(model)
    if secs is None:
        r.undec(model.mod('parameters').tree, 'list-of-macros.md not present next to the package')
        r.instances = max(r.instances, r.floor)
        return r
    pstr = _param_strings(model)
    decl = {}
    for m, name, nargs, body, node in latex_defs(model):
        decl.setdefault(m.rel, set()).add(name)
    opaque = set()      # modules with declarations whose name is computed (table-driven loops)
    for ent in tables.registry(model):
        name = _entry_name(model, ent, pstr)
        if name:
            decl.setdefault(ent['node']._mod.rel, set()).add(name)
        elif ent['name'] is not None and not isinstance(ent['name'], ast.Constant):
            opaque.add(ent['node']._mod.rel)
            # string literals of the module are candidates for the computed names
    # names registered through helper tables (cleveref loops)
    for m in model.mods.values():
        for n in ast.walk(m.tree):
            if isinstance(n, ast.For) and isinstance(n.iter, ast.List) \
                    and all(isinstance(x, ast.Constant) for x in n.iter.elts):
                for x in n.iter.elts:
                    decl.setdefault(m.rel, set()).add(x.value)
    accents, anode = tables.parameters_table(model, 'accent_macros')
    for src, macros, envs in secs:
        have = decl.get(src, set()) | (set(accents or ()) if src.endswith('parameters.py') else set())
        if src.endswith('parameters.py'):
            have |= {'\\item', '\\begin', '\\end', '\\verb', '\\def', '\\LTinput'}
        # names registered by other means: text macros of the maths parser
        for n in ast.walk(model.mods[[m for m in model.mods if model.mods[m].rel == src][0]].tree) \
                if any(model.mods[m].rel == src for m in model.mods) else []:
            if isinstance(n, ast.Call) and T.call_name(n) == 'append' and n.args \
                    and isinstance(n.args[0], ast.Constant) and isinstance(n.args[0].value, str):
                have.add(n.args[0].value)
        for name in macros + envs:
            if name in have or (name.startswith('\\') and name.rstrip('*') in have):
                r.ok_plain('%s declared in %s' % (name, src), 'registry / \\newcommand table')
            elif src in opaque:
                r.undec(model.mod('parameters').tree, 'catalogue entry %s of %s: the module declares macros '
                        'with computed names (table-driven), which are not enumerated' % (name, src))
            else:
                r.fail(model.mod('parameters').tree, 'catalogue entry %s is not declared by %s: it is '
                       'treated as unknown (its hidden arguments are copied to the output)' % (name, src),
                       mod=src, fn='<catalogue>', stmt='declaration of ' + name,
                       witness='%s{key} in running text' % name)
    return r


def ix1(model):
    r = RuleResult('IX1', 'handler / registry agreement: a handler indexes args[k] only for k < '
                   'len(argument code) of every entry naming it; an element of an optional or '
                   'star argument (code O, *) is accessed only under a truth / length test of '
                   'that argument; end handlers (called with no arguments) index nothing', floor=25)
    cg = callgraph(model)
    pstr = _param_strings(model)
    uses = {}       # handler qname -> list of (entry, code, kind)
    for ent in tables.registry(model):
        code = tables.literal(ent['args']) if ent['args'] is not None else ''
        for kw in ('repl', 'end_func'):
            v = ent['repl'] if kw == 'repl' else ent['kw'].get('end_func')
            if v is None or isinstance(v, ast.Constant):
                continue
            for f in cg.func_value(v):
                uses.setdefault(f.qname, []).append((ent, code, kw))
    for q, lst in sorted(uses.items()):
        f = model.funcs[q]
        if len(f.params) < 4:
            continue
        argpar = f.params[3]
        alias = {}
        for n in iter_scope(f.node):
            if isinstance(n, ast.Assign) and isinstance(n.targets[0], ast.Name) \
                    and isinstance(n.value, ast.Subscript) and isinstance(n.value.value, ast.Name) \
                    and n.value.value.id == argpar and isinstance(n.value.slice, ast.Constant):
                alias[n.targets[0].id] = n.value.slice.value
        for n in iter_scope(f.node):
            if not (isinstance(n, ast.Subscript) and isinstance(n.ctx, ast.Load)):
                continue
            k = None
            inner = False
            if isinstance(n.value, ast.Name) and n.value.id == argpar and isinstance(n.slice, ast.Constant):
                k = n.slice.value
            elif isinstance(n.value, ast.Subscript) and isinstance(n.value.value, ast.Name) \
                    and n.value.value.id == argpar and isinstance(n.value.slice, ast.Constant) \
                    and not isinstance(n.slice, ast.Slice):
                k, inner = n.value.slice.value, True
            elif isinstance(n.value, ast.Name) and n.value.id in alias and not isinstance(n.slice, ast.Slice):
                # the alias must be the only definition reaching this use
                from ..rdefs import reachdefs
                ds = reachdefs(f).defs_of(n.value)
                if all(kind == 'assign' and isinstance(node, ast.Subscript) for kind, _, node in ds):
                    k, inner = alias[n.value.id], True
            if k is None or not isinstance(k, int):
                continue
            for ent, code, kw in lst:
                name = _entry_name(model, ent, pstr) or unparse(ent['name'])[:20]
                if kw == 'end_func':
                    r.fail(n, 'end handler %s indexes its argument list, which is always empty' % f.name)
                    continue
                if not isinstance(code, str):
                    continue
                if k >= len(code):
                    r.fail(n, '%s uses args[%d], but %s is declared with the argument code %r'
                           % (f.name, k, name, code), witness='any use of %s' % name)
                    continue
                if not inner:
                    r.ok(n, 'args[%d] within code %r of %s' % (k, code, name), sample=False)
                    continue
                if code[k] == 'A':
                    r.ok(n, 'element of a mandatory argument (never empty: IX2a)', sample=False)
                    continue
                base = unparse(n.value)
                def pred(e, t):
                    if t and unparse(e) in (base, '%s[%d]' % (argpar, k)):
                        return True
                    if isinstance(e, ast.Compare) and isinstance(e.left, ast.Call) \
                            and getattr(e.left.func, 'id', '') == 'len' \
                            and unparse(e.left.args[0]) in (base, '%s[%d]' % (argpar, k)):
                        return True
                    return False
                if guards.has_fact(n, pred):
                    r.ok(n, 'element of optional argument %d of %s under a truth / length test' % (k, name),
                         nontrivial=True)
                else:
                    r.fail(n, '%s accesses an element of the optional argument %d of %s without '
                           'testing that it is present: IndexError when it is omitted' % (f.name, k, name),
                           witness='%s without its optional argument' % name)
    return r


def ix2a(model):
    r = RuleResult('IX2a', 'an argument is never empty: every return of arg_buffer yields a '
                   'buffer over at least one token, and expand_arguments gives every mandatory '
                   'argument (code A) the tokens of arg_buffer or a VoidToken', floor=3)
    f = model.func('parser.Parser.arg_buffer')
    for n in iter_scope(f.node):
        if isinstance(n, ast.Return):
            v = n.value
            arg = v.args[0] if isinstance(v, ast.Call) and v.args else None
            if isinstance(arg, ast.List) and arg.elts:
                r.ok(n, 'buffer over a non-empty list display')
            elif isinstance(arg, ast.BoolOp) and isinstance(arg.op, ast.Or) \
                    and isinstance(arg.values[-1], ast.List) and arg.values[-1].elts:
                r.ok(n, '`collected or [VoidToken]`: never empty', nontrivial=True)
            elif isinstance(arg, ast.Name):
                blk = _block(n)
                i = blk.index(n)
                fix = [s for s in blk[:i] if isinstance(s, ast.If) and isinstance(s.test, ast.UnaryOp)
                       and isinstance(s.test.op, ast.Not) and unparse(s.test.operand) == arg.id
                       and any(isinstance(x, ast.Assign) and unparse(x.targets[0]) == arg.id
                               and isinstance(x.value, ast.List) and x.value.elts for x in s.body)]
                if fix:
                    r.ok(n, 'an empty collection is replaced by [VoidToken] before the return', nontrivial=True)
                else:
                    r.fail(n, 'arg_buffer can return an empty buffer: handlers index args[k][-1] '
                           'of mandatory arguments without a test',
                           witness='\\section{} or an empty option []')
            else:
                r.fail(n, 'arg_buffer returns something else than a buffer over a token list')
    ea = model.func('parser.Parser.expand_arguments')
    for n in iter_scope(ea.node):
        if isinstance(n, ast.If) and "== 'A'" in unparse(n.test):
            assigns = [x for s in n.body for x in ast.walk(s) if isinstance(x, ast.Assign)]
            good = bool(assigns)
            for a in assigns:
                v = a.value
                if isinstance(v, ast.List) and v.elts:
                    continue
                if isinstance(v, ast.Call) and T.call_name(v) == 'all' and isinstance(v.func.value, ast.Call) \
                        and T.call_name(v.func.value) == 'arg_buffer':
                    continue
                if isinstance(v, ast.Constant):
                    continue
                good = False
            if good:
                r.ok(n, 'a mandatory argument is [VoidToken] or the tokens of arg_buffer', nontrivial=True)
            else:
                r.fail(n, 'a mandatory argument may be empty')
    return r


def _block(stmt):
    p = stmt._parent
    for field in ('body', 'orelse', 'finalbody'):
        seq = getattr(p, field, None)
        if isinstance(seq, list) and stmt in seq:
            return seq
    return [stmt]
