"""PD6: anchoring and progress of the scanner (DESIGN.md 3.1).

Scanner.next_token and everything it tail-calls is evaluated symbolically (affine terms over
the entry position S = self.pos, the text length M, and opaque search results with their
bounds).  For every token returned:
  (A) anchoring   its position equals the lower bound of the source slice its text is
                  taken from (index form: the index; startswith form: the offset tested),
  (B) coverage    the text ends at or before the new scan position,
  (C) progress    the new scan position is greater than S (the scan loop terminates),
  (D) order       the text starts at or after S (no overlap with earlier tokens).
Error tokens (pinned) need (C) only."""
import ast

from ..model import AnalysisError, unparse, iter_scope
from ..report import RuleResult
from ..affine import Aff
from ..symlen import SymEval, State, Int, Seq, Obj, Tup, fresh
from .. import guards
from .. import tok as T
from .. import normalize


class TokVal:
    def __init__(self, cls, pos, txt, call, pinned):
        self.cls, self.pos, self.txt, self.call, self.pinned = cls, pos, txt, call, pinned

    def __eq__(self, o):
        return self is o


class ScanEval(SymEval):
    def __init__(self, model, func, sink, depth=0, idxlog=None):
        super().__init__(model, func)
        self.sink = sink        # list of (TokVal | None, state, return node, func)
        self.depth = depth
        self.idxlog = idxlog if idxlog is not None else []   # every evaluation of a subscript x[i]

    def ev_Subscript(self, e, st):
        v = super().ev_Subscript(e, st)
        rec = self.indexes.get(id(e))
        if rec is not None and not isinstance(e.slice, ast.Slice):
            self.idxlog.append(rec + (self.func,))
        return v

    def ev_Attribute(self, e, st):
        return super().ev_Attribute(e, st)

    def ev_Call(self, e, st):
        cls = T.token_ctor(self.model, e)
        if cls is not None:
            a = T.ctor_args(self.model, e, cls)
            pos = self.as_int(self.ev(a['pos'], st), st) if a.get('pos') is not None else None
            tn = 'txt' if 'txt' in a else ('text' if 'text' in a else None)
            txt = self.ev(a[tn], st) if tn and a.get(tn) is not None else None
            fix = a.get('pos_fix')
            for k, v in a.items():
                if k not in ('pos', tn, 'pos_fix') and v is not None:
                    self.ev(v, st)
            return TokVal(cls, pos, txt, e, fix is not None and T.is_const(fix, True))
        gen = e.args[0] if isinstance(e.func, ast.Name) and e.func.id == 'next' and e.args else None
        if isinstance(gen, ast.Name):
            # a generator expression bound to a local name just before: matching = (t for ...); next(matching, None)
            gv = T.resolve_local(self.model, gen)
            gen = gv[0] if len(gv) == 1 and isinstance(gv[0], ast.GeneratorExp) else None
        if isinstance(gen, ast.GeneratorExp):
            g = gen.generators[0]
            if isinstance(g.iter, ast.Attribute) and 'special' in g.iter.attr \
                    and isinstance(gen.elt, ast.Name) and isinstance(g.target, ast.Name) \
                    and gen.elt.id == g.target.id:
                off = None
                for c in g.ifs:
                    if isinstance(c, ast.Call) and isinstance(c.func, ast.Attribute) \
                            and c.func.attr == 'startswith' and len(c.args) == 2 \
                            and isinstance(c.args[0], ast.Name) and c.args[0].id == g.target.id:
                        off = self.as_int(self.ev(c.args[1], st), st)
                if off is not None:
                    n = Aff.atom(('len', fresh('special')))
                    st.facts = st.facts.add(n - 1)
                    return Seq(n, 'str', ('specialat', off))
        r = self.model.resolve_call(e)
        if not r and isinstance(e.func, (ast.Name, ast.Subscript)):
            from ..model import dispatch_targets
            tg = dispatch_targets(self.model, e, T.resolve_local)
            if tg and isinstance(e._parent, ast.Return) and all(t.mod.short == 'scanner' for t in tg) \
                    and self.depth <= 6:
                # dispatch table of scan methods, called in tail position: every entry is a
                # possible continuation of this path
                args = [self.ev(x, st) for x in e.args]
                allret = []
                for callee in tg:
                    sub = ScanEval(self.model, callee, self.sink, self.depth + 1, self.idxlog)
                    cst = st.copy()
                    params = callee.params[1:] if callee.cls is not None and callee.outer is None else callee.params
                    cst.vars = {k: v for k, v in cst.vars.items() if '.' in k}
                    for p, v in zip(params, args):
                        cst.vars[p] = v
                    sub.run(normalize.sunk_body(callee), cst)
                    self.searches.extend(sub.searches)
                    allret += sub.ret_states
                return ('tail', allret)
        if not r and isinstance(e.func, ast.Name) and (self.model.resolve_symbol(e._mod, e._fn, e.func) is None) \
                and T.resolve_local(self.model, e.func):
            # a call through a local variable that cannot be resolved may move the scan position
            for a in e.args:
                self.ev(a, st)
            st.vars['self.pos'] = Int(Aff.atom(fresh('call')))
            return Obj(fresh('call'))
        if r and r[0] == 'func' and (r[1].cls is self.func.cls or r[1].outer is not None) \
                and r[1].mod.short == 'scanner' and r[1].name != 'scan':
            callee = r[1]
            if self.depth > 6:
                return Obj(fresh('call'))     # recursion: not followed (imprecise, undecided)
            args = [self.ev(x, st) for x in e.args]
            is_tail = isinstance(e._parent, ast.Return)
            sub = ScanEval(self.model, callee, self.sink if is_tail else [], self.depth + 1, self.idxlog)
            cst = st.copy()
            params = callee.params[1:] if callee.cls is not None and callee.outer is None else callee.params
            # closures see the variables of the enclosing call
            if callee.outer is None:
                keep = {k: v for k, v in cst.vars.items() if '.' in k}
                cst.vars = keep
            for p, v in zip(params, args):
                cst.vars[p] = v
            sub.run(normalize.sunk_body(callee), cst)
            self.searches.extend(sub.searches)
            if not is_tail:
                # the call's tokens are not returned by next_token; its effect on the scan
                # position is what all its exits agree on (else unknown)
                poss = [s2.vars.get('self.pos') for n, v, s2 in sub.ret_states]
                if poss and all(isinstance(p, Int) and p == poss[0] for p in poss):
                    st.vars['self.pos'] = poss[0]
                    st.facts = sub.ret_states[0][2].facts
                else:
                    st.vars['self.pos'] = Int(Aff.atom(fresh('call')))
                vals = [v for n, v, s in sub.ret_states if v is not None]
                return vals[0] if len(vals) == 1 else Obj(fresh('call'))
            return ('tail', sub.ret_states)
        return super().ev_Call(e, st)

    def run(self, body, st):
        # path-sensitive over the whole body (bodies are short; no join at if-merges)
        for out in self.paths(list(body), st):
            self.returns.append((None, out))
            self.on_return(None, out)

    def on_return(self, node, st):
        v = None
        if node is not None and node.value is not None:
            v = self.ev(node.value, st)
        self.ret_states.append((node, v, st))
        if isinstance(v, tuple) and v and v[0] == 'tail':
            return      # recorded by the callee
        self.sink.append((v, st, node, self.func))

    def for_item(self, s, itv, st):
        # loop over the sorted special tokens: non-empty strings (IX4)
        if isinstance(s.iter, ast.Attribute) and 'special' in s.iter.attr:
            n = Aff.atom(('len', fresh('special')))
            st.facts = st.facts.add(n - 1)
            return Seq(n, 'str', ('special',))
        return None


def _imprecise(a):
    """does the term contain atoms that stand for lost precision (havocked loop variables
    without invariant, joins, results of calls the evaluator does not model) rather than for
    program values with known bounds (S, len(latex), find / next results, literals)?"""
    for atom in a.t:
        kind = atom[0] if isinstance(atom, tuple) and atom else atom
        if kind in ('hv', 'phi', 'join', 'call', 'expr', 'item', 'unpack', 'aug', 'ifexp'):
            return True
        if kind == 'int' and atom != ('int', 'S'):
            return True
        if kind == 'len' and len(atom) == 2 and isinstance(atom[1], tuple) \
                and atom[1] and atom[1][0] in ('call', 'hv', 'join', 'expr'):
            return True
        if kind == 'len' and len(atom) == 2 and isinstance(atom[1], str) and atom[1] != 'latex':
            return True
    return False


def pd6(model):
    r = RuleResult('PD6', 'scanner: every token is anchored (its position is the lower bound of '
                   'the source slice its text is taken from), its text ends at or before the new '
                   'scan position, and every path of next_token advances the scan position '
                   '(symbolic evaluation with bounds of next()/find() results)', floor=12)
    nt = model.func('scanner.Scanner.next_token')
    sc = model.func('scanner.Scanner.scan')
    # scan(): loop `while self.pos < self.max_pos` appends next_token(); max_pos = len(latex)
    ok_loop = False
    for n in iter_scope(sc.node):
        if isinstance(n, ast.While) and unparse(n.test) in ('self.pos < self.max_pos',):
            ok_loop = True
    if not ok_loop:
        r.undec(sc.node, 'scan loop not of the form `while self.pos < self.max_pos`')
    sink = []
    ev = ScanEval(model, nt, sink)
    st = State()
    S = Aff.atom(('int', 'S'))
    M = Aff.atom(('len', 'latex'))
    st.vars['self.pos'] = Int(S)
    st.vars['self.max_pos'] = Int(M)
    st.vars['self.latex'] = Seq(M, 'str')
    st.facts = st.facts.add(S, M - S - 1)
    ev.run(normalize.sunk_body(nt), st)
    if not sink:
        raise AnalysisError('anchor vanished: next_token returns nothing')
    for v, rst, node, fn in sink:
        where = node if node is not None else fn.node
        cur = rst.vars.get('self.pos')
        cur = cur.a if isinstance(cur, Int) else None
        f = rst.facts
        if cur is None:
            r.fail(where, 'the scan position is not an integer term on this return path')
            continue
        # (C) progress
        if f.prove_ge0(cur - S - 1):
            r.ok(where, 'progress: new scan position %r > start' % cur, nontrivial=True, sample=False)
        elif _imprecise(cur):
            r.undec(where, 'scan position %r contains values the analysis could not bound' % cur)
        else:
            r.fail(where, 'on this path the scan position %r is not provably beyond the start of '
                   'the token: the scan loop may not terminate or may move backwards' % cur,
                   witness='input that ends inside this construct (e.g. a % comment in the last '
                           'line without a line break)')
        if not isinstance(v, TokVal):
            if v is None or isinstance(v, Obj):
                r.undec(where, 'return value is not a token constructor call')
            continue
        if v.pinned:
            r.ok(v.call, 'pinned error token', sample=False)
            continue
        txt = v.txt
        desc = getattr(txt, 'desc', None)
        lo = hi = None
        if desc and desc[0] == 'slice' and desc[3] in ('latex', 'self.latex'):
            lo, hi = desc[1], desc[2]
        elif desc and desc[0] == 'index' and desc[2] in ('latex', 'self.latex'):
            lo, hi = desc[1], desc[1] + 1
        elif desc and desc[0] == 'specialat':
            lo, hi = desc[1], desc[1] + ev.length(txt, rst)
        elif desc and desc[0] == 'special':
            # text is the loop variable t with the guard latex.startswith(t, start)
            off = None
            for e, t in guards.facts(v.call):
                if t and isinstance(e, ast.Call) and isinstance(e.func, ast.Attribute) \
                        and e.func.attr == 'startswith' and len(e.args) == 2:
                    off = ev.as_int(ev.ev(e.args[1], rst), rst)
            if off is not None:
                lo, hi = off, off + ev.length(txt, rst)
        if lo is None and (txt is None or isinstance(txt, Obj) or (isinstance(txt, Seq) and desc is None
                                                                 and _imprecise(txt.n))):
            r.undec(v.call, 'the text of the token comes from a value the analysis could not follow: %s'
                    % unparse(v.call)[:80])
            continue
        if lo is None:
            r.fail(v.call, 'the text of the token is not a slice of the scanned text: %s'
                   % unparse(v.call)[:80])
            continue
        if v.pos is not None and f.prove_eq(v.pos, lo):
            r.ok(v.call, 'anchored: position %r is the start of its text' % lo, nontrivial=True)
        elif v.pos is None or _imprecise(v.pos) or _imprecise(lo):
            r.undec(v.call, 'position / text start contain values the analysis could not bound')
        else:
            r.fail(v.call, 'token position %r is not the start %r of the source slice its text is '
                   'taken from: every character of it maps to a wrong offset' % (v.pos, lo),
                   witness='any document containing this construct')
        if f.prove_ge0(cur - hi):
            r.ok(v.call, 'text ends at %r <= new scan position' % hi, nontrivial=True, sample=False)
        elif _imprecise(cur) or _imprecise(hi):
            r.undec(v.call, 'end of text / scan position not bounded by the analysis')
        else:
            r.fail(v.call, 'the text of the token may extend beyond the new scan position: '
                   'characters would be scanned twice')
        if f.prove_ge0(lo - S):
            r.ok(v.call, 'text starts at or after the start of the token', sample=False)
        elif _imprecise(lo):
            r.undec(v.call, 'start of text not bounded by the analysis')
        else:
            r.fail(v.call, 'the text of the token may start before the current scan position')
    return r


def sp4(model):
    """fast paths of the scanner"""
    import re._parser as sre_parse
    import re._constants as sre_c
    from .. import tables
    r = RuleResult('SP4', 'tokens enter the token list of Scanner.scan only through next_token(), '
                   'or through a fast path whose character class provably excludes every '
                   'character that can start a special sequence, macro, comment, argument '
                   'reference, blank or language shorthand', floor=1)
    sc = model.func('scanner.Scanner.scan')
    tab, node = tables.parameters_table(model, 'special_tokens')
    need = set(k[0] for k in tab if isinstance(k, str) and k) | set('\\%#') | set(' \t\n\r\x0b\x0c')
    for call, kw in tables.language_settings(model):
        sm = tables.literal(kw['short_macros']) if kw.get('short_macros') is not None else None
        if isinstance(sm, dict):
            need |= {k[0] for k in sm if k}
    other = []
    for n in iter_scope(sc.node):
        if isinstance(n, ast.Call) and isinstance(n.func, ast.Attribute) \
                and n.func.attr in ('append', 'extend', 'insert') and n.args:
            a = n.args[-1]
            if isinstance(a, ast.Call) and T.call_name(a) == 'next_token':
                r.ok(n, 'token obtained from next_token()')
            elif isinstance(a, ast.Name) and all(
                    isinstance(v, ast.Call) and T.call_name(v) == 'next_token'
                    for v in T.resolve_local(model, a)):
                r.ok(n, 'token obtained from next_token()')
            else:
                other.append(n)
    if not other:
        return r
    # a fast path: find the regular expressions of the scanner
    pats = []
    for f in model.cls('scanner.Scanner').methods.values():
        for n in ast.walk(f.node):
            if isinstance(n, ast.Call) and unparse(n.func) in ('re.compile', 're.match', 're.search') \
                    and n.args and isinstance(n.args[0], ast.Constant) and isinstance(n.args[0].value, str):
                pats.append((n, n.args[0].value))
    if not pats:
        for n in other:
            r.undec(n, 'tokens are added outside next_token(); no character class to check')
        return r
    for n, pat in pats:
        try:
            tree = sre_parse.parse(pat)
        except Exception:
            r.undec(n, 'pattern not parsed')
            continue
        items = list(tree)
        if len(items) == 1 and items[0][0] in (sre_c.MAX_REPEAT, sre_c.MIN_REPEAT):
            sub = list(items[0][1][2])
            if len(sub) == 1 and sub[0][0] is sre_c.IN:
                cls = sub[0][1]
                negated = cls and cls[0][0] is sre_c.NEGATE
                import re as _re
                rx = _re.compile('[' + pat[pat.index('[') + 1:pat.rindex(']')] + ']')
                missing = sorted(c for c in need if rx.match(c))
                if negated and not missing:
                    r.ok(n, 'character class excludes all %d active first characters' % len(need),
                         nontrivial=True)
                elif negated:
                    r.fail(n, 'the plain-text fast path of the scanner also swallows %s, which can '
                           'start a special sequence: it is copied unchanged instead of being '
                           'replaced' % ', '.join(repr(c) for c in missing),
                           witness='a%sb' % missing[0])
                else:
                    r.undec(n, 'positive character class')
                continue
        r.undec(n, 'pattern shape not recognised')
    return r


def sc5(model):
    from ..own import Summaries
    r = RuleResult('SC5', 'no scanned token is discarded: inside the scanner, the result of a '
                   'method that scans a token is always returned or appended, never dropped (a '
                   'dropped token means its source text was merged into the surrounding token, '
                   'e.g. a second comment line hidden inside a comment token, where the LT-SKIP '
                   'markers are no longer seen)', floor=5)
    summ = Summaries(model)
    cls = model.cls('scanner.Scanner')
    token_methods = {f.qname for f in cls.methods.values() if summ.returns(f) == 'own'}
    for f in cls.methods.values():
        for n in ast.walk(f.node):
            if not isinstance(n, ast.Call):
                continue
            rc = model.resolve_call(n)
            if not (rc and rc[0] == 'func' and rc[1].qname in token_methods):
                continue
            p = n._parent
            if isinstance(p, ast.Expr):
                r.fail(n, 'the token scanned by %s() is dropped: its text becomes part of the '
                       'enclosing token (two comment lines in one token hide %%%% LT-SKIP markers)'
                       % rc[1].name,
                       witness='an ordinary % comment line directly before %%% LT-SKIP-END')
            else:
                r.ok(n, 'token scanned by %s() is %s' % (rc[1].name, type(p).__name__.lower() + 'ed'
                                                        if isinstance(p, ast.Return) else 'used'),
                     sample=False)
    # (b) scan_comment does not loop over comment lines: the caller has decided that a comment
    # starts; a loop that tests for a further '%' joins the next comment line into this token
    sc = cls.methods.get('scan_comment')
    if sc is None:
        raise AnalysisError('anchor vanished: Scanner.scan_comment')
    loops = [n for n in ast.walk(sc.node) if isinstance(n, (ast.While, ast.For))]
    hit = None
    for lp in loops:
        for x in ast.walk(lp):
            if isinstance(x, ast.Compare) and any(isinstance(c, ast.Constant) and c.value == '%'
                                                  for c in [x.left] + x.comparators):
                hit = hit or lp
            if isinstance(x, ast.Call) and T.call_name(x) in ('startswith',) and x.args \
                    and isinstance(x.args[0], ast.Constant) and x.args[0].value == '%':
                hit = hit or lp
    if hit is not None:
        r.fail(hit, 'scan_comment loops over directly following comment lines: they become part '
               'of one comment token, where the %%% LT-SKIP markers are no longer seen and the '
               'text between them is not skipped',
               witness='an ordinary % comment line directly before %%% LT-SKIP-BEGIN')
    else:
        r.ok(sc.node, 'scan_comment handles one comment line', nontrivial=True)
    return r


# ----------------------------------------------------------------------------- IX19
def ix19(model):
    r = RuleResult('IX19', 'scanner: every character access latex[i] that next_token and the methods it calls '
                   'evaluate outside a search generator has 0 <= i < len(latex) on its path (facts: the scan '
                   'loop calls next_token with pos < max_pos = len(latex); short-circuit tests; bounds of '
                   'next()/find() results)', floor=3)
    nt = model.func('scanner.Scanner.next_token')
    sink = []
    ev = ScanEval(model, nt, sink)
    st = State()
    S = Aff.atom(('int', 'S'))
    M = Aff.atom(('len', 'latex'))
    st.vars['self.pos'] = Int(S)
    st.vars['self.max_pos'] = Int(M)
    st.vars['self.latex'] = Seq(M, 'str')
    st.facts = st.facts.add(S, M - S - 1)
    ev.run(normalize.sunk_body(nt), st)
    seen = {}
    for node, L, ia, ist, fn in ev.idxlog:
        if not ist.facts.prove_eq(L, M):
            continue        # not an access to the scanned text
        ok = ist.facts.prove_ge0(ia) and ist.facts.prove_ge0(L - ia - 1)
        if not ok and not _imprecise(ia):
            # the bounds the analysis has for the index are themselves built from values it lost (joins, loops)
            atoms = set(ia.t)
            if any(atoms & set(fct.t) and _imprecise(fct) for fct in ist.facts.facts):
                ok = None
        prev = seen.get(id(node))
        if prev is None:
            seen[id(node)] = [node, ok, ia, fn]
        elif ok is False or (ok is None and prev[1] is True):
            prev[1] = ok
            prev[2] = ia
    for node, ok, ia, fn in seen.values():
        if ok:
            r.ok(node, 'index %r inside the text on every path' % ia, nontrivial=True)
        elif ok is None or _imprecise(ia):
            r.undec(node, 'index %r contains values the analysis could not bound' % ia)
        else:
            r.fail(node, '%s: the index %r is not provably inside the scanned text on a path that reaches '
                   'this access: IndexError when the text ends here' % (fn.qname, ia),
                   witness='a text that ends directly behind this construct (truncated document)')
    return r


# ----------------------------------------------------------------------------- VB1
def vb1(model):
    r = RuleResult('VB1', 'a \\verb argument ends at the first occurrence of its delimiter behind the opening one: '
                   'the search whose result ends the text of the VerbatimToken starts exactly where that text '
                   'starts (one character later, an empty argument \\verb|| runs on to the next delimiter)', floor=1)
    nt = model.func('scanner.Scanner.next_token')
    sink = []
    ev = ScanEval(model, nt, sink)
    st = State()
    S = Aff.atom(('int', 'S'))
    M = Aff.atom(('len', 'latex'))
    st.vars['self.pos'] = Int(S)
    st.vars['self.max_pos'] = Int(M)
    st.vars['self.latex'] = Seq(M, 'str')
    st.facts = st.facts.add(S, M - S - 1)
    ev.run(normalize.sunk_body(nt), st)
    seen = set()
    for v, rst, node, fn in sink:
        if not (isinstance(v, TokVal) and v.cls is not None and getattr(v.cls, 'name', '') == 'VerbatimToken'
                and fn.name == 'scan_verb' and not v.pinned):
            continue
        desc = getattr(v.txt, 'desc', None)
        if not (desc and desc[0] == 'slice'):
            r.undec(v.call, 'text of the \\verb token is not a slice of the scanned text')
            r.instances += 1
            continue
        lo, hi = desc[1], desc[2]
        recs = [(e, slo, shi, d, a, sst) for (e, slo, shi, d, a, sst) in ev.searches if a.t.keys() & hi.t.keys()]
        if not recs:
            r.undec(v.call, 'end of the \\verb text is not the result of a search the analysis follows')
            r.instances += 1
            continue
        key = (id(v.call), tuple(sorted(repr(x[4]) for x in recs)))
        if key in seen:
            continue
        seen.add(key)
        e, slo, shi, d, a, sst = recs[-1]
        if rst.facts.prove_eq(slo, lo):
            r.ok(v.call, 'search for the closing delimiter starts at the start %r of the text' % lo, nontrivial=True)
        else:
            r.fail(e, 'the search for the closing delimiter starts at %r, the text of the \\verb argument at %r: '
                   'a delimiter in between is not seen' % (slo, lo), witness='\\verb|| and \\input{x} |')
    return r
