"""Rules added after the third round of seeded defects (DESIGN.md section 6): SP5, SP6, IX11-IX14,
ML7, RP2, OK6, MC1, LC3, CK6, RX5, TH5."""
import ast
import io
import re
import tokenize

from ..model import AnalysisError, unparse, iter_scope
from ..report import RuleResult
from ..callgraph import callgraph
from .. import guards
from .. import tables
from .. import tok as T
from .em import dominating_stmts
from .rg import latex_defs, _param_strings, _entry_name


# ----------------------------------------------------------------------------- SP5 / SP6
def sp5(model):
    r = RuleResult('SP5', 'every character for which the scanner itself makes a SpecialToken is a '
                   'key of special_tokens (the token is later looked up there), and macro names '
                   'consist of ASCII letters and @ only', floor=1)
    tab, node = tables.parameters_table(model, 'special_tokens')
    nt = model.func('scanner.Scanner.next_token')
    cls = model.cls('scanner.Scanner')
    makers = {}
    for f in cls.methods.values():
        for n in ast.walk(f.node):
            if isinstance(n, ast.Call) and T.call_name(n) == 'SpecialToken' and len(n.args) >= 2 \
                    and isinstance(n.args[1], ast.Subscript) and not isinstance(n.args[1].slice, ast.Slice):
                makers[f.name] = n
    for n in ast.walk(nt.node):
        if isinstance(n, ast.If) and isinstance(n.test, ast.Compare) and isinstance(n.test.ops[0], ast.Eq) \
                and isinstance(n.test.comparators[0], ast.Constant):
            ch = n.test.comparators[0].value
            for c in (x for b in n.body for x in ast.walk(b)):
                if isinstance(c, ast.Call) and T.call_name(c) in makers:
                    if ch in tab:
                        r.ok(n, 'character %r handled by %s is a key of special_tokens' % (ch, T.call_name(c)),
                             nontrivial=True)
                    else:
                        r.fail(makers[T.call_name(c)], 'the scanner makes a SpecialToken for %r, which is '
                               'not a key of special_tokens: KeyError when it is expanded' % ch,
                               witness='a stray %s in the text' % ch)
    # the same dispatch as a table: {'#': self.scan_arg_token, ...}.get(c)
    for d in ast.walk(nt.node):
        if isinstance(d, ast.Dict):
            for k, v in zip(d.keys, d.values):
                if isinstance(k, ast.Constant) and isinstance(v, ast.Attribute) and v.attr in makers:
                    if k.value in tab:
                        r.ok(d, 'character %r dispatched to %s is a key of special_tokens' % (k.value, v.attr),
                             nontrivial=True)
                    else:
                        r.fail(makers[v.attr], 'the scanner makes a SpecialToken for %r, which is not a key of '
                               'special_tokens: KeyError when it is expanded' % k.value,
                               witness='a stray %s in the text' % k.value)
    mc = model.func('parameters.Parameters.macro_character')
    calls = [n for n in ast.walk(mc.node) if isinstance(n, ast.Call) and T.call_name(n) in
             ('isalpha', 'isalnum', 'isidentifier', 'isascii')]
    lits = sorted(x.value for x in ast.walk(mc.node) if isinstance(x, ast.Constant) and isinstance(x.value, str))
    if calls and not any(T.call_name(c) == 'isascii' for c in calls):
        r.fail(calls[0], 'macro_character accepts every Unicode letter (%s): a non-ASCII letter '
               'directly behind a macro name is glued to the name' % unparse(calls[0]),
               witness='\\LaTeXübersicht')
    elif set(lits) >= {'A', 'Z', 'a', 'z', '@'} or calls:
        r.ok(mc.node, 'macro names: ASCII letters and @', nontrivial=True)
    else:
        r.undec(mc.node, 'macro_character not recognised')
    return r


# ----------------------------------------------------------------------------- IX11 - IX14
def ix11(model):
    r = RuleResult('IX11', 'module names taken from the document are imported with exec/eval only '
                   'inside a try that catches every exception (names that are no Python '
                   'identifiers raise SyntaxError, not ImportError)', floor=1)
    f = model.func('utils.get_module_handler')
    calls = [n for n in ast.walk(f.node) if isinstance(n, ast.Call) and getattr(n.func, 'id', '') in ('exec', 'eval')]
    if not calls:
        r.undec(f.node, 'no exec/eval in get_module_handler')
        r.instances = 1
        return r
    for c in calls:
        p, ch = c._parent, c
        tr = None
        while p is not None and p is not f.node:
            if isinstance(p, ast.Try) and any(ch is s for s in p.body):
                tr = p
                break
            ch, p = p, p._parent
        if tr is None:
            r.fail(c, '%s of a module name from the document outside a try block' % c.func.id)
            continue
        narrow = [h for h in tr.handlers if h.type is not None and unparse(h.type) not in ('Exception', 'BaseException')]
        if narrow and len(narrow) == len(tr.handlers):
            r.fail(c, 'the handler around %s only catches %s: a package name that is no Python '
                   'identifier raises SyntaxError out of the filter' % (c.func.id, unparse(narrow[0].type)),
                   witness='\\usepackage{3dplot} or \\usepackage{import}')
        else:
            r.ok(c, '%s inside a catch-all try' % c.func.id, nontrivial=True)
    return r


def _copy_tolerant_exit_facts(node):
    """negated tests of earlier sibling `if c: <exit>` statements, where the only re-binding
    in between is `v = copy.copy(v)` (the copy has the same attribute values)"""
    from ..flow import always_exits
    out = []
    st = node
    while st is not None and not isinstance(st, ast.stmt):
        st = getattr(st, '_parent', None)
    p = getattr(st, '_parent', None)
    for field in ('body', 'orelse'):
        seq = getattr(p, field, None)
        if isinstance(seq, list) and st in seq:
            idx = seq.index(st)
            for k, s in enumerate(seq[:idx]):
                if isinstance(s, ast.If) and not s.orelse and always_exits(s.body):
                    between = [b for b in seq[k + 1:idx] if not (
                        isinstance(b, ast.Assign) and isinstance(b.targets[0], ast.Name)
                        and isinstance(b.value, ast.Call) and unparse(b.value.func) in ('copy.copy', 'copy.deepcopy')
                        and len(b.value.args) == 1 and unparse(b.value.args[0]) == b.targets[0].id)]
                    if not guards._stores_between(between, guards._names(s.test)):
                        guards.split_fact(s.test, False, out)
    return out


def ix12(model):
    r = RuleResult('IX12', 'a bounds check protects the list that is indexed: where an index '
                   'expression X[e - 1] / X[e] is preceded by an exit guard comparing e with '
                   'len(Y), Y is X', floor=2)
    for f in model.all_funcs():
        if isinstance(f.node, ast.Lambda) or f.mod.short.startswith('shell'):
            continue
        for n in iter_scope(f.node):
            if not (isinstance(n, ast.Subscript) and isinstance(n.ctx, ast.Load) and isinstance(n.value, ast.Name)
                    and not isinstance(n.slice, ast.Slice)):
                continue
            idx = n.slice
            core = idx.left if isinstance(idx, ast.BinOp) and isinstance(idx.op, (ast.Sub, ast.Add)) \
                and isinstance(idx.right, ast.Constant) else idx
            if not isinstance(core, (ast.Attribute, ast.Name)):
                continue
            ct = unparse(core)
            lens = []
            for e, t in guards.facts(n) + _copy_tolerant_exit_facts(n):
                for c in ast.walk(e):
                    if isinstance(c, ast.Compare) and unparse(c.left) == ct:
                        for cmp_ in c.comparators:
                            for x in ast.walk(cmp_):
                                if isinstance(x, ast.Call) and getattr(x.func, 'id', '') == 'len' and x.args:
                                    lens.append(unparse(x.args[0]))
            if not lens:
                continue
            if n.value.id in lens:
                r.ok(n, 'index %s is checked against len(%s)' % (ct, n.value.id), nontrivial=True)
            else:
                r.fail(n, 'the index %s of %s is checked against len(%s), another list: IndexError'
                       % (ct, n.value.id, lens[0]),
                       witness='\\def\\x[#1]{#2}')
    return r


def ix13(model):
    r = RuleResult('IX13', 'the result of re.match / re.search / re.fullmatch (None if nothing '
                   'matches) is dereferenced only under a truth test', floor=5)
    for f in model.all_funcs():
        if isinstance(f.node, ast.Lambda):
            continue
        for n in iter_scope(f.node):
            if not (isinstance(n, ast.Attribute) and n.attr in ('group', 'groups', 'start', 'end', 'span')
                    and isinstance(n.ctx, ast.Load)):
                continue
            recv = n.value
            src = None
            if isinstance(recv, ast.Call) and T.call_name(recv) in ('match', 'search', 'fullmatch'):
                src = recv
                name = None
            elif isinstance(recv, ast.Name):
                vals = T.resolve_local(model, recv)
                if vals and all(isinstance(v, ast.Call) and T.call_name(v) in ('match', 'search', 'fullmatch')
                                for v in vals):
                    src = vals[0]
                    name = recv.id
            if src is None:
                continue
            if name is None:
                r.fail(n, 'the result of %s() is dereferenced directly: AttributeError when nothing '
                       'matches' % T.call_name(src),
                       witness='a match on a backslash that is not followed by letters (\\\\ or \\,)')
                continue
            def nonnone(e, t):
                if t and isinstance(e, ast.Name) and e.id == name:
                    return True
                return isinstance(e, ast.Compare) and len(e.ops) == 1 and isinstance(e.left, ast.Name) \
                    and e.left.id == name and T.is_const(e.comparators[0], None) \
                    and isinstance(e.ops[0], (ast.Is, ast.IsNot, ast.Eq, ast.NotEq)) \
                    and isinstance(e.ops[0], (ast.IsNot, ast.NotEq)) == t
            if guards.has_fact(n, nonnone):
                r.ok(n, '%s.%s under a truth test of %s' % (name, n.attr, name), nontrivial=True)
            else:
                r.fail(n, '%s may be None (no match) and %s.%s is evaluated without a test'
                       % (name, name, n.attr),
                       witness='a match on a backslash that is not followed by letters (\\\\ or \\,)')
    return r


def ix14(model):
    r = RuleResult('IX14', 'no two adjacent string literals inside a list / tuple / set display of '
                   'a table (a dropped comma silently joins two entries into one bogus entry)',
                   floor=20)
    for m in model.mods.values():
        toks = list(tokenize.generate_tokens(io.StringIO(m.src).readline))
        depth = []
        prev = None
        n_disp = 0
        for t in toks:
            if t.type == tokenize.OP and t.string in '([{':
                depth.append(t.string)
            elif t.type == tokenize.OP and t.string in ')]}':
                if depth:
                    depth.pop()
            if t.type in (tokenize.NL, tokenize.NEWLINE, tokenize.COMMENT, tokenize.INDENT, tokenize.DEDENT):
                continue
            if t.type == tokenize.STRING and prev is not None and prev.type == tokenize.STRING \
                    and depth and depth[-1] in '[{' and prev.start[0] != t.start[0]:
                r.findings.append(__import__('sa.report', fromlist=['Finding']).Finding(
                    'IX14', None, 'adjacent string literals %s %s without a comma in a table: they are '
                    'joined into one entry' % (prev.string[:20], t.string[:20]),
                    mod=m.rel, fn='<table>', stmt='%s %s' % (prev.string[:30], t.string[:30])))
                r.findings[-1].line = t.start[0]
                r.findings[-1].witness = 'the two table entries no longer work, the joined string never occurs'
                r.instances += 1
            prev = t
        r.instances += 1
    return r


# ----------------------------------------------------------------------------- ML7
def ml7(model):
    r = RuleResult('ML7', 'thresholds of multi-language mode: "at most num words" - the word count '
                   'is len(text.split()) and it is compared with the configured threshold by <=',
                   floor=2)
    sites = [('utils.ml_check_lang_section', 'ml_continue_thresh'),
             ('shell.proofreader.run_proofreader_options', 'ml_rule_threshold')]
    for q, attr in sites:
        f = model.func(q)
        cmps = [n for n in ast.walk(f.node) if isinstance(n, ast.Compare) and any(
            isinstance(x, ast.Attribute) and x.attr == attr for x in ast.walk(n))]
        if not cmps:
            r.fail(f.node, 'the configured threshold %s is not consulted' % attr, stmt='threshold ' + attr)
            continue
        for c in cmps:
            left, op, right = c.left, c.ops[0], c.comparators[0]
            thr_right = any(isinstance(x, ast.Attribute) and x.attr == attr for x in ast.walk(right))
            count = left if thr_right else right
            words = isinstance(count, ast.Call) and getattr(count.func, 'id', '') == 'len' and count.args \
                and isinstance(count.args[0], ast.Call) and T.call_name(count.args[0]) == 'split' \
                and not count.args[0].args
            ok_op = isinstance(op, ast.LtE) if thr_right else isinstance(op, ast.GtE)
            if words and ok_op:
                r.ok(c, 'len(text.split()) <= %s' % attr, nontrivial=True)
            elif not words:
                r.fail(c, 'the number of words is computed as %s, not as len(text.split()): words '
                       'separated by line breaks or several blanks are miscounted' % unparse(count)[:50],
                       witness='a foreign-language insertion whose words are separated by line breaks')
            else:
                r.fail(c, 'the threshold %s is compared with %s instead of <=: a part with exactly '
                       'the configured number of words is treated as too long'
                       % (attr, type(op).__name__), witness='a two-word insertion with threshold 2')
    return r


# ----------------------------------------------------------------------------- RP2
def rp2(model):
    r = RuleResult('RP2', 'replace_phrases applies every rule that has a left-hand side: the only '
                   'skip is the empty-pattern test; the separator & is recognised as a separate '
                   'word of the split line (not searched as a character)', floor=1)
    f = model.func('utils.replace_phrases')
    loops = [n for n in f.node.body if isinstance(n, ast.For)]
    if not loops:
        raise AnalysisError('anchor vanished: rule loop of replace_phrases')
    loop = loops[0]
    conts = [n for n in loop.body if isinstance(n, ast.If) and any(isinstance(x, ast.Continue) for x in n.body)]
    for c in conts:
        t = c.test
        if isinstance(t, ast.UnaryOp) and isinstance(t.op, ast.Not) and isinstance(t.operand, ast.Name):
            r.ok(c, 'skip only for an empty line / pattern', nontrivial=True)
        else:
            r.fail(c, 'a rule is skipped under the condition %s: phrases that occur with other '
                   'white space between their words are no longer replaced' % unparse(t)[:60],
                   witness='a two-word phrase that the text contains only across a line break')
    bad = [n for n in ast.walk(loop) if isinstance(n, ast.Call) and T.call_name(n) in ('partition', 'rpartition', 'find', 'index')
           and n.args and T.is_const(n.args[0], '&') and T.call_name(n) in ('partition', 'rpartition')]
    splits = [n for n in ast.walk(loop) if isinstance(n, ast.Call) and T.call_name(n) == 'split' and n.args
              and T.is_const(n.args[0], '&')]
    if bad or splits:
        r.fail((bad + splits)[0], 'the separator & is searched as a character in the line: a phrase with & '
               'inside a word is cut there', witness='R&D & research and development')
    else:
        r.ok(loop, '& is compared with whole words of the split line')
    return r


# ----------------------------------------------------------------------------- OK6
def ok6(model):
    r = RuleResult('OK6', 'the proofreader is addressed in UTF-8 in both directions: the text is '
                   "piped with encode('utf-8'), the command line says --encoding utf-8, the answer "
                   "is decoded as UTF-8", floor=3)
    f = model.func('shell.proofreader.run_languagetool')
    encs = [n for n in ast.walk(f.node) if isinstance(n, ast.Call) and T.call_name(n) in ('encode', 'decode')]
    for c in encs:
        recv = unparse(c.func.value)
        args = [a for a in c.args] + [k.value for k in c.keywords if k.arg == 'encoding']
        if 'json' in recv.lower():
            continue
        if T.call_name(c) == 'encode' and 'urlencode' in recv:
            r.ok(c, 'request body of the HTTP API (ASCII after urlencode)', sample=False)
            continue
        if args and all(isinstance(a, ast.Constant) and str(a.value).lower().replace('-', '') == 'utf8' for a in args):
            r.ok(c, '%s as UTF-8' % T.call_name(c), nontrivial=True)
        else:
            r.fail(c, 'the text exchanged with the proofreader is %sd with %s, while the command '
                   'line says --encoding utf-8' % (T.call_name(c), unparse(args[0]) if args else 'the default'),
                   witness='--encoding cp866 with non-ASCII text and a local LanguageTool')
    sh = model.mod('shell.shell')
    src = sh.src
    if '--encoding utf-8' in src:
        r.ok(sh.tree, 'the LanguageTool command line carries --encoding utf-8')
    else:
        r.fail(sh.tree, 'the LanguageTool command line no longer says --encoding utf-8', stmt='ltcommand')
    return r


# ----------------------------------------------------------------------------- MC1
def mc1(model):
    r = RuleResult('MC1', 'a macro token that a handler injects into the token stream is declared '
                   '(by the injecting module or built in): otherwise it is reported as an unknown '
                   'macro that the document never contains', floor=2)
    pstr = _param_strings(model)
    decl = set()
    for m, name, nargs, body, node in latex_defs(model):
        decl.add((m.short, name))
    for ent in tables.registry(model):
        name = _entry_name(model, ent, pstr)
        if name:
            decl.add((ent['node']._mod.short, name))
    for m in model.mods.values():
        if m.short == 'scanner':
            continue
        for n in ast.walk(m.tree):
            if isinstance(n, ast.Call) and T.call_name(n) == 'MacroToken' and len(n.args) >= 2 \
                    and isinstance(n.args[1], ast.Constant):
                name = n.args[1].value
                if (m.short, name) in decl or ('parameters', name) in decl:
                    r.ok(n, 'injected macro %s is declared' % name, nontrivial=True)
                else:
                    r.fail(n, 'the handler injects the macro %s, which no table declares: it shows '
                           'up in the list of unknown macros' % name,
                           witness='a document that closes an otherlanguage environment, with --unkn')
    return r


# ----------------------------------------------------------------------------- LC3
def lc3(model):
    r = RuleResult('LC3', 'ParserLanguageSettings: each *_vowel collection falls back to the '
                   'collection of the same name (display to display, inline to inline)', floor=3)
    f = model.func('parameters.ParserLanguageSettings.__init__')
    for n in ast.walk(f.node):
        if isinstance(n, ast.Assign) and isinstance(n.targets[0], ast.Attribute) \
                and n.targets[0].attr.endswith('_vowel'):
            tgt = n.targets[0].attr
            base = tgt[:-len('_vowel')]
            names = {x.id for x in ast.walk(n.value) if isinstance(x, ast.Name)
                     and not (isinstance(getattr(x, '_parent', None), ast.Call) and x._parent.func is x)}
            if names <= {base, tgt}:
                r.ok(n, '%s falls back to %s' % (tgt, base), sample=False)
            else:
                r.fail(n, '%s is filled from %s instead of %s: the shell then takes the wrong '
                       'placeholders for this kind of equation' % (tgt, sorted(names - {base, tgt}), base),
                       witness='--equation-punctuation displayed with inline formulas in the text')
    return r


# ----------------------------------------------------------------------------- CK6
def ck6(model):
    r = RuleResult('CK6', 'the shell\'s own checks are switched off only when their option is absent '
                   '(is None): an empty accept list means "accept nothing", not "do not check"',
                   floor=2)
    for q, attr in (('shell.checks.create_single_letter_matches', 'single_letters'),
                    ('shell.checks.create_equation_punct_messages', 'equation_punctuation')):
        f = model.func(q)
        first = [s for s in f.node.body if isinstance(s, ast.If)]
        hit = False
        for s in first[:1]:
            t = s.test
            if isinstance(t, ast.Compare) and isinstance(t.ops[0], ast.Is) and T.is_const(t.comparators[0]) \
                    and t.comparators[0].value is None and attr in unparse(t.left):
                hit = True
                r.ok(s, '%s: skipped only if the option is absent' % attr, nontrivial=True)
            elif attr in unparse(t):
                hit = True
                r.fail(s, 'the check is skipped under %s: an empty option value (check everything, '
                       'accept nothing) silently disables it' % unparse(t),
                       witness="--single-letters ''")
        if not hit:
            r.undec(f.node, 'option guard of the check not recognised')
            r.instances += 1
    return r


# ----------------------------------------------------------------------------- RX5
def rx5(model):
    r = RuleResult('RX5', 'the replacement argument of re.sub is a literal or a function, never a '
                   'string computed from data: in a template string every backslash of the data '
                   'is interpreted (\\1, \\g<..>, \\n) or raises re.error', floor=5)
    for m in model.mods.values():
        for n in ast.walk(m.tree):
            if not (isinstance(n, ast.Call) and T.call_name(n) in ('sub', 'subn') and len(n.args) >= 2):
                continue
            rc = model.resolve_call(n)
            is_re = (rc and rc[0] == 'ext' and rc[1] in ('re.sub', 're.subn')) or \
                (isinstance(n.func, ast.Attribute) and not isinstance(n.func.value, ast.Constant)
                 and len(n.args) == 2 and unparse(n.func.value) not in ('re',))
            if not is_re:
                continue
            rep = n.args[1] if (rc and rc[0] == 'ext') else n.args[0]
            if isinstance(rep, ast.Constant):
                r.ok(n, 'literal replacement', sample=False)
            elif isinstance(rep, ast.Lambda) or (isinstance(rep, ast.Name) and callgraph(model).func_value(rep)):
                r.ok(n, 'replacement function', nontrivial=True)
            elif isinstance(rep, ast.BinOp) and all(isinstance(x, ast.Constant) for x in ast.walk(rep)
                                                    if isinstance(x, (ast.Constant, ast.Name))):
                r.ok(n, 'constant replacement', sample=False)
            else:
                vals = T.resolve_local(model, rep) if isinstance(rep, ast.Name) else [rep]
                if isinstance(rep, ast.Name):
                    for a in _anc(n):
                        gens = getattr(a, 'generators', [])
                        iters = [g.iter for g in gens if isinstance(g.target, ast.Name) and g.target.id == rep.id]
                        if isinstance(a, ast.For) and isinstance(a.target, ast.Name) and a.target.id == rep.id:
                            iters.append(a.iter)
                        # for regex, replacement in <literal table of pairs>
                        if isinstance(a, ast.For) and isinstance(a.target, ast.Tuple):
                            idx = next((i for i, t_ in enumerate(a.target.elts)
                                        if isinstance(t_, ast.Name) and t_.id == rep.id), None)
                            tab = a.iter
                            if isinstance(tab, ast.Name):
                                tv = T.resolve_local(model, tab)
                                tab = tv[0] if len(tv) == 1 else None
                            if idx is not None and isinstance(tab, (ast.Tuple, ast.List)) and tab.elts and all(
                                    isinstance(e_, (ast.Tuple, ast.List)) and len(e_.elts) > idx for e_ in tab.elts):
                                vals = [e_.elts[idx] for e_ in tab.elts]
                        for it in iters:
                            if isinstance(it, (ast.Tuple, ast.List)) and all(isinstance(e, ast.Constant) for e in it.elts):
                                vals = list(it.elts)
                            elif isinstance(it, ast.Constant) and isinstance(it.value, str):
                                vals = [it]
                if vals and all(isinstance(v, ast.Constant) for v in vals):
                    r.ok(n, 'literal replacement', sample=False)
                else:
                    r.fail(n, 'the replacement %s of re.sub is a computed string: backslashes in the '
                           'data are interpreted as template escapes' % unparse(rep)[:50],
                           witness='a replacement text / proofreader message containing \\section or \\1')
    return r


# ----------------------------------------------------------------------------- RS1
def rs1(model):
    r = RuleResult('RS1', 'per-document state of the Parser that expansion appends to (extracted '
                   'flows, unknown names) is re-initialised unconditionally at the start of every '
                   'parse(): a Parser object that is used for a second text starts empty', floor=2)
    f = model.func('parser.Parser.parse')
    cls = model.cls('parser.Parser')

    def resets(stmts, attr, depth=2):
        for s in stmts:
            if isinstance(s, ast.Assign) and any(isinstance(t, ast.Attribute) and t.attr == attr
                                                 and unparse(t.value) == 'self' for t in s.targets):
                v = s.value
                if (isinstance(v, (ast.List, ast.Dict)) and not (getattr(v, 'elts', None) or getattr(v, 'keys', None))) \
                        or (isinstance(v, ast.Call) and getattr(v.func, 'id', '') in ('list', 'dict', 'set') and not v.args):
                    return s
            if isinstance(s, ast.Expr) and isinstance(s.value, ast.Call):
                c = s.value
                if T.call_name(c) == 'clear' and unparse(c.func.value) == 'self.' + attr:
                    return s
                if depth and isinstance(c.func, ast.Attribute) and unparse(c.func.value) == 'self' \
                        and c.func.attr in cls.methods and c.func.attr not in ('parser_work', 'expand_sequence'):
                    hit = resets(cls.methods[c.func.attr].node.body, attr, depth - 1)
                    if hit:
                        return s
        return None

    first_work = None
    for k, s in enumerate(f.node.body):
        if any(isinstance(c, ast.Call) and T.call_name(c) in ('parser_work', 'expand_sequence') for c in ast.walk(s)):
            first_work = k
            break
    if first_work is None:
        raise AnalysisError('anchor vanished: parser_work call in Parser.parse')
    for attr in ('extracted', 'unknowns'):
        hit = resets(f.node.body[:first_work], attr)
        if hit is not None:
            r.ok(hit, 'self.%s is emptied before the text is parsed' % attr, nontrivial=True)
        else:
            r.fail(f.node, 'parse() does not empty self.%s before parsing: the second text parsed '
                   'with the same Parser object also outputs the %s of the first' % (
                       attr, 'footnotes and captions' if attr == 'extracted' else 'unknown macros'),
                   stmt='reset of self.' + attr,
                   witness='p = Parser(parms); p.parse(r"A\\footnote{F}"); p.parse("B")')
    return r


# ----------------------------------------------------------------------------- CM3
def cm3(model):
    r = RuleResult('CM3', 'an option value that the shell normalises (cmdline.x = ...) is not '
                   'overwritten afterwards by a new parse of the command line (cmdline = ...): the '
                   'normalisation would be lost whenever a configuration file is read', floor=3)
    m = model.mod('shell.shell')
    rebinds = [n for n in ast.walk(m.tree) if isinstance(n, ast.Assign) and any(
        isinstance(t, ast.Name) and t.id == 'cmdline' for t in n.targets)
        and not any(isinstance(a, (ast.FunctionDef, ast.Lambda)) for a in _anc(n))]
    if not rebinds:
        raise AnalysisError('anchor vanished: cmdline = parser.parse_args(...) in shell.py')
    last = max(n.lineno for n in rebinds)
    for n in ast.walk(m.tree):
        if isinstance(n, (ast.Assign, ast.AugAssign)) and not any(
                isinstance(a, (ast.FunctionDef, ast.Lambda)) for a in _anc(n)):
            tgts = n.targets if isinstance(n, ast.Assign) else [n.target]
            for t in tgts:
                if isinstance(t, ast.Attribute) and isinstance(t.value, ast.Name) and t.value.id == 'cmdline':
                    if n.lineno < last:
                        r.fail(n, 'cmdline.%s is set here, but the command line is parsed again '
                               'afterwards (line %d): the value is lost when a configuration file '
                               'exists' % (t.attr, last),
                               witness='--context -1 together with a non-empty configuration file')
                    else:
                        r.ok(n, 'cmdline.%s normalised after the last parse' % t.attr, sample=False)
    return r


def _anc(n):
    p = getattr(n, '_parent', None)
    while p is not None:
        yield p
        p = getattr(p, '_parent', None)


# ----------------------------------------------------------------------------- TH6
def th6(model):
    r = RuleResult('TH6', 'the record of a highlighted place is computed from its own message '
                   'only: no field depends on a value carried over from the previous message '
                   '(messages are not sorted, and regions overlap)', floor=4)
    from .th import html_phases
    ph = html_phases(model)
    if not ph['collect']:
        raise AnalysisError('anchor vanished: loop that fills h.beglin in generate_html')
    f, loop = ph['collect']
    carried = set()
    assigned_in_loop = {}
    for n in ast.walk(loop):
        if isinstance(n, ast.AugAssign) and isinstance(n.target, ast.Name):
            carried.add(n.target.id)
        if isinstance(n, ast.Assign):
            for t in n.targets:
                if isinstance(t, ast.Name):
                    assigned_in_loop.setdefault(t.id, []).append(n)
    loopvars = {x.id for x in ast.walk(loop.target) if isinstance(x, ast.Name)}
    # a name read in the loop before its first assignment in the loop body is carried over
    for name, defs_ in assigned_in_loop.items():
        first = min(d.lineno for d in defs_)
        for x in ast.walk(loop):
            if isinstance(x, ast.Name) and x.id == name and isinstance(x.ctx, ast.Load) and x.lineno < first \
                    and name not in loopvars:
                carried.add(name)
            elif isinstance(x, ast.Name) and x.id == name and isinstance(x.ctx, ast.Load) and x.lineno == first:
                d = [d for d in defs_ if d.lineno == first][0]
                if any(y is x for y in ast.walk(d.value)):
                    carried.add(name)

    def deps(e, seen):
        out = set()
        for x in ast.walk(e):
            if isinstance(x, ast.Name) and isinstance(x.ctx, ast.Load) and x.id not in seen:
                seen.add(x.id)
                out.add(x.id)
                for d in assigned_in_loop.get(x.id, []):
                    out |= deps(d.value, seen)
        return out
    for n in ast.walk(loop):
        if isinstance(n, ast.Assign) and isinstance(n.targets[0], ast.Attribute) \
                and isinstance(n.targets[0].value, ast.Name) and n.targets[0].value.id == 'h':
            bad = sorted(deps(n.value, set()) & carried)
            if bad:
                r.fail(n, 'h.%s depends on %s, which is carried over from the previous message: '
                       'with unsorted or overlapping messages the value is wrong' % (n.targets[0].attr, bad),
                       witness='two messages of which the second lies before the first')
            else:
                r.ok(n, 'h.%s is computed from this message' % n.targets[0].attr, nontrivial=True, sample=False)
    return r


# ----------------------------------------------------------------------------- CK7
def ck7(model):
    r = RuleResult('CK7', 'the accept pattern for --single-letters is extended by whole '
                   'alternatives: two alternations are never glued without a | between them',
                   floor=1)
    m = model.mod('shell.shell')
    alts = set()
    helpers = {}
    for s in m.tree.body:
        if isinstance(s, ast.FunctionDef):
            rets = [x for x in ast.walk(s) if isinstance(x, ast.Return) and x.value is not None]
            if len(rets) == 1 and _is_alt(rets[0].value, set()):
                alts.add(s.name)
                helpers[s.name] = s
        if isinstance(s, ast.Assign) and isinstance(s.targets[0], ast.Name) and _is_alt(s.value, alts):
            alts.add(s.targets[0].id)

    def escapes(v):
        for x in ast.walk(v):
            if isinstance(x, ast.Call) and T.call_name(x) == 'escape':
                return x
            if isinstance(x, ast.Call) and isinstance(x.func, ast.Name) and x.func.id in helpers:
                for y in ast.walk(helpers[x.func.id]):
                    if isinstance(y, ast.Call) and T.call_name(y) == 'escape':
                        return y
        return None

    def walk(stmts, state):
        for s in stmts:
            if isinstance(s, ast.If):
                opener = 'single_letters' in unparse(s.test) and "endswith('||')" in unparse(s.test)
                a = walk(s.body, 'bar' if opener else state)
                walk(s.orelse, state)
                if opener:
                    state = '?'
                elif a == 'alt':
                    state = 'alt'
            elif isinstance(s, ast.AugAssign) and isinstance(s.op, ast.Add) and unparse(s.target) == 'cmdline.single_letters':
                v = s.value
                esc = escapes(v)
                if esc is not None:
                    r.fail(esc, 'the placeholders appended to --single-letters are escaped here, and the '
                           'checks escape every accepted pattern again: V-V-V becomes V\\\\-V\\\\-V and is '
                           'no longer accepted', witness='--single-letters "A||" with an equation in the text')
                if _is_alt(v, alts):
                    if state == 'alt':
                        r.fail(s, 'a second alternation is appended to --single-letters without a | in '
                               'between: the last alternative of the first and the first of the second '
                               'are glued into one that never matches',
                               witness='--single-letters "A||" --multi-language')
                    else:
                        r.ok(s, 'alternation appended behind a |', nontrivial=True)
                    state = 'alt'
                elif isinstance(v, ast.BinOp) and isinstance(v.left, ast.Constant) and str(v.left.value).startswith('|') \
                        and _is_alt(v.right, alts):
                    r.ok(s, 'alternation appended with a leading |', nontrivial=True)
                    state = 'alt'
                elif isinstance(v, ast.Constant) and str(v.value).endswith('|'):
                    state = 'bar'
                else:
                    state = '?'
        return state
    walk(m.tree.body, '?')
    if not r.instances:
        r.undec(m.tree, 'no extension of cmdline.single_letters recognised')
        r.instances = 1
    return r


def _is_alt(v, alts):
    if isinstance(v, ast.Name):
        return v.id in alts
    if isinstance(v, ast.Call) and isinstance(v.func, ast.Name) and v.func.id in alts:
        return True     # module-level helper that returns a join
    return isinstance(v, ast.Call) and T.call_name(v) == 'join' and isinstance(v.func.value, ast.Constant) \
        and v.func.value.value == '|'


# ----------------------------------------------------------------------------- TK1
def tk1(model):
    r = RuleResult('TK1', 'white space is carried by SpaceToken / ParagraphToken (in maths also by '
                   'the maths-space special tokens), never by a TextToken with a white-space '
                   'literal: parser, maths parser and line clean-up recognise space by token class',
                   floor=20)
    for m in model.mods.values():
        for n in ast.walk(m.tree):
            if isinstance(n, ast.Call) and T.call_name(n) == 'TextToken' and len(n.args) >= 2:
                a = n.args[1]
                vals = [a]
                if isinstance(a, ast.Name):
                    vals = T.resolve_local(model, a) or [a]
                if any(isinstance(v, ast.Constant) and isinstance(v.value, str) and v.value
                       and v.value.isspace() for v in vals):
                    r.fail(n, 'a TextToken with white space as text: in maths it counts as a symbol '
                           '(own placeholder, no operator word for the following part), in text '
                           'it is not skipped or merged like space',
                           witness='&\\phantom{=} + c in a displayed equation')
                else:
                    r.ok(n, 'TextToken text is not a white-space literal', sample=False)
    return r


# ----------------------------------------------------------------------------- ML8
def ml8(model):
    r = RuleResult('ML8', 'ml_append_placeholder adds text and positions for the inclusion on every '
                   'path: an inclusion that only consists of white space still separates the words '
                   'around it', floor=1)
    from ..flow import always_exits
    f = model.func('utils.ml_append_placeholder')
    sec = f.params[0] if f.params else 'sec'

    def appends(stmts, attr):
        """do all paths through stmts that end in a return / fall through append to sec.attr?
        returns 'all', or the first statement from which a path escapes without appending"""
        done = False
        for s in stmts:
            if isinstance(s, ast.AugAssign) and unparse(s.target) == '%s.%s' % (sec, attr):
                done = True
            elif isinstance(s, ast.If):
                a = appends(s.body, attr) if not done else 'all'
                b = appends(s.orelse, attr) if not done else 'all'
                esc_a = always_exits(s.body)
                esc_b = bool(s.orelse) and always_exits(s.orelse)
                if not done:
                    if esc_a and a != 'all':
                        return a if a is not None else s
                    if esc_b and b != 'all':
                        return b if b is not None else s
                    if a == 'all' and b == 'all' and s.orelse:
                        done = True
            elif isinstance(s, ast.Return):
                return 'all' if done else s
        return 'all' if done else None
    for attr in ('txt', 'pos'):
        res = appends(f.node.body, attr)
        if res == 'all':
            r.ok(f.node, '%s.%s is extended on every path' % (sec, attr), nontrivial=True)
        else:
            r.fail(res if res is not None else f.node,
                   'a path through ml_append_placeholder leaves %s.%s unchanged: the inclusion '
                   'vanishes without a trace and the words around it are glued' % (sec, attr),
                   witness='word\\foreignlanguage{german}{ }word in multi-language mode')
    return r


# ----------------------------------------------------------------------------- SC7
def sc7(model):
    r = RuleResult('SC7', 'the scanner has one notion of white space: the predicate that dispatches '
                   'to scan_space and the predicates that delimit space runs are all str.isspace() '
                   '(a narrower literal set leaves \\r, \\f, NBSP ... as one-character space tokens '
                   'that split a blank run or a paragraph break)', floor=3)
    m = model.mod('scanner')
    for n in ast.walk(m.tree):
        if isinstance(n, ast.Call) and T.call_name(n) == 'isspace':
            r.ok(n, 'white space tested with isspace()', sample=False)
        if isinstance(n, ast.Compare) and isinstance(n.ops[0], (ast.In, ast.NotIn)) \
                and isinstance(n.comparators[0], ast.Constant) and isinstance(n.comparators[0].value, str) \
                and n.comparators[0].value and n.comparators[0].value.isspace() and len(n.comparators[0].value) > 1:
            r.fail(n, 'white space is tested against the literal set %r, while tokens are '
                   'dispatched with isspace(): a \\r or \\f inside a blank line is a token of its '
                   'own and the paragraph break is lost' % n.comparators[0].value,
                   witness='two paragraphs separated by "\\n\\r\\n" (CR LF file read in binary mode) or "\\n\\f\\n"')
    return r


# ----------------------------------------------------------------------------- IX15
def ix15(model):
    r = RuleResult('IX15', 'an index that a search loop may run past the end of the list (while i >= 0 '
                   'and ...: i -= 1 / while i < len(x) and ...: i += 1) is tested before it is used '
                   'as a subscript behind the loop', floor=0)
    for f in model.all_funcs():
        if isinstance(f.node, ast.Lambda):
            continue
        for lp in iter_scope(f.node):
            if not isinstance(lp, ast.While):
                continue
            conj = lp.test.values if isinstance(lp.test, ast.BoolOp) and isinstance(lp.test.op, ast.And) else [lp.test]
            var = None
            for c in conj:
                if isinstance(c, ast.Compare) and isinstance(c.left, ast.Name) and len(c.ops) == 1:
                    v = c.left.id
                    down = isinstance(c.ops[0], (ast.GtE, ast.Gt)) and isinstance(c.comparators[0], ast.Constant)
                    up = isinstance(c.ops[0], ast.Lt) and isinstance(c.comparators[0], ast.Call) \
                        and getattr(c.comparators[0].func, 'id', '') == 'len'
                    step = any(isinstance(s, ast.AugAssign) and isinstance(s.target, ast.Name) and s.target.id == v
                               and isinstance(s.op, ast.Sub if down else ast.Add) for s in ast.walk(lp))
                    if (down or up) and step and len(conj) > 1:
                        var = (v, c, 'down' if down else 'up')
            if var is None:
                continue
            v, bound, kind = var
            parent = lp._parent
            seq = next((getattr(parent, fld) for fld in ('body', 'orelse', 'finalbody')
                        if isinstance(getattr(parent, fld, None), list) and lp in getattr(parent, fld)), None)
            if seq is None:
                continue
            after = seq[seq.index(lp) + 1:]
            for s in after:
                if any(isinstance(x, ast.Name) and x.id == v and isinstance(x.ctx, ast.Store) for x in ast.walk(s)):
                    break
                for x in ast.walk(s):
                    if isinstance(x, ast.Subscript) and not isinstance(x.slice, ast.Slice) \
                            and isinstance(x.slice, ast.Name) and x.slice.id == v:
                        if guards.has_fact(x, lambda e, t: v in {y.id for y in ast.walk(e) if isinstance(y, ast.Name)}):
                            r.ok(x, 'index %s is tested after the search loop' % v, nontrivial=True)
                        else:
                            r.fail(x, 'the search loop ends with %s one step outside the list when nothing '
                                   'is found (%s), and %s is evaluated without a test: %s'
                                   % (v, unparse(bound), unparse(x),
                                      'the index -1 silently denotes the last element, IndexError on an '
                                      'empty list' if kind == 'down' else 'IndexError'),
                                   witness='a text that ends directly behind the construct (\\\\ as last token)')
    r.instances = max(r.instances, 1)
    return r


# ----------------------------------------------------------------------------- AC3
def _is_partition_sep(fnode, name):
    """name is bound exactly once, as the middle element of <text>.partition('\\n') / rpartition('\\n')"""
    hits = []
    for m in ast.walk(fnode):
        if isinstance(m, ast.Assign):
            for t in m.targets:
                for x in ast.walk(t):
                    if isinstance(x, ast.Name) and x.id == name:
                        good = isinstance(t, ast.Tuple) and len(t.elts) == 3 and t.elts[1] is x \
                            and isinstance(m.value, ast.Call) and isinstance(m.value.func, ast.Attribute) \
                            and m.value.func.attr in ('partition', 'rpartition') and len(m.value.args) == 1 \
                            and isinstance(m.value.args[0], ast.Constant) and m.value.args[0].value == '\n'
                        hits.append(good)
    return len(hits) == 1 and hits[0]


def ac3(model):
    r = RuleResult('AC3', 'line-removal pass: a token can start or end a line only if it contains a '
                   'line break, and is blank only if it contains none (the three flags partition '
                   'white-space tokens; dropping the line-break condition removes text lines)',
                   floor=3)
    f = model.func('parser.Parser.remove_pure_action_lines')
    want = {'is_blank': False, 'can_start': True, 'can_end': True}
    seen = set()
    # the flags are computed in the function itself, in a nested helper, or in a helper of the module
    for n in ast.walk(f.mod.tree):
        if isinstance(n, ast.Assign) and isinstance(n.targets[0], ast.Attribute) and n.targets[0].attr in want \
                and not isinstance(n.value, ast.Constant) \
                and not (isinstance(n.value, ast.Name) and getattr(n, '_fn', None) is not None
                         and n.value.id in n._fn.params):
            attr = n.targets[0].attr
            seen.add(attr)
            facts0 = []
            guards.split_fact(n.value, True, facts0)
            facts = []
            for e, t in facts0:
                if isinstance(e, ast.Name):
                    vals = T.resolve_local(model, e)
                    if len(vals) == 1 and vals[0] is not e:
                        guards.split_fact(vals[0], t, facts)
                        continue
                facts.append((e, t))
            has_nl = [(e, t) for e, t in facts if isinstance(e, ast.Compare) and isinstance(e.left, ast.Constant)
                      and e.left.value == '\n' and isinstance(e.ops[0], (ast.In, ast.NotIn))]
            ok = any((isinstance(e.ops[0], ast.In) == t) == want[attr] for e, t in has_nl)
            # the separator returned by str.partition('\n') is non-empty iff the text has a line break
            for e, t in facts:
                x = e.args[0] if isinstance(e, ast.Call) and getattr(e.func, 'id', '') == 'bool' and len(e.args) == 1 else e
                if isinstance(x, ast.Name) and _is_partition_sep(n._fn.node if getattr(n, '_fn', None) else f.node, x.id):
                    if t == want[attr]:
                        ok = True
            if ok:
                r.ok(n, '%s requires %s line break in the token' % (attr, 'a' if want[attr] else 'no'), nontrivial=True)
            elif any(isinstance(x, ast.Call) and T.call_name(x) in ('count', 'find', 'rfind', 'splitlines', 'index', 'partition', 'rpartition', 'split')
                     for e, t in facts if not isinstance(e, ast.UnaryOp) for x in [e] + (e.comparators if isinstance(e, ast.Compare) else [])
                     if isinstance(x, ast.Call)):
                r.undec(n, '%s: line-break condition in another form' % attr)
                r.instances += 1
            else:
                r.fail(n, 'the flag %s no longer requires %s line break in the token: %s' % (
                    attr, 'a' if want[attr] else 'no',
                    'a blank behind the last word of a line counts as a line start, and the line is '
                    'removed as "pure markup"' if want[attr] else 'a token with a line break counts as blank'),
                    witness='first line \\\\\\\\\\nsecond line')
    if not seen:
        raise AnalysisError('anchor vanished: is_blank / can_start / can_end in remove_pure_action_lines')
    return r
