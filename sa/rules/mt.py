"""MT1-MT3: the decision table of the maths replacement (DESIGN.md 3.8).

The body of MathParser.replace_section is interpreted abstractly (the AST is evaluated over
truth values chosen by a valuation; no repository code runs) for every consistent valuation
of the atoms
    inline, first_part, next_repl (loop-carried state)
    token kind: non-maths with / without visible text, maths part of space only, or a
    maths part with start space, end space, leading operator, element, final punctuation
and the effects (tokens emitted in order, rotation of the placeholder collection, next
state) are compared with the table written down from the README section "Parser for maths
material" and the statements of C10 / C11."""
import ast
import itertools

from ..model import AnalysisError, unparse, iter_scope
from ..report import RuleResult
from .. import tok as T
from .. import tables


class Unknown(Exception):
    pass


class Sym:
    """opaque truthy object (an operator / element token)"""
    def __init__(self, name):
        self.name = name

    def __repr__(self):
        return self.name


OPTOK, ELEMTOK = Sym('op'), Sym('elem')


class Interp:
    def __init__(self, model, func, val):
        self.model = model
        self.func = func
        self.val = val
        self.effects = []
        self.env = {}

    # expression evaluation under the valuation -------------------------------------
    def ev(self, e):
        v = self.val
        if isinstance(e, ast.Constant):
            return e.value
        if isinstance(e, ast.Name):
            if e.id in self.env:
                return self.env[e.id]
            raise Unknown('name ' + e.id)
        if isinstance(e, ast.UnaryOp) and isinstance(e.op, ast.Not):
            return not self.truth(self.ev(e.operand))
        if isinstance(e, ast.BoolOp):
            res = None
            for x in e.values:
                res = self.ev(x)
                t = self.truth(res)
                if isinstance(e.op, ast.And) and not t:
                    return res
                if isinstance(e.op, ast.Or) and t:
                    return res
            return res
        if isinstance(e, ast.IfExp):
            return self.ev(e.body) if self.truth(self.ev(e.test)) else self.ev(e.orelse)
        if isinstance(e, ast.Compare) and len(e.ops) == 1:
            op = e.ops[0]
            # type(tok) is [not] MathPartToken
            if isinstance(op, (ast.Is, ast.IsNot)) and isinstance(e.left, ast.Call) \
                    and getattr(e.left.func, 'id', '') == 'type':
                cls = self.model.class_of_expr(self.func.mod, self.func, e.comparators[0])
                if cls is not None and cls.qname == 'mathparser.MathPartToken':
                    r = v['ismath']
                    return r if isinstance(op, ast.Is) else not r
                raise Unknown('type test')
            if isinstance(op, (ast.Is, ast.IsNot)) and isinstance(e.comparators[0], ast.Constant) \
                    and e.comparators[0].value is None:
                r = self.ev(e.left) is None
                return r if isinstance(op, ast.Is) else not r
            if isinstance(op, (ast.In, ast.NotIn)):
                left = self.ev(e.left)
                right = e.comparators[0]
                if isinstance(right, ast.Attribute) and right.attr == 'math_punctuation':
                    r = left == 'PUNCTCHAR'
                    return r if isinstance(op, ast.In) else not r
                raise Unknown('containment')
            raise Unknown('compare')
        if isinstance(e, ast.Attribute):
            base = e.value
            if isinstance(base, ast.Name) and self.env.get(base.id) == 'TOK':
                return ('tokattr', e.attr)
            if isinstance(base, ast.Name) and isinstance(self.env.get(base.id), Sym):
                return ('symattr', self.env[base.id].name, e.attr)
            if unparse(e).endswith('lang_context.math_op_text'):
                return 'OPTABLE'
            if isinstance(base, ast.Name) and self.env.get(base.id) == 'PARMS' or unparse(e).startswith('self.parser.parms'):
                return ('parms', e.attr)
            if unparse(e) in ('self.parser.parms', 'self.parser'):
                return 'PARMS' if e.attr == 'parms' else 'PARSER'
            raise Unknown('attribute ' + unparse(e))
        if isinstance(e, ast.Subscript):
            b = self.ev(e.value)
            if b == 'REPLS' and isinstance(e.slice, ast.Constant) and e.slice.value == 0:
                return 'PLACEHOLDER'
            if b == 'OPTABLE':
                return 'OPWORD'
            if b == 'REPLS' and isinstance(e.slice, ast.Slice):
                return ('replslice', unparse(e.slice))
            raise Unknown('subscript ' + unparse(e))
        if isinstance(e, ast.BinOp) and isinstance(e.op, ast.Add):
            a, b = self.ev(e.left), self.ev(e.right)
            if isinstance(a, tuple) and isinstance(b, tuple) and a[0] == b[0] == 'replslice':
                return ('rot', a[1], b[1])
            raise Unknown('binop')
        if isinstance(e, ast.Call):
            return self.call(e)
        raise Unknown(type(e).__name__)

    def truth(self, x):
        if isinstance(x, tuple) and x and x[0] == 'tokattr' and x[1] == 'txt':
            raise Unknown('truth of token text')
        if x in ('VISIBLE',):
            return True
        if x in ('BLANK', ''):
            return False
        return bool(x)

    def call(self, e):
        v = self.val
        f = e.func
        name = f.attr if isinstance(f, ast.Attribute) else getattr(f, 'id', '')
        if isinstance(f, ast.Attribute) and isinstance(f.value, ast.Name) \
                and self.env.get(f.value.id) == 'TOK':
            if name == 'only_space':
                return v['only_space']
            if name == 'start_space':
                return v['start_space']
            if name == 'end_space':
                return v['end_space']
            if name == 'leading_op':
                return OPTOK if v['op'] else None
            if name == 'has_elem':
                return ELEMTOK if v['elem'] else None
            if name == 'last_char':
                return 'PUNCTCHAR' if v['punct'] else 'OTHERCHAR'
            raise Unknown('token method ' + name)
        if name == 'strip' and isinstance(f, ast.Attribute):
            b = self.ev(f.value)
            if b == ('tokattr', 'txt'):
                return 'VISIBLE' if v['visible'] else 'BLANK'
            raise Unknown('strip')
        if name == 'get' and isinstance(f, ast.Attribute) and self.ev(f.value) == 'OPTABLE':
            return 'OPWORD'
        cls = T.token_ctor(self.model, e)
        if cls is not None:
            a = T.ctor_args(self.model, e, cls)
            txt = self.ev(a['txt']) if a.get('txt') is not None else None
            pos = self.ev(a['pos'])
            fix = a.get('pos_fix')
            return ('token', cls.name, txt, pos, fix is not None and T.is_const(fix, True))
        raise Unknown('call ' + unparse(e)[:30])

    # statements ------------------------------------------------------------------------
    def run(self, stmts):
        """returns 'continue' / None"""
        for s in stmts:
            r = self.stmt(s)
            if r:
                return r
        return None

    def stmt(self, s):
        if isinstance(s, ast.If):
            if self.truth(self.ev(s.test)):
                return self.run(s.body)
            return self.run(s.orelse)
        if isinstance(s, ast.Continue):
            return 'continue'
        if isinstance(s, ast.Assign):
            t = s.targets[0]
            if isinstance(t, ast.Name):
                self.env[t.id] = self.ev(s.value)
                return None
            if isinstance(t, ast.Subscript) and isinstance(t.slice, ast.Slice) \
                    and self.ev(t.value) == 'REPLS':
                val = self.ev(s.value)
                if val == ('rot', '1:', ':1'):
                    self.effects.append('ROTATE')
                    return None
                raise Unknown('store into the collection: ' + unparse(s))
            raise Unknown('assign ' + unparse(s)[:40])
        if isinstance(s, ast.Expr) and isinstance(s.value, ast.Call):
            c = s.value
            if isinstance(c.func, ast.Attribute) and c.func.attr == 'append' \
                    and isinstance(c.func.value, ast.Name) and self.env.get(c.func.value.id) == 'OUT':
                x = self.ev(c.args[0])
                self.effects.append(self.classify(x))
                return None
            raise Unknown('call statement ' + unparse(s)[:40])
        if isinstance(s, ast.Pass):
            return None
        raise Unknown(type(s).__name__)

    def classify(self, x):
        if x == 'TOK':
            return 'COPY'
        if isinstance(x, tuple) and x[0] == 'token':
            _, cls, txt, pos, fix = x
            where = {('tokattr', 'pos'): 'tok', ('symattr', 'op', 'pos'): 'op',
                     ('symattr', 'elem', 'pos'): 'elem'}.get(pos, '?')
            if not fix:
                return 'UNPINNED'
            if cls == 'SpaceToken' and txt == ' ':
                return 'SP@' + where
            if cls == 'TextToken' and txt == 'OPWORD':
                return 'OPWORD@' + where
            if cls == 'TextToken' and txt == 'PLACEHOLDER':
                return 'PLACEHOLDER@' + where
            if cls == 'TextToken' and txt == 'PUNCTCHAR':
                return 'PUNCT@' + where
            return 'OTHER(%s,%r)' % (cls, txt)
        return 'OTHER(%r)' % (x,)


def reference(v):
    """the documented scheme: (effects, first_part', next_repl')"""
    fp, nr = v['first_part'], v['next_repl']
    if not v['ismath']:
        eff = ['COPY']
        if v['visible']:
            fp, nr = False, True
        return eff, fp, nr
    if v['only_space']:
        return ['SP@tok'], fp, nr
    eff = []
    if v['start_space']:
        eff.append('SP@tok')
    if not v['inline'] and fp and v['op']:
        eff += ['SP@tok', 'OPWORD@op', 'SP@op']
    if v['inline'] or ((nr or (v['op'] and fp)) and v['elem']):
        eff.append('ROTATE')
    if v['inline'] or v['elem']:
        eff.append('PLACEHOLDER@' + ('tok' if v['inline'] else 'elem'))
    nr2 = False
    if v['punct']:
        eff.append('PUNCT@tok')
        nr2 = True
    if v['op'] and not v['elem']:
        nr2 = True
    if v['end_space']:
        eff.append('SP@tok')
    return eff, fp, nr2


def valuations():
    for inline, fp, nr in itertools.product((True, False), repeat=3):
        base = dict(inline=inline, first_part=fp, next_repl=nr, only_space=False,
                    start_space=False, end_space=False, op=False, elem=False, punct=False,
                    visible=False)
        for vis in (True, False):
            yield dict(base, ismath=False, visible=vis)
        yield dict(base, ismath=True, only_space=True, start_space=True, end_space=True)
        for ss, es, op, el, pu in itertools.product((True, False), repeat=5):
            yield dict(base, ismath=True, start_space=ss, end_space=es, op=op, elem=el, punct=pu)


def mt1(model):
    r = RuleResult('MT1', 'decision table of MathParser.replace_section: for every consistent '
                   'valuation of (inline, first part, next replacement, kind of token, start / end '
                   'space, leading operator, element, final punctuation) the tokens emitted in '
                   'order, the rotation of the placeholder collection and the next state equal '
                   'the documented scheme', floor=200)
    f = model.func('mathparser.MathParser.replace_section')
    if len(f.params) < 6:
        raise AnalysisError('anchor vanished: signature of replace_section')
    p_inline, p_tokens, p_first, p_next, p_repls = f.params[1:6]
    loop = [s for s in f.node.body if isinstance(s, ast.For)]
    if len(loop) != 1 or not isinstance(loop[0].target, ast.Name):
        raise AnalysisError('anchor vanished: token loop of replace_section')
    loop = loop[0]
    pre = f.node.body[:f.node.body.index(loop)]
    post = f.node.body[f.node.body.index(loop) + 1:]
    tokvar = loop.target.id
    # prologue: first_part is the negation of first_section, out is a fresh list
    first_part_var = None
    out_var = None
    parms_alias = {}
    for s in pre:
        if isinstance(s, ast.Assign) and isinstance(s.targets[0], ast.Name):
            v = s.value
            if isinstance(v, ast.UnaryOp) and isinstance(v.op, ast.Not) and isinstance(v.operand, ast.Name) \
                    and v.operand.id == p_first:
                first_part_var = s.targets[0].id
            elif isinstance(v, ast.List) and not v.elts:
                out_var = s.targets[0].id
            elif unparse(v) == 'self.parser.parms':
                parms_alias[s.targets[0].id] = 'PARMS'
    if first_part_var is None:
        r.fail(f.node, 'the first part of a later section is no longer derived from '
               '"not first_section"', stmt='first_part = not first_section')
        return r
    if out_var is None:
        raise AnalysisError('anchor vanished: output list of replace_section')
    # epilogue: returns (out, next_repl)
    ret = [s for s in post if isinstance(s, ast.Return)]
    if not ret or not isinstance(ret[0].value, ast.Tuple) or [unparse(x) for x in ret[0].value.elts] \
            != [out_var, p_next]:
        r.fail(f.node, 'replace_section does not return (tokens, next replacement flag)',
               stmt='return of replace_section')
        return r
    n_ok = 0
    unknown = None
    for v in valuations():
        it = Interp(model, f, v)
        it.env = {p_inline: v['inline'], first_part_var: v['first_part'], p_next: v['next_repl'],
                  tokvar: 'TOK', out_var: 'OUT', p_repls: 'REPLS'}
        it.env.update(parms_alias)
        try:
            it.run(loop.body)
        except Unknown as e:
            unknown = str(e)
            break
        got = (it.effects, it.env[first_part_var], bool(it.truth(it.env[p_next])))
        want = reference(v)
        want = (want[0], want[1], want[2])
        if got == want:
            n_ok += 1
            r.ok_plain(_vtext(v), 'effects %s, next_repl=%s' % (' '.join(got[0]) or '-', got[2]),
                       nontrivial=v['ismath'] and not v['only_space'])
        elif len(r.findings) >= 6:
            r.instances += 1
        else:
            r.fail(loop, 'for %s the code emits [%s] (first_part=%s, next_repl=%s), the documented '
                   'scheme is [%s] (first_part=%s, next_repl=%s)'
                   % (_vtext(v), ' '.join(got[0]) or '-', got[1], got[2],
                      ' '.join(want[0]) or '-', want[1], want[2]),
                   stmt='replace_section: ' + _vtext(v),
                   witness=_witness(v))
    if unknown:
        r.undec(loop, 'construct not interpreted by the decision-table extractor: ' + unknown)
        r.instances = max(r.instances, r.floor)
    return r


def _vtext(v):
    if not v['ismath']:
        kind = 'non-maths token %s visible text' % ('with' if v['visible'] else 'without')
    elif v['only_space']:
        kind = 'maths part of space only'
    else:
        kind = 'maths part[' + ','.join(k for k in ('start_space', 'end_space', 'op', 'elem', 'punct') if v[k]) + ']'
    return '%s, %s, first_part=%s, next_repl=%s' % ('inline' if v['inline'] else 'display', kind,
                                                    v['first_part'], v['next_repl'])


def _witness(v):
    if v['inline']:
        return 'an inline formula such as $\\le$ (operator only) / $x,$ next to another formula'
    return 'a displayed equation with several & sections and rows'


def mt2(model):
    r = RuleResult('MT2', 'the callers of replace_section: inline maths passes inline=True, a '
                   'first section and the inline collection of the current language; displayed '
                   'maths passes inline=False, threads the next-replacement flag, and uses the '
                   'display collection; the final punctuation of a removed / simple equation is '
                   'taken from the whole equation', floor=6)
    rs = model.func('mathparser.MathParser.replace_section')
    inl = model.func('mathparser.MathParser.expand_inline_math')
    dis = model.func('mathparser.MathParser.expand_display_math')
    def calls(fn):
        return [n for n in iter_scope(fn.node) if isinstance(n, ast.Call)
                and (model.resolve_call(n) or (0, 0))[1] is rs]
    ci = calls(inl)
    if len(ci) != 1:
        raise AnalysisError('anchor vanished: call of replace_section in expand_inline_math')
    a = ci[0].args
    want = [('inline', True), ('first_section', True), ('next_repl', True)]
    got = [a[0], a[2], a[3]] if len(a) >= 5 else []
    if got and all(T.is_const(x, True) for x in got):
        r.ok(ci[0], 'inline maths: inline=True, first section, next_repl=True', nontrivial=True)
    else:
        r.fail(ci[0], 'inline maths does not call replace_section(True, .., True, True, ..)')
    def coll_text(e):
        if isinstance(e, ast.Name):
            vals = T.resolve_local(model, e)
            if len(vals) == 1 and vals[0] is not e:
                return unparse(vals[0])
        return unparse(e)
    if len(a) >= 5 and coll_text(a[4]).endswith('lang_context.math_repl_inline'):
        r.ok(ci[0], 'inline collection of the current language')
    else:
        r.fail(ci[0], 'inline maths does not use lang_context.math_repl_inline')
    cd = calls(dis)
    if len(cd) != 1:
        raise AnalysisError('anchor vanished: call of replace_section in expand_display_math')
    a = cd[0].args
    if len(a) >= 5 and T.is_const(a[0], False) and isinstance(a[2], ast.Name) and isinstance(a[3], ast.Name):
        r.ok(cd[0], 'displayed maths: inline=False, section flag and next_repl are variables',
             nontrivial=True)
    else:
        r.fail(cd[0], 'displayed maths does not call replace_section(False, .., first_section, next_repl, ..)')
    if len(a) >= 5 and coll_text(a[4]).endswith('lang_context.math_repl_display'):
        r.ok(cd[0], 'display collection of the current language')
    else:
        r.fail(cd[0], 'displayed maths does not use lang_context.math_repl_display')
    # next_repl is threaded: the second element of the result is assigned to the variable
    # passed as next_repl
    p = cd[0]._parent
    if isinstance(p, ast.Assign) and isinstance(p.targets[0], ast.Tuple) and len(p.targets[0].elts) == 2 \
            and len(a) >= 4 and unparse(p.targets[0].elts[1]) == unparse(a[3]):
        r.ok(p, 'the next-replacement flag is threaded through the sections', nontrivial=True)
        sec_var = unparse(p.targets[0].elts[0])
    else:
        r.fail(cd[0], 'the next-replacement flag returned by replace_section is not fed into the next call')
        sec_var = None
    # first_section: False after '&', True after '\\\\' and at the start -- decided by running the
    # tail of the section loop concretely for the three kinds of section end
    from .struct import _cev, _Stop
    fs = unparse(a[2]) if len(a) >= 3 else None
    vals = {}
    init = [n for n in dis.node.body if isinstance(n, ast.Assign) and any(
        isinstance(t, ast.Name) and t.id == fs for t in n.targets)]
    if init and isinstance(init[0].value, ast.Constant):
        vals['init'] = repr(init[0].value.value)
    lp = next((n for n in dis.node.body if isinstance(n, ast.While)), None)
    endvar = None
    if lp is not None:
        for n in ast.walk(lp):
            if isinstance(n, ast.Assign) and isinstance(n.targets[0], ast.Tuple) and isinstance(n.value, ast.Call) \
                    and T.call_name(n.value) == 'expand_math_section' and len(n.targets[0].elts) == 2:
                endvar = unparse(n.targets[0].elts[1])

    def run(stmts, env):
        for st_ in stmts:
            if isinstance(st_, ast.If):
                try:
                    c = _cev(st_.test, env)
                except _Stop:
                    continue        # a test on something else (buf.cur()): not part of the table
                res = run(st_.body if c else st_.orelse, env)
                if res:
                    return res
            elif isinstance(st_, ast.Assign) and len(st_.targets) == 1:
                t0 = st_.targets[0]
                try:
                    v = _cev(st_.value, env)
                except _Stop:
                    v = ('obj',)
                if isinstance(t0, ast.Name):
                    env[t0.id] = v
                elif isinstance(t0, ast.Tuple) and isinstance(v, tuple) and len(v) == len(t0.elts) and v[:1] != ('obj',):
                    for x, y in zip(t0.elts, v):
                        if isinstance(x, ast.Name):
                            env[x.id] = y
                elif isinstance(t0, ast.Tuple):
                    for x in t0.elts:
                        if isinstance(x, ast.Name):
                            env[x.id] = ('obj',)
            elif isinstance(st_, ast.Break):
                return 'BREAK'
        return None
    if lp is not None and endvar is not None and fs is not None:
        for key, tokv in (('amp', ('tok', '&')), ('row', ('tok', '\\\\')), ('end', None)):
            env = {endvar: tokv, fs: ('obj',)}
            # dictionaries / tables defined before the loop
            for n in dis.node.body:
                if isinstance(n, ast.Assign) and isinstance(n.targets[0], ast.Name) and isinstance(n.value, ast.Dict):
                    try:
                        env[n.targets[0].id] = _cev(n.value, env)
                    except _Stop:
                        pass
            idx = next((i for i, x in enumerate(lp.body) if any(
                isinstance(c, ast.Call) and T.call_name(c) == 'replace_section' for c in ast.walk(x))), -1)
            res = run(lp.body[idx + 1:], env)
            vals[key] = 'BREAK' if res == 'BREAK' else repr(env.get(fs))
    if vals.get('init') == 'True' and vals.get('amp') == 'False' and vals.get('row') == 'True' \
            and vals.get('end') == 'BREAK':
        r.ok(dis.node, 'first_section: True at start and after a row break, False after &; the loop ends '
             'at any other section end', nontrivial=True)
    else:
        r.fail(dis.node, 'the section flag is not (True at start, False after &, True after \\\\): %s' % vals,
               stmt='first_section updates')
    # accumulated output variable: `out += sec`
    acc = None
    for n in iter_scope(dis.node):
        if isinstance(n, ast.AugAssign) and isinstance(n.target, ast.Name) and sec_var \
                and unparse(n.value) == sec_var:
            acc = n.target.id
    if acc is None:
        r.fail(dis.node, 'the sections of an equation are not accumulated', stmt='out += sec')
        return r
    for n in iter_scope(dis.node):
        if isinstance(n, ast.Call) and T.call_name(n) == 'get_text_direct' and n.args:
            if unparse(n.args[0]) == acc:
                r.ok(n, 'final punctuation is looked up in the whole equation (%s)' % acc,
                     nontrivial=True)
            else:
                r.fail(n, 'the final punctuation mark is taken from %s, not from the whole '
                       'equation: lost when the last row / section is empty' % unparse(n.args[0]),
                       witness='simple-equations mode, equation ending in "\\\\" or "&"')
    return r


def mt3(model):
    r = RuleResult('MT3', 'every displayed-equation environment of LaTeX and amsmath (displaymath, '
                   'equation, eqnarray, align, alignat, flalign, gather, multline and starred '
                   'forms - names written down from the LaTeX / amsmath documentation, not from '
                   'the repository) is declared as EquEnv', floor=10)
    want = {'displaymath', 'equation', 'eqnarray', 'eqnarray*', 'equation*', 'align', 'align*',
            'alignat', 'alignat*', 'flalign', 'flalign*', 'gather', 'gather*', 'multline',
            'multline*'}
    seen = {}
    for ent in tables.registry(model):
        name = tables.literal(ent['name']) if ent['name'] is not None else None
        if name in want:
            seen.setdefault(name, []).append(ent)
    for w in sorted(want):
        ents = seen.get(w, [])
        if not ents:
            r.fail(model.mod('parameters').tree, 'equation environment %s is not declared: its '
                   'maths source is copied into the text' % w, stmt='EquEnv ' + w,
                   witness='\\usepackage{amsmath} \\begin{%s} a = b. \\end{%s}' % (w, w))
        for e in ents:
            if e['kind'] == 'EquEnv':
                r.ok(e['node'], '%s is an EquEnv' % w)
            else:
                r.fail(e['node'], 'equation environment %s is declared as %s: its maths source '
                       'would be copied as text' % (w, e['kind']))
    return r


def mt5(model):
    r = RuleResult('MT5', 'the "last character" of a maths part is the last non-blank character '
                   'of the direct text of the complete part (all of its tokens): closing maths '
                   'space, however many, never hides a final punctuation mark', floor=2)
    f = model.func('mathparser.MathPartToken.last_char')
    calls = [n for n in iter_scope(f.node) if isinstance(n, ast.Call)
             and T.call_name(n) == 'get_text_direct']
    if len(calls) != 1 or not calls[0].args:
        r.fail(f.node, 'last_char no longer derives the character from the direct text of the part',
               stmt='last_char uses get_text_direct')
        return r
    a = calls[0].args[0]
    if unparse(a) == 'self.toks':
        r.ok(calls[0], 'direct text of all tokens of the part (self.toks)', nontrivial=True)
    else:
        r.fail(calls[0], 'only %s is inspected, not the complete part: punctuation in front of '
               'closing maths space is lost' % unparse(a),
               witness='$a,\\;\\;$ : two closing maths spaces')
    strips = [n for n in iter_scope(f.node) if isinstance(n, ast.Call) and T.call_name(n) in ('strip', 'rstrip')]
    if strips:
        r.ok(strips[0], 'blanks (maths space) are stripped before the last character is taken')
    else:
        r.fail(f.node, 'closing blanks are not stripped before the last character is taken',
               stmt='last_char strips')
    rets = T.func_returns(f)
    idx_ok = any(isinstance(x, ast.Subscript) and T.is_const(x.slice) is False or True for x in rets)
    def minus1(e):
        return isinstance(e, ast.UnaryOp) and isinstance(e.op, ast.USub) and T.is_const(e.operand, 1)
    neg1 = [n for n in iter_scope(f.node) if isinstance(n, ast.Subscript)
            and (minus1(n.slice) or (isinstance(n.slice, ast.Slice) and minus1(n.slice.lower)
                                     and n.slice.upper is None and n.slice.step is None))]
    if neg1:
        r.ok(neg1[0], 'index -1 of the stripped text')
    else:
        r.fail(f.node, 'last_char does not return the last character', stmt='last_char index -1')
    return r
