"""TJ1-TJ3, AB2: the proofreader's JSON answer (DESIGN.md 3.4, 3.2)."""
import ast

from ..model import AnalysisError, unparse, iter_scope
from ..report import RuleResult
from ..flow import Flow, always_exits
from ..callgraph import callgraph
from .. import guards
from .. import tok as T

RAW = 'T'       # raw JSON value: only json_get / `k in x` / store into / pass on
LST = 'TL'      # list validated by json_get(.., list): iteration yields RAW

SAFE_EXT = {'json.dumps', 'isinstance', 'type', 'id', 'repr', 'str', 'print', 'bool'}
SAFE_LIST_BUILTINS = {'len', 'enumerate', 'list', 'sorted', 'reversed', 'any', 'all', 'iter',
                      'tuple', 'bool', 'isinstance'}
LIST_METHODS = {'sort', 'append', 'extend', 'copy', 'insert', 'reverse'}


def _is_json_get(model, call):
    r = model.resolve_call(call)
    if r and r[0] == 'func' and r[1].qname == 'shell.shell.json_get':
        return True
    # a parameter that receives shell.json_get at every call site
    f = call.func
    if isinstance(f, ast.Name) and call._fn is not None:
        g = call._fn
        while g is not None:
            if f.id in g.params:
                fv = callgraph(model).fref.get((g.qname, g.params.index(f.id)), set())
                return bool(fv) and all(x.qname == 'shell.shell.json_get' for x in fv)
            g = g.outer
    return False


def _is_json_decode(model, call):
    f = call.func
    r = model.resolve_call(call)
    if r and r[0] == 'ext' and r[1] in ('json.loads', 'json.load'):
        return True
    if isinstance(f, ast.Attribute) and f.attr in ('decode', 'raw_decode') \
            and isinstance(f.value, ast.Name):
        mod = call._mod
        name = f.value.id
        src = None
        if name in mod.injected:
            sh = model.by_short.get('shell.shell')
            vals = sh.globals.get(mod.injected[name], []) if sh else []
            src = vals[0] if vals else None
        elif name in mod.globals:
            src = mod.globals[name][0]
        if isinstance(src, ast.Call) and unparse(src.func).endswith('JSONDecoder'):
            return True
    return False


def _typ_kind(call):
    """kind of the value json_get(x, key, typ) returns"""
    t = call.args[2] if len(call.args) > 2 else None
    if isinstance(t, ast.Name) and t.id == 'list':
        return LST
    if isinstance(t, ast.Name) and t.id == 'dict':
        return RAW
    return None


class Ctx:
    def __init__(self, model):
        self.model = model
        self.cg = callgraph(model)
        self.param = {}         # (qname, idx) -> kind
        self.ret = {}           # qname -> kind | ('tuple', [kinds])
        self.tattrs = set()     # attribute names that carry raw values
        self.valid_keys = set()
        self.changed = False
        self.findings = {}      # key -> (node, msg)
        self.uses = {}          # id(node) -> (node, how)

    def set_param(self, q, i, k):
        if k is None:
            return
        old = self.param.get((q, i))
        new = _join(old, k)
        if new != old:
            self.param[(q, i)] = new
            self.changed = True

    def set_ret(self, q, k):
        old = self.ret.get(q)
        new = _join_ret(old, k)
        if new != old:
            self.ret[q] = new
            self.changed = True


def _join(a, b):
    if a == b:
        return a
    if a is None:
        return b
    if b is None:
        return a
    if isinstance(a, tuple) or isinstance(b, tuple):
        return RAW
    if RAW in (a, b):
        return RAW
    return LST


def _join_ret(a, b):
    if a == b or b is None:
        return a
    if a is None:
        return b
    if isinstance(a, tuple) and isinstance(b, tuple) and len(a[1]) == len(b[1]):
        return ('tuple', [_join(x, y) for x, y in zip(a[1], b[1])])
    return _join(a if not isinstance(a, tuple) else RAW, b if not isinstance(b, tuple) else RAW)


class Taint(Flow):
    def __init__(self, ctx, func, report):
        super().__init__()
        self.ctx = ctx
        self.model = ctx.model
        self.func = func
        self.report = report
        st = {}
        for i, p in enumerate(func.params):
            k = ctx.param.get((func.qname, i))
            if k:
                st[p] = k
        self.run(func.body, st)

    def join(self, a, b):
        out = {}
        for k in set(a) | set(b):
            v = _join(a.get(k), b.get(k))
            if v:
                out[k] = v
        return out

    # ---- findings ---------------------------------------------------------------
    def bad(self, node, msg):
        if self.report:
            self.ctx.findings[(id(node), msg)] = (node, msg)

    def good(self, node, how):
        if self.report:
            self.ctx.uses[id(node)] = (node, how)

    # ---- evaluation ---------------------------------------------------------------
    def kind(self, e, st):
        if e is None:
            return None
        m = getattr(self, 'k_' + type(e).__name__, None)
        if m:
            return m(e, st)
        for c in ast.iter_child_nodes(e):
            if isinstance(c, ast.expr):
                self.kind(c, st)
        return None

    def k_Name(self, e, st):
        return st.get(e.id)

    def k_Constant(self, e, st):
        return None

    def k_Attribute(self, e, st):
        base = self.kind(e.value, st)
        if base == RAW:
            self.bad(e, 'attribute .%s of a raw JSON value' % e.attr)
            return None
        if base == LST and not (isinstance(e._parent, ast.Call) and e._parent.func is e
                                and e.attr in LIST_METHODS):
            self.bad(e, 'attribute .%s of a JSON list' % e.attr)
        if e.attr in self.ctx.tattrs and isinstance(e.ctx, ast.Load):
            return RAW
        return None

    def k_Subscript(self, e, st):
        base = self.kind(e.value, st)
        if isinstance(e.slice, ast.Slice):
            for x in (e.slice.lower, e.slice.upper, e.slice.step):
                self._need_clean(x, st, e, 'slice bound')
            if base == RAW:
                self.bad(e, 'slice of a raw JSON value')
            return base if base == LST else None
        ik = self.kind(e.slice, st)
        if ik:
            self.bad(e, 'raw JSON value used as an index')
        if base == RAW:
            if isinstance(e.ctx, ast.Store):
                return None
            key = e.slice.value if isinstance(e.slice, ast.Constant) else None
            if isinstance(key, str) and key in self.ctx.valid_keys:
                self.good(e, "raw load of key %r: validated at source for every match "
                          "(m[%r] = json_get(...) in the part loop)" % (key, key))
                return None
            self.bad(e, 'raw subscript %s of a JSON value: KeyError / TypeError for an answer '
                     'lacking or mistyping that field' % unparse(e))
            return None
        if base == LST:
            if isinstance(e.value, ast.Name) and guards.has_fact(
                    e, lambda x, t: t and isinstance(x, ast.Name) and x.id == e.value.id):
                self.good(e, 'element of a validated list under a truth test of the list')
            else:
                self.bad(e, 'element %s of a JSON list without an emptiness test' % unparse(e))
            return RAW
        return None

    def _need_clean(self, x, st, node, what):
        if x is not None and self.kind(x, st):
            self.bad(node, 'raw JSON value used as ' + what)

    def k_BinOp(self, e, st):
        a, b = self.kind(e.left, st), self.kind(e.right, st)
        if RAW in (a, b):
            self.bad(e, 'arithmetic / concatenation on a raw JSON value: ' + unparse(e)[:60])
            return None
        if LST in (a, b):
            return LST
        return None

    def k_UnaryOp(self, e, st):
        k = self.kind(e.operand, st)
        if k == RAW and not isinstance(e.op, ast.Not):
            self.bad(e, 'arithmetic on a raw JSON value')
        return None

    def k_BoolOp(self, e, st):
        ks = [self.kind(v, st) for v in e.values]
        out = None
        for k in ks:
            out = _join(out, k)
        return out

    def k_Compare(self, e, st):
        lk = self.kind(e.left, st)
        for op, c in zip(e.ops, e.comparators):
            ck = self.kind(c, st)
            if isinstance(op, (ast.In, ast.NotIn)):
                if lk:
                    self.bad(e, 'raw JSON value as member in a containment test')
                continue
            if isinstance(op, (ast.Is, ast.IsNot)):
                continue
            if lk == RAW or ck == RAW:
                self.bad(e, 'comparison on a raw JSON value: ' + unparse(e)[:60])
        return None

    def k_IfExp(self, e, st):
        self.kind(e.test, st)
        return _join(self.kind(e.body, st), self.kind(e.orelse, st))

    def k_Tuple(self, e, st):
        ks = [self.kind(x, st) for x in e.elts]
        if any(ks):
            return ('tuple', ks)
        return None

    def k_List(self, e, st):
        ks = [self.kind(x, st) for x in e.elts]
        if any(k for k in ks):
            return LST
        return None

    def k_Dict(self, e, st):
        for k in e.keys:
            if k is not None and self.kind(k, st):
                self.bad(e, 'raw JSON value as a dict key')
        ks = [self.kind(v, st) for v in e.values]
        return RAW if any(ks) else None

    def k_JoinedStr(self, e, st):
        for v in e.values:
            if isinstance(v, ast.FormattedValue):
                self.kind(v.value, st)
        return None

    def _comp(self, e, st):
        inner = dict(st)
        for g in e.generators:
            ik = self.kind(g.iter, inner)
            self._bind(g.target, ik, g.iter, inner, e)
            for c in g.ifs:
                self.kind(c, inner)
        ek = self.kind(e.elt, inner) if hasattr(e, 'elt') else None
        return LST if ek else None

    k_ListComp = _comp
    k_GeneratorExp = _comp
    k_SetComp = _comp

    def k_Lambda(self, e, st):
        return None

    def k_Call(self, e, st):
        model = self.model
        if _is_json_get(model, e):
            if len(e.args) >= 2:
                for a in e.args[1:]:
                    self.kind(a, st)
                self.kind(e.args[0], st)
            self.good(e, 'json_get(%s)' % ', '.join(unparse(a) for a in e.args[1:3]))
            return _typ_kind(e)
        if _is_json_decode(model, e):
            for a in e.args:
                self.kind(a, st)
            return RAW
        aks = [self.kind(a, st) for a in e.args]
        kks = {k.arg: self.kind(k.value, st) for k in e.keywords}
        f = e.func
        r = model.resolve_call(e)
        targets = self.ctx.cg.targets(e)
        in_scope = [t for t in targets if t.mod.short.startswith('shell')
                    and t.qname not in ('shell.shell.json_get', 'shell.shell.json_fatal')]
        if in_scope:
            out = None
            for t in in_scope:
                off = 1 if t.cls is not None and t.params[:1] == ['self'] else 0
                for i, k in enumerate(aks):
                    if k:
                        self.ctx.set_param(t.qname, i + off, k if not isinstance(k, tuple) else RAW)
                for name, k in kks.items():
                    if k and name in t.params:
                        self.ctx.set_param(t.qname, t.params.index(name), k)
                out = _join_ret(out, self.ctx.ret.get(t.qname))
            return out
        if isinstance(f, ast.Attribute) and f.attr in ('append', 'extend', 'insert') \
                and isinstance(f.value, ast.Name) and st.get(f.value.id) != RAW and any(aks):
            # a JSON value / list is put into a list: the list now holds raw elements
            st[f.value.id] = LST
            return None
        if isinstance(f, ast.Attribute):
            rk = self.kind(f.value, st) if not isinstance(f.value, ast.Name) else st.get(f.value.id)
            if rk == RAW:
                self.bad(e, 'method .%s() of a raw JSON value' % f.attr)
                return None
            if rk == LST:
                if f.attr == 'copy':
                    return LST
                if f.attr in LIST_METHODS:
                    return None
                self.bad(e, 'method .%s() of a JSON list' % f.attr)
                return None
            if f.attr == 'join' and aks and aks[0]:
                self.bad(e, 'raw JSON values joined as strings')
                return None
        name = None
        if r and r[0] == 'builtin':
            name = r[1]
        elif r and r[0] == 'ext':
            name = r[1]
        for a, k in zip(e.args, aks):
            if not k:
                continue
            kk = RAW if isinstance(k, tuple) else k
            if name in SAFE_EXT:
                continue
            if kk == LST and name in SAFE_LIST_BUILTINS:
                continue
            if targets:
                continue        # repo function outside the shell: not expected
            self.bad(e, '%s JSON value passed to %s' % ('raw' if kk == RAW else 'list',
                                                      name or unparse(f)))
        if name in ('list', 'sorted', 'reversed', 'tuple') and aks and aks[0] == LST:
            return LST
        if name == 'enumerate' and aks and aks[0] == LST:
            return ('enum', LST)
        return None

    # ---- statements -----------------------------------------------------------------
    def _bind(self, target, itk, iter_node, st, node):
        """bind a loop / comprehension target to the elements of a value of kind itk"""
        if itk == RAW:
            self.bad(node, 'iteration over a raw JSON value')
            ek = None
        elif itk == LST:
            ek = RAW
        elif isinstance(itk, tuple) and itk[0] == 'enum':
            ek = ('tuple', [None, RAW])
        else:
            ek = None
        self._assign(target, ek, st)

    def _assign(self, target, k, st):
        if isinstance(target, ast.Name):
            if k and not isinstance(k, tuple):
                st[target.id] = k
            elif isinstance(k, tuple) and k[0] == 'tuple':
                st[target.id] = RAW
            else:
                st.pop(target.id, None)
        elif isinstance(target, (ast.Tuple, ast.List)):
            if isinstance(k, tuple) and k[0] == 'tuple' and len(k[1]) == len(target.elts):
                for t, kk in zip(target.elts, k[1]):
                    self._assign(t, kk, st)
            else:
                for t in target.elts:
                    self._assign(t, RAW if k == RAW else None, st)
        elif isinstance(target, ast.Attribute):
            self.kind(target.value, st)
            if k == RAW or (isinstance(k, tuple)):
                if target.attr not in self.ctx.tattrs:
                    self.ctx.tattrs.add(target.attr)
                    self.ctx.changed = True
        elif isinstance(target, ast.Subscript):
            bk = self.kind(target.value, st)
            if self.kind(target.slice, st):
                self.bad(target, 'raw JSON value used as an index')

    def transfer(self, s, st):
        if isinstance(s, ast.Assign):
            k = self.kind(s.value, st)
            for t in s.targets:
                self._assign(t, k, st)
        elif isinstance(s, ast.AugAssign):
            k = self.kind(s.value, st)
            cur = self.kind(_load(s.target), st)
            if RAW in (k, cur):
                self.bad(s, 'augmented assignment with a raw JSON value')
            elif LST in (k, cur) and isinstance(s.target, ast.Name):
                st[s.target.id] = LST
        elif isinstance(s, ast.Expr):
            self.kind(s.value, st)
        elif isinstance(s, ast.Raise):
            pass
        elif isinstance(s, ast.Assert):
            self.kind(s.test, st)
        return st

    def cond(self, test, st, branch):
        self.kind(test, st)
        return st

    def bind_for(self, s, st):
        k = self.kind(s.iter, st)
        self._bind(s.target, k, s.iter, st, s)
        return st

    def bind_with(self, s, st):
        for it in s.items:
            self.kind(it.context_expr, st)
        return st

    def on_return(self, node, st):
        if node is not None and node.value is not None:
            k = self.kind(node.value, st)
            self.ctx.set_ret(self.func.qname, k)


def _load(t):
    import copy
    n = copy.copy(t)
    n.ctx = ast.Load()
    return n


def _validated_keys(model, r):
    """keys K for which the part loop of run_proofreader_options stores
    m[K] = <clean expression containing json_get(m, K, ..)> for every match that is added
    to the accumulated result"""
    f = model.func('shell.proofreader.run_proofreader_options')
    acc = None
    for n in iter_scope(f.node):
        if isinstance(n, ast.Return) and isinstance(n.value, ast.Tuple) and len(n.value.elts) == 4 \
                and isinstance(n.value.elts[3], ast.Name):
            acc = n.value.elts[3].id
    if acc is None:
        raise AnalysisError('anchor vanished: 4-tuple result of run_proofreader_options')
    keysets = []
    for n in iter_scope(f.node):
        src = None
        is_ext = False
        if isinstance(n, ast.AugAssign) and isinstance(n.target, ast.Name) and n.target.id == acc:
            src, is_ext = n.value, True
        elif isinstance(n, ast.Expr) and isinstance(n.value, ast.Call) \
                and isinstance(n.value.func, ast.Attribute) and n.value.func.attr == 'extend' \
                and isinstance(n.value.func.value, ast.Name) and n.value.func.value.id == acc and n.value.args:
            src, is_ext = n.value.args[0], True
        if is_ext:
            if not isinstance(src, ast.Name):
                keysets.append(set())
                continue
            blk = _block(n)
            ks = set()
            for s in blk[:blk.index(n)]:
                if isinstance(s, ast.For) and isinstance(s.iter, ast.Name) and s.iter.id == src.id \
                        and isinstance(s.target, ast.Name):
                    v = s.target.id
                    for b in s.body:
                        if isinstance(b, ast.Assign) and len(b.targets) == 1:
                            t = b.targets[0]
                            if isinstance(t, ast.Subscript) and isinstance(t.value, ast.Name) \
                                    and t.value.id == v and isinstance(t.slice, ast.Constant):
                                key = t.slice.value
                                gets = [c for c in ast.walk(b.value) if isinstance(c, ast.Call)
                                        and _is_json_get(model, c) and len(c.args) >= 3
                                        and isinstance(c.args[1], ast.Constant)
                                        and c.args[1].value == key
                                        and isinstance(c.args[0], ast.Name) and c.args[0].id == v
                                        and isinstance(c.args[2], ast.Name)
                                        and c.args[2].id in ('int', 'str')]
                                if gets:
                                    ks.add(key)
            # later extensions of the same list (own checks) happen before the loop? they
            # are clean dicts; what matters is that the loop covers the list that is added
            keysets.append(ks)
        elif isinstance(n, ast.Call) and isinstance(n.func, ast.Attribute) \
                and isinstance(n.func.value, ast.Name) and n.func.value.id == acc \
                and n.func.attr in ('append', 'insert'):
            keysets.append(set())
    if not keysets:
        return set()
    out = set(keysets[0])
    for k in keysets[1:]:
        out &= k
    return out


def _block(stmt):
    p = stmt._parent
    for field in ('body', 'orelse', 'finalbody'):
        seq = getattr(p, field, None)
        if isinstance(seq, list) and stmt in seq:
            return seq
    return [stmt]


def tj1(model):
    r = RuleResult('TJ1', 'every value obtained from the decoded proofreader answer is used '
                   'only through json_get(x, key, typ) (typed), `key in x`, stores into it, '
                   'iteration over a json_get list, or is passed on; a raw m[K] is accepted '
                   'only if K is validated at source for every match', floor=40)
    ctx = Ctx(model)
    ctx.valid_keys = _validated_keys(model, r)
    funcs = [f for f in model.all_funcs() if f.mod.short.startswith('shell')
             and f.qname not in ('shell.shell.json_get', 'shell.shell.json_fatal')
             and not isinstance(f.node, ast.Lambda)]
    for rounds in range(12):
        ctx.changed = False
        for f in funcs:
            Taint(ctx, f, report=False)
        if not ctx.changed:
            break
    else:
        raise AnalysisError('taint analysis did not converge')
    for f in funcs:
        Taint(ctx, f, report=True)
    for node, how in ctx.uses.values():
        r.ok(node, how, nontrivial=not how.startswith('json_get'))
    seen = set()
    for (nid, msg), (node, msg) in sorted(ctx.findings.items(), key=lambda kv: kv[1][0].lineno):
        r.fail(node, msg, witness='an answer in which this field is missing or has another '
                                  'JSON type')
    r.samples.append({'rule': 'TJ1', 'validated_at_source': sorted(ctx.valid_keys),
                      'tainted_parameters': sorted('%s#%d=%s' % (q, i, k)
                                                   for (q, i), k in ctx.param.items())[:40],
                      'tainted_attributes': sorted(ctx.tattrs)})
    return r


def tj2(model):
    r = RuleResult('TJ2', 'every operation that can raise on malformed bytes / text of the '
                   'answer (bytes.decode, JSONDecoder.decode, json.loads) lies in a try whose '
                   'handlers end in json_fatal / fatal', floor=4)
    m = model.mod('shell.proofreader')
    for n in ast.walk(m.tree):
        if not (isinstance(n, ast.Call) and isinstance(n.func, ast.Attribute)
                and n.func.attr in ('decode', 'loads', 'raw_decode')):
            continue
        # find enclosing try (body part)
        c, p = n, n._parent
        tr = None
        while p is not None and not isinstance(p, (ast.FunctionDef, ast.Module)):
            if isinstance(p, ast.Try) and any(c is s for s in p.body):
                tr = p
                break
            c, p = p, p._parent
        if tr is None:
            r.fail(n, '%s can raise on a malformed answer and is not inside a try block'
                   % unparse(n.func), witness='an answer truncated inside a multi-byte '
                                              'character / invalid JSON')
            continue
        ok = bool(tr.handlers)
        for h in tr.handlers:
            if h.type is not None and unparse(h.type) not in ('Exception', 'BaseException'):
                ok = False
            if not always_exits(h.body):
                ok = False
        if ok:
            r.ok(n, 'inside try: every handler ends in json_fatal / fatal', nontrivial=True)
        else:
            r.fail(n, 'the enclosing try does not catch every exception or a handler does '
                   'not stop with the diagnostic')
    return r


def tj3(model):
    r = RuleResult('TJ3', 'the error path is one diagnostic and exit status 1: json_get '
                   'rejects non-dicts and mistyped items, json_fatal -> tex2txt.fatal -> '
                   'raise_error(xit=1) -> stderr.write then sys.exit(xit)', floor=3)
    jg = model.func('shell.shell.json_get')
    # two isinstance guards leading to json_fatal, before the return
    guards_found = 0
    ret_seen = False
    for s in jg.node.body:
        if isinstance(s, ast.If) and always_exits(s.body) and not ret_seen:
            t = s.test
            if isinstance(t, ast.UnaryOp) and isinstance(t.op, ast.Not) and isinstance(t.operand, ast.Call) \
                    and getattr(t.operand.func, 'id', '') == 'isinstance':
                a0 = t.operand.args[0]
                a1 = t.operand.args[1]
                if isinstance(a0, ast.Name) and a0.id == jg.params[0] and unparse(a1) == 'dict':
                    guards_found |= 1
                elif isinstance(a1, ast.Name) and a1.id == jg.params[2]:
                    guards_found |= 2
        if isinstance(s, ast.Return):
            ret_seen = True
            if guards_found == 3:
                r.ok(s, 'both isinstance guards (container is a dict, item has the requested '
                     'type) dominate the return', nontrivial=True)
            else:
                r.fail(s, 'json_get returns without checking %s' %
                       ('the container type' if not guards_found & 1 else 'the item type'))
    if not ret_seen:
        r.fail(jg.node, 'json_get does not return the item')
    jf = model.func('shell.shell.json_fatal')
    if always_exits(jf.node.body):
        r.ok(jf.node, 'json_fatal ends in tex2txt.fatal on every path', nontrivial=True)
    else:
        r.fail(jf.node, 'json_fatal can return to its caller')
    fa = model.func('tex2txt.fatal')
    calls = [c for c in ast.walk(fa.node) if isinstance(c, ast.Call)
             and (model.resolve_call(c) or (0, 0))[1] is model.func('tex2txt.raise_error')]
    if len(calls) == 1 and any(k.arg == 'xit' and T.is_const(k.value, 1) for k in calls[0].keywords) \
            and isinstance(fa.node.body[-1], ast.Expr) and fa.node.body[-1].value is calls[0]:
        r.ok(calls[0], 'fatal calls raise_error(..., xit=1)')
    else:
        r.fail(fa.node, 'tex2txt.fatal does not call raise_error with xit=1 on every path')
    re_ = model.func('tex2txt.raise_error')
    wrote = False
    done = False
    for s in re_.node.body:
        for c in ast.walk(s):
            if isinstance(c, ast.Call) and unparse(c.func) == 'sys.stderr.write' \
                    and isinstance(s, ast.Expr):
                wrote = True
        if isinstance(s, ast.If) and any(isinstance(c, ast.Call) and unparse(c.func) == 'sys.exit'
                                         and c.args and isinstance(c.args[0], ast.Name)
                                         and c.args[0].id == 'xit'
                                         for x in s.body for c in ast.walk(x)):
            t = s.test
            cond_ok = isinstance(t, ast.Compare) and isinstance(t.ops[0], ast.IsNot) \
                and unparse(t.left) == 'xit' and T.is_const(t.comparators[0]) \
                and t.comparators[0].value is None
            if wrote and cond_ok:
                r.ok(s, 'stderr.write precedes `if xit is not None: sys.exit(xit)`', nontrivial=True)
            else:
                r.fail(s, 'raise_error exits before the diagnostic is written, or under another condition')
            done = True
    if not done:
        r.fail(re_.node, 'raise_error no longer exits with the requested status')
    # myopen: the other clean stop of the shell
    return r
