"""PS1-PS4: nothing a document can write to outlives the call (DESIGN.md 3.5).

Component E: a flow-insensitive, field-based may-alias analysis restricted to what is
needed here: which expressions may denote a *persistent* object (created at module level,
class level, as a default argument, or held by a cache) or share elements with one."""
import ast

from ..model import AnalysisError, unparse, iter_scope
from ..report import RuleResult
from ..callgraph import callgraph
from .. import tok as T

ENTRY_POINTS = ['tex2txt.tex2txt', 'shell.proofreader.run_proofreader_options',
                'shell.server.Handler.do_POST']

MUTATORS = {'append', 'extend', 'insert', 'pop', 'remove', 'sort', 'clear', 'update',
            'setdefault', 'add', 'discard', 'reverse', 'popitem'}
COPIERS = {'copy', 'keys', 'values', 'items', 'split', 'splitlines', 'readlines'}
IMMUTABLE_CALLS = {'str', 'int', 'float', 'bool', 'len', 'repr', 'tuple', 'frozenset', 'join',
                   'strip', 'lstrip', 'rstrip', 'lower', 'upper', 'format', 'replace', 'compile',
                   'chr', 'ord', 'min', 'max', 'abs', 'isinstance', 'open', 'read', 'count',
                   'find', 'rfind', 'startswith', 'endswith', 'fileno', 'encode', 'decode',
                   'range', 'type', 'id', 'hasattr'}

# named exceptions: persistent objects that reachable code may write, one line of reason each
EXCEPTIONS = {
    ('shell.addpacks', 'packages'): 'collector of the single addpacks() call at shell start; '
                                     'never read by the filter',
    ('shell.addpacks', 'documentclass'): 'collector of the single addpacks() call at shell '
                                         'start; never read by the filter',
}
GLOBAL_EXCEPTIONS = {
    ('shell.proofreader', 'ltserver_local_running'): 'liveness cache of an external process, '
                                                     'no document state',
}


class Site:
    def __init__(self, node, persistent, why, mod, name=None):
        self.node = node
        self.persistent = persistent
        self.why = why
        self.mod = mod
        self.name = name

    def label(self):
        return '%s:%d %s%s' % (self.mod.rel, getattr(self.node, 'lineno', 0), self.why,
                               ' `%s`' % self.name if self.name else '')


class PointsTo:
    def __init__(self, model):
        self.model = model
        self.cg = callgraph(model)
        self.sites = {}     # key -> Site
        self.pts = {}       # variable node -> set(site keys)
        self.elem = {}      # site key -> set(site keys)
        self.changed = True
        self.cached_funcs = set()
        self._scan_caches()
        self._solve()

    # ---------------------------------------------------------------- helpers
    def site(self, node, persistent, why, mod, name=None):
        k = id(node)
        if k not in self.sites:
            self.sites[k] = Site(node, persistent, why, mod, name)
            self.changed = True
        elif persistent and not self.sites[k].persistent:
            self.sites[k].persistent = True
            self.sites[k].why = why
            self.changed = True
        return k

    def add(self, var, keys):
        if not keys:
            return
        s = self.pts.setdefault(var, set())
        n = len(s)
        s |= keys
        if len(s) != n:
            self.changed = True

    def add_elem(self, objs, keys):
        if not keys:
            return
        for o in objs:
            s = self.elem.setdefault(o, set())
            n = len(s)
            s |= keys
            if len(s) != n:
                self.changed = True

    def elems(self, objs):
        out = set()
        for o in objs:
            out |= self.elem.get(o, set())
        return out

    def _scan_caches(self):
        for f in self.model.all_funcs():
            for d in getattr(f.node, 'decorator_list', []):
                t = unparse(d)
                if 'cache' in t:
                    self.cached_funcs.add(f.qname)

    def var(self, scope_fn, mod, name):
        """the pointer variable a Name denotes"""
        g = scope_fn
        while g is not None:
            if name in g.local_names():
                return ('v', g.qname, name)
            g = g.outer
        if name in mod.imports:
            imp = mod.imports[name]
            if imp[0] == 'sym' and imp[1] in self.model.mods:
                return ('v', self.model.mods[imp[1]].short, imp[2])
        if name in mod.injected:
            return ('v', 'shell.shell', mod.injected[name])
        return ('v', mod.short, name)

    # ---------------------------------------------------------------- evaluation
    def ev(self, e, fn, mod, top):
        """set of sites expression e may denote; top = evaluated at module / class level or
        as a default value (objects created here are persistent)"""
        if e is None:
            return set()
        if isinstance(e, ast.Name):
            return set(self.pts.get(self.var(fn, mod, e.id), ()))
        if isinstance(e, ast.Attribute):
            r = self.model.resolve_symbol(mod, fn, e.value) if isinstance(e.value, (ast.Name, ast.Attribute)) else None
            if r and r[0] == 'mod':
                return set(self.pts.get(('v', r[1].short, e.attr), ()))
            self.ev(e.value, fn, mod, top)
            return set(self.pts.get(('field', e.attr), ()))
        if isinstance(e, (ast.List, ast.Set, ast.Tuple)):
            k = self.site(e, top, 'display created at module level' if top else 'local display', mod)
            for x in e.elts:
                self.add_elem([k], self.ev(x.value if isinstance(x, ast.Starred) else x, fn, mod, top))
            return {k}
        if isinstance(e, ast.Dict):
            k = self.site(e, top, 'dict created at module level' if top else 'local dict', mod)
            for v in e.values:
                self.add_elem([k], self.ev(v, fn, mod, top))
            return {k}
        if isinstance(e, (ast.ListComp, ast.SetComp, ast.DictComp, ast.GeneratorExp)):
            k = self.site(e, top, 'comprehension at module level' if top else 'local comprehension', mod)
            for g in e.generators:
                src = self.ev(g.iter, fn, mod, top)
                self._bind(g.target, self.elems(src), fn, mod)
            body = e.value if isinstance(e, ast.DictComp) else e.elt
            self.add_elem([k], self.ev(body, fn, mod, top))
            return {k}
        if isinstance(e, ast.Subscript):
            base = self.ev(e.value, fn, mod, top)
            if isinstance(e.slice, ast.Slice):
                k = self.site(e, top, 'slice copy', mod)
                self.add_elem([k], self.elems(base))
                return {k}
            return self.elems(base)
        if isinstance(e, ast.BinOp):
            a = self.ev(e.left, fn, mod, top)
            b = self.ev(e.right, fn, mod, top)
            if a or b:
                k = self.site(e, top, 'concatenation', mod)
                self.add_elem([k], self.elems(a | b))
                return {k}
            return set()
        if isinstance(e, ast.IfExp):
            return self.ev(e.body, fn, mod, top) | self.ev(e.orelse, fn, mod, top)
        if isinstance(e, ast.BoolOp):
            out = set()
            for v in e.values:
                out |= self.ev(v, fn, mod, top)
            return out
        if isinstance(e, ast.Starred):
            return self.ev(e.value, fn, mod, top)
        if isinstance(e, ast.Call):
            return self.ev_call(e, fn, mod, top)
        if isinstance(e, ast.Lambda):
            return set()
        return set()

    def ev_call(self, e, fn, mod, top):
        argsets = [self.ev(a, fn, mod, top) for a in e.args]
        kwsets = {k.arg: self.ev(k.value, fn, mod, top) for k in e.keywords}
        f = e.func
        name = f.attr if isinstance(f, ast.Attribute) else getattr(f, 'id', '')
        r = self.model.resolve_call(e)
        targets = self.cg.targets(e)
        out = set()
        if targets:
            for t in targets:
                off = 1 if t.cls is not None and t.params[:1] == ['self'] else 0
                if isinstance(f, ast.Attribute) and off:
                    self.add(('v', t.qname, 'self'), self.ev(f.value, fn, mod, top))
                for i, s in enumerate(argsets):
                    if i + off < len(t.params):
                        self.add(('v', t.qname, t.params[i + off]), s)
                for kname, s in kwsets.items():
                    if kname in t.params:
                        self.add(('v', t.qname, kname), s)
                if t.name != '__init__':
                    out |= self.pts.get(('ret', t.qname), set())
            if r and r[0] == 'class':
                k = self.site(e, top, 'object created at module level' if top else 'local object', mod)
                out.add(k)
            return out
        if isinstance(f, ast.Attribute):
            recv = self.ev(f.value, fn, mod, top)
            if name in COPIERS or name in ('union', 'intersection', 'difference'):
                k = self.site(e, top, '.%s() at module level' % name if top else 'copy', mod)
                self.add_elem([k], self.elems(recv))
                return {k}
            if name in ('get', 'pop', 'setdefault', '__getitem__'):
                res = self.elems(recv)
                for s in argsets[1:]:
                    res |= s
                return res
            if name in MUTATORS:
                return set()
            if name in IMMUTABLE_CALLS:
                return set()
        if r and r[0] == 'builtin':
            if name in ('list', 'dict', 'set', 'sorted', 'reversed', 'enumerate', 'zip', 'filter', 'map'):
                k = self.site(e, top, '%s() at module level' % name if top else 'copy', mod)
                for s in argsets:
                    self.add_elem([k], self.elems(s))
                return {k}
            if name in ('next', 'iter', 'sum'):
                res = set()
                for s in argsets:
                    res |= self.elems(s) | (s if name == 'iter' else set())
                if name == 'sum' and top:
                    k = self.site(e, top, 'sum() at module level', mod)
                    res.add(k)
                return res
            if name in IMMUTABLE_CALLS:
                return set()
        if r and r[0] == 'ext':
            if r[1] in ('copy.copy',):
                k = self.site(e, top, 'copy.copy', mod)
                for s in argsets:
                    self.add_elem([k], self.elems(s))
                return {k}
            if r[1] in ('copy.deepcopy',):
                return {self.site(e, top, 'deepcopy', mod)}
        if name in IMMUTABLE_CALLS:
            return set()
        if top:
            # unknown call at module level: its result is a persistent object
            return {self.site(e, True, 'object obtained at module level from %s()' % (unparse(f)[:40]), mod)}
        return set()

    def _bind(self, target, keys, fn, mod):
        if isinstance(target, ast.Name):
            self.add(self.var(fn, mod, target.id), keys)
        elif isinstance(target, (ast.Tuple, ast.List)):
            for t in target.elts:
                self._bind(t, keys | self.elems(keys), fn, mod)
        elif isinstance(target, ast.Starred):
            self._bind(target.value, keys, fn, mod)
        elif isinstance(target, ast.Attribute):
            self.add(('field', target.attr), keys)
        elif isinstance(target, ast.Subscript):
            base = self.ev(target.value, fn, mod, False)
            self.add_elem(base, keys)

    # ---------------------------------------------------------------- constraints
    def _stmt(self, s, fn, mod, top):
        if isinstance(s, ast.Assign):
            v = self.ev(s.value, fn, mod, top)
            for t in s.targets:
                self._bind(t, v, fn, mod)
                if top and isinstance(t, ast.Name):
                    for k in v:
                        if self.sites[k].name is None and self.sites[k].node is s.value:
                            self.sites[k].name = t.id
        elif isinstance(s, ast.AugAssign):
            v = self.ev(s.value, fn, mod, top)
            cur = self.ev(_load(s.target), fn, mod, top)
            self.add_elem(cur, self.elems(v))
            if top:
                self._bind(s.target, v, fn, mod)
        elif isinstance(s, ast.AnnAssign) and s.value is not None:
            self._bind(s.target, self.ev(s.value, fn, mod, top), fn, mod)
        elif isinstance(s, (ast.For, ast.AsyncFor)):
            src = self.ev(s.iter, fn, mod, top)
            self._bind(s.target, self.elems(src), fn, mod)
        elif isinstance(s, ast.With):
            for it in s.items:
                v = self.ev(it.context_expr, fn, mod, top)
                if it.optional_vars is not None:
                    self._bind(it.optional_vars, v, fn, mod)
        elif isinstance(s, ast.Return):
            if fn is not None and s.value is not None:
                v = self.ev(s.value, fn, mod, top)
                if fn.qname in self.cached_funcs:
                    for k in v:
                        if not self.sites[k].persistent:
                            self.sites[k].persistent = True
                            self.sites[k].why = 'result held by the cache of %s()' % fn.name
                            self.changed = True
                self.add(('ret', fn.qname), v)
        elif isinstance(s, ast.Expr):
            e = s.value
            if isinstance(e, ast.Call) and isinstance(e.func, ast.Attribute) \
                    and e.func.attr in ('append', 'extend', 'insert', 'add', 'update', 'setdefault'):
                recv = self.ev(e.func.value, fn, mod, top)
                for i, a in enumerate(e.args):
                    v = self.ev(a, fn, mod, top)
                    if e.func.attr in ('extend', 'update'):
                        v = self.elems(v)
                    self.add_elem(recv, v)
            else:
                self.ev(e, fn, mod, top)
        elif isinstance(s, (ast.If, ast.While)):
            self.ev(s.test, fn, mod, top)
        elif isinstance(s, ast.Yield if False else ast.Pass):
            pass

    def _walk_body(self, body, fn, mod, top):
        for s in body:
            if isinstance(s, (ast.FunctionDef, ast.AsyncFunctionDef)):
                f = self.model.func_of_node.get(id(s))
                # default values are evaluated once, at definition time: persistent
                a = s.args
                pos = a.posonlyargs + a.args
                for p, d in zip(pos[len(pos) - len(a.defaults):], a.defaults):
                    v = self.ev(d, fn, mod, True)
                    for k in v:
                        self.sites[k].why = 'default value of parameter'
                        self.sites[k].name = '%s(%s=...)' % (s.name, p.arg)
                    if f:
                        self.add(('v', f.qname, p.arg), v)
                for p, d in zip(a.kwonlyargs, a.kw_defaults):
                    if d is not None and f:
                        self.add(('v', f.qname, p.arg), self.ev(d, fn, mod, True))
                continue
            if isinstance(s, ast.ClassDef):
                self._walk_body(s.body, fn, mod, True)
                # a class-level attribute is what self.<name> yields as long as no instance attribute hides it
                for cs in s.body:
                    if isinstance(cs, ast.Assign):
                        for t in cs.targets:
                            if isinstance(t, ast.Name):
                                v = self.ev(cs.value, fn, mod, True)
                                for k in v:
                                    if self.sites[k].name is None or self.sites[k].name == t.id:
                                        self.sites[k].name = '%s.%s' % (s.name, t.id)
                                        self.sites[k].why = 'class-level attribute, shared by all instances'
                                self.add(('field', t.id), v)
                continue
            self._stmt(s, fn, mod, top)
            for field in ('body', 'orelse', 'finalbody'):
                sub = getattr(s, field, None)
                if isinstance(sub, list) and sub and isinstance(sub[0], ast.stmt):
                    self._walk_body(sub, fn, mod, top)
            for h in getattr(s, 'handlers', []):
                self._walk_body(h.body, fn, mod, top)

    def _solve(self):
        rounds = 0
        while self.changed:
            self.changed = False
            rounds += 1
            if rounds > 30:
                raise AnalysisError('points-to analysis did not converge')
            for m in self.model.mods.values():
                self._walk_body(m.tree.body, None, m, True)
            for f in self.model.all_funcs():
                if isinstance(f.node, ast.Lambda):
                    v = self.ev(f.node.body, f, f.mod, False)
                    self.add(('ret', f.qname), v)
                    continue
                self._walk_body(f.node.body, f, f.mod, False)
                # generators: yielded values are elements of the result
                for n in iter_scope(f.node):
                    if isinstance(n, ast.Yield) and n.value is not None:
                        self.ev(n.value, f, f.mod, False)
        self.rounds = rounds


def _load(t):
    import copy
    n = copy.copy(t)
    n.ctx = ast.Load()
    return n


def _mutations(fn):
    """(node, receiver expression, kind) for every in-place mutation in the function"""
    out = []
    for n in iter_scope(fn.node):
        if isinstance(n, ast.Call) and isinstance(n.func, ast.Attribute) and n.func.attr in MUTATORS:
            out.append((n, n.func.value, '.%s()' % n.func.attr))
        elif isinstance(n, (ast.Assign, ast.AugAssign, ast.Delete)):
            tg = n.targets if isinstance(n, (ast.Assign, ast.Delete)) else [n.target]
            for t in tg:
                for tt in (t.elts if isinstance(t, (ast.Tuple, ast.List)) else [t]):
                    if isinstance(tt, ast.Subscript):
                        out.append((n, tt.value, 'item store' if not isinstance(n, ast.Delete) else 'del item'))
                    elif isinstance(tt, ast.Attribute):
                        if not isinstance(n, ast.Delete):
                            out.append((n, tt.value, 'attribute store .%s' % tt.attr))
                    elif isinstance(tt, ast.Name) and isinstance(n, ast.AugAssign):
                        out.append((n, tt, 'augmented assignment'))
    return out


def ps1(model):
    r = RuleResult('PS1', 'no in-place mutation reachable from tex2txt(), '
                   'run_proofreader_options() or the server handler may hit a persistent object '
                   '(module-level / class-level object, default argument, cached result) or an '
                   'element shared with one (may-alias closure of the persistent sites)',
                   floor=100)
    pt = PointsTo(model)
    cg = pt.cg
    reach = cg.reachable(ENTRY_POINTS)
    npers = sum(1 for s in pt.sites.values() if s.persistent)
    for q in sorted(reach):
        if q not in model.funcs:
            continue
        fn = model.funcs[q]
        if isinstance(fn.node, ast.Lambda):
            continue
        for node, recv, kind in _mutations(fn):
            if isinstance(recv, ast.Name) and recv.id == 'self' and kind.startswith('attribute store'):
                objs = pt.pts.get(('v', fn.qname, 'self'), set())
            else:
                objs = pt.ev(recv, fn, fn.mod, False)
            if isinstance(node, ast.AugAssign) and isinstance(node.target, ast.Name):
                # numeric / string accumulation is a re-binding, not a mutation
                if not objs:
                    r.ok(node, 'augmented assignment on a value that is no persistent object', sample=False)
                    continue
            pers = [pt.sites[k] for k in objs if pt.sites[k].persistent]
            if not pers:
                r.ok(node, '%s on %s: no persistent object among its %d possible target(s)'
                     % (kind, unparse(recv)[:40], len(objs)), nontrivial=bool(objs),
                     sample=bool(objs))
                continue
            named = []
            for s in pers:
                key = (s.mod.short, s.name)
                if key in EXCEPTIONS:
                    named.append(key)
            if len(named) == len(pers):
                for key in named:
                    r.exception('%s.%s' % key, EXCEPTIONS[key])
                r.ok(node, 'named exception: ' + ', '.join('%s.%s' % k for k in named), nontrivial=True)
                continue
            s0 = [s for s in pers if (s.mod.short, s.name) not in EXCEPTIONS][0]
            r.fail(node, '%s on %s may modify a persistent object (%s): state of one document '
                   'leaks into the next call' % (kind, unparse(recv)[:40], s0.label()),
                   witness='two calls in one process: the second sees what the first wrote')
    r.samples.append({'rule': 'PS1', 'persistent_sites': npers, 'all_sites': len(pt.sites),
                      'reachable_functions': len(reach), 'fixpoint_rounds': pt.rounds,
                      'entry_points': ENTRY_POINTS})
    return r


def ps2(model):
    r = RuleResult('PS2', 'no function reachable from the per-document entry points re-binds a '
                   'module-level name (global / nonlocal to module scope), and none is wrapped '
                   'in a cache decorator', floor=100)
    cg = callgraph(model)
    reach = cg.reachable(ENTRY_POINTS)
    for q in sorted(reach):
        if q not in model.funcs:
            continue
        fn = model.funcs[q]
        if isinstance(fn.node, ast.Lambda):
            r.ok(fn.node, 'lambda', sample=False)
            continue
        bad = False
        for n in iter_scope(fn.node):
            if isinstance(n, ast.Global):
                for name in n.names:
                    stores = [x for x in iter_scope(fn.node) if isinstance(x, ast.Name)
                              and x.id == name and isinstance(x.ctx, ast.Store)]
                    if not stores:
                        continue
                    key = (fn.mod.short, name)
                    if key in GLOBAL_EXCEPTIONS:
                        r.exception('%s.%s' % key, GLOBAL_EXCEPTIONS[key])
                        continue
                    bad = True
                    r.fail(stores[0], 'module-level name %s is re-bound by code that runs per '
                           'document' % name)
        for d in fn.node.decorator_list:
            if 'cache' in unparse(d):
                # a cache is persistent state; PS1 decides whether its results are written to
                r.ok(fn.node, 'cached function: results treated as persistent by PS1', nontrivial=True)
        if not bad:
            r.ok(fn.node, 'no global re-binding', sample=False)
    return r


def ps3(model):
    r = RuleResult('PS3', 'tex2txt() constructs Parameters and Parser on every call before '
                   'parsing; no class-level mutable attribute in the parser classes', floor=4)
    f = model.func('tex2txt.tex2txt')
    made = {}
    for s in f.node.body:
        for n in ast.walk(s):
            if isinstance(n, ast.Call):
                rc = model.resolve_call(n)
                if rc and rc[0] == 'class' and rc[1].qname in ('parameters.Parameters', 'parser.Parser'):
                    if s in f.node.body and isinstance(s, ast.Assign):
                        made[rc[1].qname] = s
    for q in ('parameters.Parameters', 'parser.Parser'):
        if q in made:
            r.ok(made[q], '%s constructed unconditionally in tex2txt()' % q, nontrivial=True)
        else:
            r.fail(f.node, '%s is not constructed per call at the top level of tex2txt()' % q,
                   stmt='construction of ' + q)
    # the Parser is built from the Parameters of this call
    if 'parser.Parser' in made:
        call = made['parser.Parser'].value
        a0 = call.args[0] if call.args else None
        if isinstance(a0, ast.Name) and 'parameters.Parameters' in made \
                and any(isinstance(t, ast.Name) and t.id == a0.id for t in made['parameters.Parameters'].targets):
            r.ok(call, 'Parser receives the Parameters object of this call', nontrivial=True)
        else:
            r.fail(call, 'Parser is not built from the Parameters object created in this call')
    for cq in ('parameters.Parameters', 'parameters.ParserLanguageSettings', 'parser.Parser',
               'mathparser.MathParser', 'scanner.Scanner', 'scanner.Buffer'):
        c = model.cls(cq)
        bad = [s for s in c.node.body if isinstance(s, (ast.Assign, ast.AugAssign, ast.AnnAssign))]
        if bad:
            for s in bad:
                r.fail(s, 'class-level attribute of %s is shared by all instances' % c.name)
        else:
            r.ok(c.node, 'class %s has no class-level attribute' % c.name)
    return r
