"""EM1-EM3: the error mark (DESIGN.md 3.7)."""
import ast

from ..model import AnalysisError, unparse, iter_scope
from ..report import RuleResult
from .. import tok as T


def latex_error_calls(model):
    f = model.func('utils.latex_error')
    out = []
    for m in model.mods.values():
        for n in ast.walk(m.tree):
            if isinstance(n, ast.Call):
                r = model.resolve_call(n)
                if r and r[0] == 'func' and r[1] is f:
                    out.append(n)
    return out


def em1(model):
    r = RuleResult('EM1', 'the token list returned by latex_error is used whole (returned, '
                   'concatenated, iterated, pushed back); a subscript or unpacking cuts the '
                   'mark off when the fault is close to the end of the text', floor=15)
    for c in latex_error_calls(model):
        p = c._parent
        if isinstance(p, ast.Subscript) and p.value is c:
            r.fail(c, 'only element %s of the mark tokens is used' % unparse(p.slice),
                   witness="a fault within len(mark) characters of the end of the text, e.g. "
                           "'abc \\verb'")
            continue
        if isinstance(p, ast.Starred):
            r.fail(c, 'mark tokens are unpacked')
            continue
        if isinstance(p, ast.Assign) and p.value is c:
            bad = False
            for t in p.targets:
                if isinstance(t, (ast.Tuple, ast.List)):
                    r.fail(c, 'mark tokens are unpacked into a fixed number of names')
                    bad = True
                elif isinstance(t, ast.Name) and c._fn is not None:
                    for n in iter_scope(c._fn.node):
                        if isinstance(n, ast.Subscript) and isinstance(n.value, ast.Name) \
                                and n.value.id == t.id and isinstance(n.ctx, ast.Load):
                            r.fail(n, 'only part %s[%s] of the mark tokens is used'
                                   % (t.id, unparse(n.slice)))
                            bad = True
            if not bad:
                r.ok(c, 'assigned and used as a whole list', nontrivial=True)
            continue
        r.ok(c, 'used whole: ' + type(p).__name__)
    return r


def dominating_stmts(node):
    """statements executed unconditionally before the statement containing node, within
    its function: earlier siblings in its block and in all enclosing blocks"""
    out = []
    s = node
    while s is not None and not isinstance(s, ast.stmt):
        s = s._parent
    while s is not None and not isinstance(s, (ast.FunctionDef, ast.Lambda)):
        p = s._parent
        for field in ('body', 'orelse', 'finalbody'):
            seq = getattr(p, field, None)
            if isinstance(seq, list) and s in seq:
                out.extend(seq[:seq.index(s)])
        s = p
        while s is not None and not isinstance(s, (ast.stmt, ast.Module)):
            s = getattr(s, '_parent', None)
        if isinstance(s, ast.Module):
            break
    return out


def _calls_latex_error(model, stmt):
    f = model.func('utils.latex_error')
    for n in ast.walk(stmt):
        if isinstance(n, ast.Call):
            r = model.resolve_call(n)
            if r and r[0] == 'func' and r[1] is f:
                return True
    return False


def em2(model):
    r = RuleResult('EM2', 'the error mark text is read only in latex_error, or where a call of '
                   'latex_error (which writes the diagnostic) dominates the read; in '
                   'latex_error the write to stderr dominates every return', floor=3)
    le = model.func('utils.latex_error')
    for m in model.mods.values():
        for n in ast.walk(m.tree):
            if isinstance(n, ast.Attribute) and n.attr == 'mark_latex_error' \
                    and isinstance(n.ctx, ast.Load):
                if n._fn is le:
                    r.ok(n, 'read inside latex_error')
                    continue
                if n._fn is None:
                    r.fail(n, 'error mark read at module level')
                    continue
                if any(_calls_latex_error(model, s) for s in dominating_stmts(n)):
                    r.ok(n, 'a latex_error call dominates the read', nontrivial=True)
                else:
                    r.fail(n, 'the error mark is put into the text without a preceding '
                           'latex_error call: a mark without a diagnostic')
    # diagnostic before return, mentioning line and column
    wrote = False
    for s in le.node.body:
        if isinstance(s, ast.Return):
            if wrote:
                r.ok(s, 'stderr.write precedes the return', nontrivial=True)
            else:
                r.fail(s, 'latex_error returns the mark without writing a diagnostic')
        for c in ast.walk(s):
            if isinstance(c, ast.Call) and unparse(c.func) == 'sys.stderr.write' \
                    and s in le.node.body:
                if isinstance(s, ast.Expr):
                    wrote = True
    # nested returns
    for n in iter_scope(le.node):
        if isinstance(n, ast.Return) and n not in le.node.body:
            doms = dominating_stmts(n)
            if any(isinstance(c, ast.Call) and unparse(c.func) == 'sys.stderr.write'
                   for s in doms for c in ast.walk(s)):
                r.ok(n, 'stderr.write dominates the return', nontrivial=True)
            else:
                r.fail(n, 'a return of latex_error is not dominated by the diagnostic')
    # every token latex_error makes carries (a part of) the mark
    return r


def em3(model):
    r = RuleResult('EM3', 'error recovery keeps the text: at the end-of-text exit of '
                   'arg_buffer the opening token and the list of all consumed tokens are pushed '
                   'back together with the mark; expand_math_section keeps what it collected',
                   floor=2)
    ab = model.func('parser.Parser.arg_buffer')
    loop = None
    for s in ab.node.body:
        if isinstance(s, ast.While):
            loop = s
    if loop is None:
        raise AnalysisError('anchor vanished: collecting loop of arg_buffer')
    coll = None
    for n in ast.walk(loop):
        if isinstance(n, ast.Call) and isinstance(n.func, ast.Attribute) and n.func.attr == 'append' \
                and isinstance(n.func.value, ast.Name):
            coll = n.func.value.id
    if coll is None:
        raise AnalysisError('anchor vanished: arg_buffer no longer collects tokens in a list')
    after = ab.node.body[ab.node.body.index(loop) + 1:]
    back = None
    for s in after:
        for n in ast.walk(s):
            if isinstance(n, ast.Call) and isinstance(n.func, ast.Attribute) and n.func.attr == 'back':
                back = n
    if back is None:
        r.fail(loop, 'after reading to the end of the text nothing is pushed back: the '
               'collected text is lost', stmt='arg_buffer end-of-text exit')
    else:
        names = {x.id for x in ast.walk(back) if isinstance(x, ast.Name)}
        subs = {x.value.id for x in ast.walk(back) if isinstance(x, ast.Subscript)
                and isinstance(x.value, ast.Name)}
        if coll in names and coll not in subs:
            r.ok(back, 'the collected list %s is pushed back whole' % coll, nontrivial=True)
        else:
            r.fail(back, 'the collected tokens (%s) are not pushed back completely' % coll)
        # the opening token: a name assigned from the token variable before the loop
        opening = [s.targets[0].id for s in ab.node.body[:ab.node.body.index(loop)]
                   if isinstance(s, ast.Assign) and isinstance(s.targets[0], ast.Name)
                   and isinstance(s.value, ast.Name)]
        if any(o in names for o in opening):
            r.ok(back, 'the opening token is pushed back', nontrivial=True)
        else:
            r.fail(back, 'the opening token of the unterminated argument is not pushed back')
        if _calls_latex_error(model, back):
            r.ok(back, 'the mark is pushed back with the text')
        else:
            r.fail(back, 'no error mark is pushed back with the recovered text')
    ms = model.func('mathparser.MathParser.expand_math_section')
    for n in ast.walk(ms.node):
        if isinstance(n, ast.Assign) and _calls_latex_error(model, n):
            tgt = n.targets[0]
            if isinstance(tgt, ast.Name) and any(
                    isinstance(x, ast.Name) and x.id == tgt.id and isinstance(x.ctx, ast.Load)
                    for x in ast.walk(n.value)):
                r.ok(n, 'collected maths tokens are kept when the mark is added', nontrivial=True)
            else:
                r.fail(n, 'the tokens collected so far are dropped when the mark is added')
        elif isinstance(n, ast.AugAssign) and _calls_latex_error(model, n):
            r.ok(n, 'mark appended to the collected tokens')
    return r
