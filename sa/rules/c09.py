"""Structural clauses of C09 (user macro definitions): SB1 - SB5.  They decide the shape of the
substitution machinery, not the equality of runs (DESIGN.md 4, C09)."""
import ast

from ..model import AnalysisError, unparse, iter_scope
from ..report import RuleResult
from .. import guards
from .. import tables
from .. import tok as T
from ..flow import always_exits


def _anc(n, stop=None):
    p = getattr(n, '_parent', None)
    while p is not None and p is not stop:
        yield p
        p = getattr(p, '_parent', None)


def _is_argtoken_test(e):
    """(var, truth) if e tests `type(var) is [not] defs.ArgumentToken`"""
    if isinstance(e, ast.Compare) and len(e.ops) == 1 and isinstance(e.ops[0], (ast.Is, ast.IsNot, ast.Eq, ast.NotEq)) \
            and isinstance(e.left, ast.Call) and getattr(e.left.func, 'id', '') == 'type' and e.left.args \
            and isinstance(e.left.args[0], ast.Name) and unparse(e.comparators[0]).endswith('ArgumentToken'):
        return e.left.args[0].id, isinstance(e.ops[0], (ast.Is, ast.Eq))
    if isinstance(e, ast.Call) and getattr(e.func, 'id', '') == 'isinstance' and len(e.args) == 2 \
            and isinstance(e.args[0], ast.Name) and unparse(e.args[1]).endswith('ArgumentToken'):
        return e.args[0].id, True
    return None


def _index_is_arg_minus_1(idx, var):
    """idx is `var.arg - 1` (or -1 + var.arg)"""
    if isinstance(idx, ast.BinOp) and isinstance(idx.op, ast.Sub) and unparse(idx.left) == var + '.arg' \
            and T.is_const(idx.right, 1):
        return True
    if isinstance(idx, ast.BinOp) and isinstance(idx.op, ast.Add):
        a, b = idx.left, idx.right
        for x, y in ((a, b), (b, a)):
            if unparse(x) == var + '.arg' and isinstance(y, ast.UnaryOp) and isinstance(y.op, ast.USub) \
                    and T.is_const(y.operand, 1):
                return True
            if unparse(x) == var + '.arg' and T.is_const(y, -1):
                return True
    return False


# ----------------------------------------------------------------------------- SB1
def sb1(model):
    r = RuleResult('SB1', 'substitution of #k: generate_replacements walks the body in order; an '
                   'argument reference is replaced by the complete k-th actual argument '
                   '(arguments[tok.arg - 1], not sliced, not filtered), every other body token is '
                   'emitted once as a copy', floor=2)
    f = model.func('parser.Parser.generate_replacements')
    if len(f.params) < 3:
        raise AnalysisError('anchor vanished: parameters of generate_replacements')
    p_args, p_repl = f.params[1], f.params[2]
    ret = [x for x in T.func_returns(f) if x is not None]
    outs = {x.id for x in ret if isinstance(x, ast.Name)}
    if not outs:
        r.undec(f.node, 'generate_replacements does not return a local list')
        r.instances = 4
        return r
    loops = [n for n in f.node.body if isinstance(n, ast.For) and any(
        (isinstance(x, ast.AugAssign) and isinstance(x.target, ast.Name) and x.target.id in outs)
        or (isinstance(x, ast.Call) and T.call_name(x) in ('append', 'extend') and isinstance(x.func.value, ast.Name)
            and x.func.value.id in outs) for x in ast.walk(n))]
    if len(loops) != 1:
        r.undec(f.node, 'expected one loop that fills the result, found %d' % len(loops))
        r.instances = 4
        return r
    lp = loops[0]
    # (a) in order, whole body
    if isinstance(lp.iter, ast.Name) and lp.iter.id == p_repl and isinstance(lp.target, ast.Name):
        r.ok(lp, 'the loop walks the body %s in order' % p_repl, nontrivial=True)
    elif isinstance(lp.iter, ast.Call) and getattr(lp.iter.func, 'id', '') == 'enumerate' \
            and unparse(lp.iter.args[0]) == p_repl:
        r.ok(lp, 'the loop walks the body in order (enumerate)', nontrivial=True)
    else:
        r.fail(lp, 'the substitution loop iterates over %s instead of the complete body %s in order'
               % (unparse(lp.iter), p_repl), witness='\\newcommand{\\x}[2]{#1 and #2}')
        return r
    var = lp.target.id if isinstance(lp.target, ast.Name) else lp.target.elts[-1].id
    # (b) emissions
    n_arg = n_copy = 0
    for x in ast.walk(lp):
        val = None
        if isinstance(x, ast.AugAssign) and isinstance(x.target, ast.Name) and x.target.id in outs:
            val, whole = x.value, True
        elif isinstance(x, ast.Call) and T.call_name(x) in ('append', 'extend') and isinstance(x.func.value, ast.Name) \
                and x.func.value.id in outs and x.args:
            val, whole = x.args[0], T.call_name(x) == 'extend'
        if val is None:
            continue
        is_arg = None
        child = x
        for a in _anc(x, lp):
            if isinstance(a, ast.If):
                conj = []
                guards.split_fact(a.test, True, conj)
                for e, t in conj:
                    q = _is_argtoken_test(e)
                    if q and q[0] == var and t:
                        in_body = any(child is s or child in ast.walk(s) for s in a.body)
                        if in_body:
                            is_arg = q[1]
                        elif len(conj) == 1:
                            is_arg = not q[1]
            child = a
        if is_arg is None:
            for e, t in guards.facts(x):
                q = _is_argtoken_test(e)
                if q and q[0] == var:
                    is_arg = (q[1] == t)
        if is_arg is None:
            r.undec(x, 'emission outside the ArgumentToken case split')
            continue
        if is_arg:
            # what is emitted in the argument case: action tokens and the argument itself
            if isinstance(val, ast.List) and all(isinstance(e, ast.Call) and T.call_name(e) == 'ActionToken' for e in val.elts):
                continue
            if isinstance(val, ast.Call) and T.call_name(val) == 'ActionToken':
                continue
            src = val
            if isinstance(src, ast.Name):
                vals = T.resolve_local(model, src)
                src = vals[0] if len(vals) == 1 else src
            if isinstance(src, ast.Subscript) and not isinstance(src.slice, ast.Slice) \
                    and unparse(src.value) == p_args and _index_is_arg_minus_1(src.slice, var) and whole:
                n_arg += 1
                r.ok(x, 'the whole argument %s[%s.arg - 1] is inserted' % (p_args, var), nontrivial=True)
            else:
                r.fail(x, 'an argument reference #k is replaced by %s, not by the complete k-th '
                       'actual argument %s[%s.arg - 1]' % (unparse(src)[:50], p_args, var),
                       witness='\\newcommand{\\x}[2]{#2 #1} \\x{ab}{cd}')
        else:
            src = val
            if isinstance(src, ast.Name) and src.id == var:
                # tok = copy.copy(tok) before, on every path
                vals = T.resolve_local(model, src)
                if vals and all(isinstance(v, ast.Call) and unparse(v.func) == 'copy.copy' and v.args
                                and unparse(v.args[0]) == var for v in vals):
                    n_copy += 1
                    r.ok(x, 'copy of the body token emitted once', nontrivial=True)
                else:
                    n_copy += 1
                    r.fail(x, 'on some path the stored body token itself is emitted, not a copy stamped '
                           'with the position of this use: the text of a macro defined by another macro '
                           'maps to the place of its definition', witness='\\newcommand{\\mk}[2]{\\newcommand{#1}{#2 (abbr.)}}\\mk{\\eg}{e.g.} ... \\eg')
            elif isinstance(src, ast.Call) and unparse(src.func) in ('copy.copy',) and unparse(src.args[0]) == var:
                n_copy += 1
                r.ok(x, 'copy of the body token emitted once', nontrivial=True)
            else:
                vals = T.resolve_local(model, src) if isinstance(src, ast.Name) else []
                if vals and all(isinstance(v, ast.Call) and unparse(v.func) == 'copy.copy' and unparse(v.args[0]) == var
                                for v in vals):
                    n_copy += 1
                    r.ok(x, 'copy of the body token emitted once', nontrivial=True)
                else:
                    r.fail(x, 'a body token that is no argument reference is emitted as %s instead '
                           'of (a copy of) itself' % unparse(src)[:50], witness='\\newcommand{\\x}{abc}\\x')
    if n_arg != 1 and not r.findings:
        r.fail(lp, 'the argument case of the substitution loop inserts the argument %d times' % n_arg,
               stmt='argument emission count', witness='\\newcommand{\\x}[1]{#1}\\x{a}')
    if n_copy != 1 and not r.findings:
        r.fail(lp, 'the body-token case of the substitution loop emits the token %d times' % n_copy,
               stmt='body emission count', witness='\\newcommand{\\x}{abc}\\x')
    return r


# ----------------------------------------------------------------------------- SB2
def sb2(model):
    r = RuleResult('SB2', 'collection of actual arguments: expand_arguments appends exactly one '
                   'argument per code of the macro, in order, unconditionally; a default is taken '
                   'from mac.defaults at the index of the code', floor=2)
    f = model.func('parser.Parser.expand_arguments')
    loops = [n for n in f.node.body if isinstance(n, ast.For) and 'args' in unparse(n.iter)]
    if not loops:
        raise AnalysisError('anchor vanished: loop over mac.args in expand_arguments')
    lp = loops[0]
    # accumulators handed to generate_replacements / the handler
    used = set()
    for n in ast.walk(f.node):
        if isinstance(n, ast.Call) and T.call_name(n) in ('generate_replacements', 'repl'):
            for a in n.args:
                if isinstance(a, ast.Name):
                    used.add(a.id)
    accs = {n.targets[0].id for n in f.node.body if isinstance(n, ast.Assign) and isinstance(n.targets[0], ast.Name)
            and isinstance(n.value, ast.List) and not n.value.elts} & used
    if not accs:
        r.undec(f.node, 'argument accumulators not recognised')
        r.instances = 3
        return r
    for acc in sorted(accs):
        adds = [s for s in ast.walk(lp) if isinstance(s, ast.Expr) and isinstance(s.value, ast.Call)
                and T.call_name(s.value) == 'append' and unparse(s.value.func.value) == acc]
        adds += [s for s in ast.walk(lp) if isinstance(s, ast.AugAssign) and unparse(s.target) == acc]
        top = [s for s in adds if s in lp.body]
        if len(adds) == 1 and len(top) == 1:
            r.ok(adds[0], 'one entry of %s per argument code, unconditionally' % acc, nontrivial=True)
        elif not adds:
            r.fail(lp, 'no entry is added to %s in the loop over the argument codes' % acc, stmt='append to ' + acc)
        else:
            bad = next((s for s in adds if s not in lp.body), adds[0])
            r.fail(bad, '%s gets an entry only under a condition / several entries per code: the '
                   'numbering of the following arguments shifts (#2 receives the third argument)' % acc,
                   witness='\\newcommand{\\x}[2][d]{#1-#2} \\x{a}')
    # defaults indexed by the loop index
    idx = lp.target.elts[0].id if isinstance(lp.target, ast.Tuple) and isinstance(lp.target.elts[0], ast.Name) else None
    for n in ast.walk(lp):
        if isinstance(n, ast.Subscript) and isinstance(n.ctx, ast.Load) and unparse(n.value).endswith('.defaults'):
            if idx and unparse(n.slice) == idx:
                r.ok(n, 'the default is taken at the index of the argument code', nontrivial=True)
            else:
                r.fail(n, 'the default of an omitted optional argument is taken at index %s, not at '
                       'the index of its argument code' % unparse(n.slice),
                       witness='\\newcommand{\\x}[2][D]{#1#2} \\x{a}')
    return r


# ----------------------------------------------------------------------------- SB3
def _code_shape(e):
    """argument code expression -> (literal prefix, count expression text or None)"""
    if isinstance(e, ast.Constant) and isinstance(e.value, str):
        return e.value, None
    if isinstance(e, ast.BinOp) and isinstance(e.op, ast.Mult):
        a, b = e.left, e.right
        if isinstance(b, ast.Constant) and isinstance(b.value, str):
            a, b = b, a
        if isinstance(a, ast.Constant) and a.value == 'A':
            return '', b
    if isinstance(e, ast.BinOp) and isinstance(e.op, ast.Add):
        l, r_ = _code_shape(e.left), _code_shape(e.right)
        if l and r_ and l[1] is None:
            return l[0] + r_[0], r_[1]
    return None


def sb3(model):
    from ..affine import Aff
    r = RuleResult('SB3', 'registration of a definition: \\newcommand{name}[n][default]{body} stores, '
                   'unconditionally and under the literal name, a macro with n argument codes - the '
                   'first optional iff a default is given - whose body and default are the scanned '
                   'tokens of the last / the fourth argument; \\def registers likewise', floor=4)
    f = model.func('handlers.h_newcommand')
    # the registry entry that names the handler gives the argument layout
    code = None
    for ent in tables.registry(model):
        if ent['repl'] is not None and unparse(ent['repl']).endswith('h_newcommand') and ent['args'] is not None \
                and isinstance(ent['args'], ast.Constant):
            code = ent['args'].value
    if not code:
        raise AnalysisError('anchor vanished: registry entry of h_newcommand')
    i_body = len(code) - 1
    i_name = code.index('A')
    opts = [i for i, c in enumerate(code) if c == 'O']
    if len(opts) < 2:
        raise AnalysisError('anchor vanished: [n][default] options of \\newcommand')
    i_n, i_def = opts[0], opts[1]
    argsname = f.params[3]

    def is_arg(e, i, depth=2):
        if e is None:
            return False
        if unparse(e) == '%s[%d]' % (argsname, i):
            return True
        if isinstance(e, ast.Name) and depth:
            vals = T.resolve_local(model, e)
            return bool(vals) and all(v is not e and is_arg(v, i, depth - 1) for v in vals)
        return False

    stores = [n for n in iter_scope(f.node) if isinstance(n, ast.Assign) and isinstance(n.targets[0], ast.Subscript)
              and unparse(n.targets[0].value).endswith('.the_macros')]
    if not stores:
        r.fail(f.node, 'h_newcommand does not register the macro in the_macros', stmt='registration')
        return r
    jobs = []       # (store, Macro call)
    for s in stores:
        for e, t in guards.facts(s):
            if isinstance(e, ast.Compare) and isinstance(e.ops[0], (ast.In, ast.NotIn)) and 'the_macros' in unparse(e):
                r.fail(s, 'the definition is registered only if the name is %s defined: a '
                       '\\renewcommand has no effect' % ('not yet' if isinstance(e.ops[0], ast.NotIn) == t else 'already'),
                       witness='\\newcommand{\\x}{A}\\renewcommand{\\x}{B}\\x')
        vals = [s.value]
        if isinstance(s.value, ast.Name):
            vals = T.resolve_local(model, s.value)
        if vals and all(isinstance(v, ast.Call) and T.call_name(v) == 'Macro' for v in vals):
            jobs += [(s, v) for v in vals]
        else:
            r.undec(s, 'registration of something else than a Macro(...)')
    for s, call in jobs:
        facts = guards.facts(call) + guards.facts(s)
        has_def = None
        for e, t in facts:
            if is_arg(e, i_def):
                has_def = t
        kw = {k.arg: k.value for k in call.keywords}
        pos = list(call.args)
        name_e = pos[1] if len(pos) > 1 else kw.get('name')
        key = s.targets[0].slice
        # name: the literal text of the name argument, same for key and macro
        ok_name = unparse(name_e) == unparse(key)
        vals = T.resolve_local(model, key) if isinstance(key, ast.Name) else [key]
        def unstrip(v):
            # text.strip(): the blank TeX ignores behind a control word (SB7)
            while isinstance(v, ast.Call) and isinstance(v.func, ast.Attribute) and v.func.attr == 'strip' and not v.args:
                v = v.func.value
            return v
        keyname = key.id if isinstance(key, ast.Name) else None
        vals = [unstrip(v) for v in vals]
        # `name = name.strip()` re-binds the name to its own stripped text: follow the inner name
        for _ in range(3):
            nxt = []
            for v in vals:
                if isinstance(v, ast.Name) and getattr(v, '_fn', None) is not None:
                    rv = T.resolve_local(model, v)
                    nxt += [unstrip(x) for x in rv if x is not v]
                else:
                    nxt.append(v)
            vals = nxt
        ok_src = all(isinstance(v, ast.Call) and T.call_name(v) == 'get_text_direct'
                     and is_arg(v.args[0], i_name) for v in vals) and vals
        if ok_name and ok_src:
            r.ok(call, 'registered under the literal text of argument %d' % i_name, nontrivial=True)
        else:
            r.fail(call, 'the macro is registered under %s / named %s, not under the literal text of '
                   'the name argument %s[%d]' % (unparse(key), unparse(name_e), argsname, i_name),
                   witness='\\newcommand{\\x}{A}\\x')
        # body
        body = kw.get('repl') or (pos[3] if len(pos) > 3 else None)
        if is_arg(body, i_body):
            r.ok(call, 'body = tokens of the last argument', sample=False)
        else:
            r.fail(call, 'the body of the new macro is %s, not the last argument %s[%d]'
                   % (unparse(body) if body is not None else 'missing', argsname, i_body),
                   witness='\\newcommand{\\x}[1][d]{#1}\\x')
        if not (isinstance(kw.get('scanned'), ast.Constant) and kw['scanned'].value is True):
            r.fail(call, 'the body tokens are already scanned, but scanned=True is not passed: the '
                   'token list would be scanned as a string', witness='\\newcommand{\\x}{A}\\x')
        # argument codes
        shape = _code_shape(kw.get('args') or (pos[2] if len(pos) > 2 else None))
        if shape is None:
            r.undec(call, 'argument code expression not recognised: %s' % unparse(kw.get('args')))
            continue
        prefix, cnt = shape
        total_ok = False
        if cnt is not None:
            txt = unparse(cnt).replace(' ', '')
            nvar = next((x.id for x in ast.walk(cnt) if isinstance(x, ast.Name)), None)
            if nvar:
                want = nvar if not prefix else '%s-%d' % (nvar, len(prefix))
                total_ok = txt in (want, '(%s)' % want)
        if has_def is None:
            r.undec(call, 'registration not under a test of the default argument')
            continue
        first_opt = prefix.startswith('O')
        dflt = kw.get('defaults')
        if has_def:
            good = first_opt and len(prefix) == 1 and total_ok and isinstance(dflt, ast.List) and len(dflt.elts) == 1 \
                and is_arg(dflt.elts[0], i_def)
            what = "codes 'O' + 'A' * (n - 1), defaults = [the default argument]"
        else:
            good = prefix == '' and total_ok and dflt is None
            what = "codes 'A' * n, no defaults"
        if good:
            r.ok(call, 'with%s default: %s' % ('' if has_def else 'out', what), nontrivial=True)
        else:
            r.fail(call, 'a definition with%s default value must register %s; found args=%s, defaults=%s'
                   % ('' if has_def else 'out', what, unparse(kw.get('args')), unparse(dflt) if dflt is not None else 'none'),
                   witness='\\newcommand{\\x}[2][d]{#1-#2} \\x{a} \\x[b]{a}')
    # nargs comes from argument i_n
    nsrc = [n for n in iter_scope(f.node) if isinstance(n, ast.Call) and T.call_name(n) in ('get_text_expanded', 'get_text_direct')
            and n.args and is_arg(n.args[0], i_n)]
    if nsrc:
        r.ok(nsrc[0], 'the parameter count is read from argument %d' % i_n, nontrivial=True)
    else:
        r.fail(f.node, 'the parameter count is not read from argument %d of \\newcommand' % i_n, stmt='nargs source')
    # \def
    g = model.func('parser.Parser.parse_def_macro')
    st = [n for n in iter_scope(g.node) if isinstance(n, ast.Assign) and isinstance(n.targets[0], ast.Subscript)
          and unparse(n.targets[0].value).endswith('.the_macros')]
    for s in st:
        cond = [e for e, t in guards.facts(s) if 'the_macros' in unparse(e)]
        if cond:
            r.fail(s, '\\def registers only under the condition %s' % unparse(cond[0]),
                   witness='\\def\\x{A}\\def\\x{B}\\x')
        elif s in g.node.body:
            r.ok(s, '\\def registers unconditionally', nontrivial=True)
        else:
            r.undec(s, '\\def registration nested in a block')
    if not st:
        r.fail(g.node, 'parse_def_macro does not register the macro', stmt='registration')
    return r


# ----------------------------------------------------------------------------- SB4
DEF_HANDLERS = ['handlers.h_newcommand', 'parser.Parser.parse_def_macro', 'handlers.h_newtheorem',
                'handlers.h_load_defs']


def sb4(model):
    r = RuleResult('SB4', 'definition lines leave no text: every return of the definition handlers '
                   '(\\newcommand, \\def, \\newtheorem, \\LTinput) is an empty list, action tokens, '
                   'language tokens filtered from the file, or an error mark', floor=6)
    for q in DEF_HANDLERS:
        f = model.func(q)
        for x in T.func_returns(f):
            node = x if x is not None else f.node
            if x is None:
                r.undec(f.node, '%s returns None on a path' % f.name)
                continue
            vals = T.resolve_local(model, x) if isinstance(x, ast.Name) else [x]
            good = True
            for v in vals:
                if isinstance(v, ast.List) and all(isinstance(e, ast.Call) and T.call_name(e) == 'ActionToken' for e in v.elts):
                    continue
                if isinstance(v, ast.Call) and T.call_name(v) == 'latex_error':
                    continue
                if isinstance(v, ast.Call):
                    rc = model.resolve_call(v)
                    if rc and rc[0] == 'func' and rc[1].outer is not None:
                        inner = [x for x in T.func_returns(rc[1])]
                        if inner and all(x is not None and isinstance(x, ast.Call) and T.call_name(x) == 'latex_error'
                                         for x in inner):
                            continue
                if isinstance(v, ast.Call) and T.call_name(v) == 'filter_set_toks' and len(v.args) >= 3 \
                        and unparse(v.args[2]).endswith('LanguageToken'):
                    continue
                good = False
                bad = v
            if good:
                r.ok(node, '%s returns no text on this path' % f.name, nontrivial=not isinstance(x, ast.List))
            else:
                r.fail(node, '%s returns %s: the definition line leaves text (or tokens of the '
                       'definition file) in the output' % (f.name, unparse(bad)[:60]),
                       witness='\\newcommand{\\x}{A} B  /  \\LTinput{defs.tex} with text in the file')
    return r


# ----------------------------------------------------------------------------- SB5
def sb5(model):
    r = RuleResult('SB5', 'the three ways of supplying definitions fill the same table of the same '
                   'parser: the macro tables are created once per Parser (never re-assigned), '
                   '--defs text and \\LTinput files run through parser_work of the parser that '
                   'parses the document, before / at the point of use, and a macro is looked up '
                   'in the table at each use', floor=3)
    # (a) whole-table assignments only in Parser.__init__
    for m in model.mods.values():
        for n in ast.walk(m.tree):
            if isinstance(n, (ast.Assign, ast.AugAssign, ast.AnnAssign)):
                tg = n.targets if isinstance(n, ast.Assign) else [n.target]
                for t in tg:
                    if isinstance(t, ast.Attribute) and t.attr in ('the_macros', 'the_environments'):
                        fn = next((a for a in _anc(n) if isinstance(a, ast.FunctionDef)), None)
                        if m.short == 'parser' and fn is not None and fn.name == '__init__':
                            r.ok(n, '%s created with the Parser' % t.attr, sample=False)
                        else:
                            r.fail(n, 'the table %s is replaced in %s: definitions made before (in '
                                   'the --defs file, in the document) are lost or not seen'
                                   % (t.attr, fn.name if fn else m.short),
                                   witness='--defs file with \\newcommand{\\x}{A}, document \\x')
            if isinstance(n, ast.Call) and T.call_name(n) == 'clear' and isinstance(n.func.value, ast.Attribute) \
                    and n.func.value.attr in ('the_macros', 'the_environments'):
                r.fail(n, 'the table %s is emptied here' % n.func.value.attr,
                       witness='--defs file with \\newcommand{\\x}{A}, document \\x')
    # (b) parse(): define first, on self
    f = model.func('parser.Parser.parse')
    p_latex, p_def = f.params[1], f.params[2]
    calls = [n for n in iter_scope(f.node) if isinstance(n, ast.Call) and T.call_name(n) == 'parser_work']
    cd = [c for c in calls if c.args and unparse(c.args[0]) == p_def]
    cl = [c for c in calls if c.args and unparse(c.args[0]) == p_latex]
    if cd and cl and all(unparse(c.func.value) == 'self' for c in cd + cl) and cd[0].lineno < cl[0].lineno:
        r.ok(cd[0], 'the --defs text is parsed by the same parser before the document', nontrivial=True)
    else:
        r.fail(f.node, 'parse() does not run the definitions text through self.parser_work before '
               'the document text', stmt='order of parser_work calls',
               witness='--defs file with \\newcommand{\\x}{A}, document \\x')
    # (c) \LTinput: same parser
    g = model.func('handlers.h_load_defs')
    pc = [n for n in iter_scope(g.node) if isinstance(n, ast.Call) and T.call_name(n) == 'parser_work']
    if pc and all(unparse(c.func.value) == g.params[0] for c in pc):
        r.ok(pc[0], '\\LTinput runs the file through the parser of the document', nontrivial=True)
    else:
        news = [n for n in iter_scope(g.node) if isinstance(n, ast.Call) and T.call_name(n) == 'Parser']
        r.fail(news[0] if news else g.node, '\\LTinput does not parse the file with the parser of the '
               'document: its definitions do not reach the document', stmt='parser of \\LTinput',
               witness='\\LTinput{defs.tex}\\x')
    # (d) lookup at each use
    e = model.func('parser.Parser.expand_macro')
    look = [n for n in iter_scope(e.node) if isinstance(n, ast.Subscript) and isinstance(n.ctx, ast.Load)
            and unparse(n.value) == 'self.the_macros']
    memo = [n for n in iter_scope(e.node) if isinstance(n, ast.Attribute) and isinstance(n.ctx, ast.Load)
            and isinstance(n.value, ast.Name) and n.value.id != 'self' and n.attr in ('macro', 'mac', 'definition')]
    if look and not memo:
        r.ok(look[0], 'the definition is looked up in the table at each use', nontrivial=True)
    elif memo:
        r.fail(memo[0], 'the definition is taken from the token (%s), not looked up at the time of '
               'use: a redefinition does not affect later uses' % unparse(memo[0]),
               witness='\\newcommand{\\x}{A}\\x\\renewcommand{\\x}{B}\\x')
    else:
        r.undec(e.node, 'table lookup in expand_macro not recognised')
    # (e) tex2txt hands opts.defs to the parse call of the one parser
    t = model.func('tex2txt.tex2txt')
    pcs = [n for n in iter_scope(t.node) if isinstance(n, ast.Call) and T.call_name(n) == 'parse']
    okc = [c for c in pcs if any(k.arg == 'define' and unparse(k.value).endswith('.defs') for k in c.keywords)
           or (len(c.args) > 1 and unparse(c.args[1]).endswith('.defs'))]
    if okc:
        r.ok(okc[0], 'tex2txt passes the --defs text to the parse of the document', nontrivial=True)
    else:
        r.fail(t.node, 'tex2txt does not pass opts.defs to Parser.parse', stmt='define=opts.defs',
               witness='--defs file with \\newcommand{\\x}{A}, document \\x')
    return r
