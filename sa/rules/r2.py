"""Rules added after the second round of seeded defects: MT6, LC2, ML4, OK5, OKV, TH3, CM2,
PS5, UK5, EM4, AT2 (see DESIGN.md section 6)."""
import ast

from ..model import AnalysisError, unparse, iter_scope
from ..report import RuleResult
from ..affine import Aff
from ..symlen import SymEval, State, Int, Seq, Obj, fresh
from ..callgraph import callgraph
from .. import guards
from .. import tables
from .. import tok as T
from .em import dominating_stmts, latex_error_calls
from .struct import _cev, _Stop


# ----------------------------------------------------------------------------- MT6
def mt6(model):
    r = RuleResult('MT6', 'the built-in table of maths material without output contains braces, '
                   '\\label and \\nonumber: a punctuation mark in front of them is still the last '
                   'character of its formula, with or without amsmath', floor=4)
    v, n = tables.parameters_table(model, 'math_ignore')
    if not isinstance(v, list):
        raise AnalysisError('Parameters.math_ignore is not a literal list any more')
    for need in ('{', '}', '\\label', '\\nonumber'):
        if need in v:
            r.ok_plain('math_ignore contains %r' % need, 'literal table')
        else:
            r.fail(n, '%r is not in the built-in math_ignore table: "a = b. %s" loses its full stop '
                   'and the rotation changes' % (need, need), stmt='math_ignore %r' % need,
                   witness='\\begin{equation} a = b. \\nonumber \\end{equation} without amsmath')
    # (b) the equation-numbering macros of amsmath (amsmath user's guide: \tag, \tag*, \notag) are
    # declared by the amsmath module with an empty replacement
    from .rg import latex_defs, _param_strings, _entry_name
    pstr = _param_strings(model)
    decl = {}
    for m, name, nargs, body, node in latex_defs(model):
        if m.short == 'packages.amsmath':
            decl[name] = ('latex', nargs, body, node)
    for ent in tables.registry(model):
        if ent['node']._mod.short == 'packages.amsmath' and ent['kind'] == 'Macro':
            nm = _entry_name(model, ent, pstr)
            code = ent['args'] if ent['args'] is not None else ent['kw'].get('args')
            decl[nm] = ('python', getattr(code, 'value', ''), ent['repl'], ent['node'])
    am = model.mod('packages.amsmath')
    for need, star in (('\\notag', False), ('\\tag', True)):
        d = decl.get(need)
        if d is None:
            r.fail(am.tree, 'amsmath does not declare %s: in "a = b. %s" the full stop is no longer the '
                   'last character of the formula and is lost' % (need, need + ('{1}' if star else '')),
                   stmt='amsmath declares %s' % need,
                   witness='\\usepackage{amsmath}\\begin{equation} a = b. \\tag{1} \\end{equation}')
        elif star and not (d[0] == 'python' and str(d[1]).startswith('*')):
            r.fail(d[3], 'amsmath declares %s without its starred form' % need, stmt='amsmath declares %s*' % need,
                   witness='\\tag*{1}')
        else:
            r.ok(d[3], 'amsmath declares %s' % need, nontrivial=True)
    return r


# ----------------------------------------------------------------------------- LC2
def lc2(model):
    r = RuleResult('LC2', 'parms.lang_context is parser-time state (the language at the current '
                   'point of parsing): code that runs after parsing (the multi-language splitter in '
                   'utils.py, tex2txt) selects language settings by the language of the section, '
                   'never through lang_context', floor=1)
    mods = [model.mod('utils'), model.mod('tex2txt')]
    n_ok = 0
    for m in mods:
        for n in ast.walk(m.tree):
            if isinstance(n, ast.Attribute) and n.attr == 'lang_context' and isinstance(n.ctx, ast.Load):
                r.fail(n, 'the splitter reads parms.lang_context, i.e. the language in force at the '
                       'END of parsing, instead of the language of the section',
                       witness='a Russian part in a document that ends in English: wrong '
                               'placeholder collection')
    f = model.func('utils.ml_append_placeholder')
    if any(isinstance(n, ast.Attribute) and n.attr == 'parser_lang_settings' for n in ast.walk(f.node)):
        r.ok(f.node, 'placeholder collection selected by the language of the section', nontrivial=True)
    else:
        r.fail(f.node, 'ml_append_placeholder does not select the collection by the section language',
               stmt='collection lookup')
    return r


# ----------------------------------------------------------------------------- ML4
def ml4(model):
    r = RuleResult('ML4', 'language tokens survive the removal of a pure-action line: all '
                   'LanguageTokens of the removed line are re-inserted (the complete filtered '
                   'list), and both filters of the pass keep LanguageTokens', floor=3)
    f = model.func('parser.Parser.remove_pure_action_lines')
    comps = [n for n in iter_scope(f.node) if isinstance(n, ast.ListComp)
             and any('LanguageToken' in T.alias_text(f.node, c) for g in n.generators for c in g.ifs)]
    kept = None
    for c in comps:
        p = c._parent
        if isinstance(p, ast.Assign) and p.value is c and isinstance(p.targets[0], ast.Name):
            kept = (p.targets[0].id, p)
            r.ok(p, 'the language tokens of the line are collected completely', nontrivial=True)
        elif isinstance(p, ast.Subscript):
            r.fail(c, 'only a part (%s) of the language tokens of a removed line is kept: the '
                   'language stack of the splitter becomes unbalanced' % unparse(p.slice),
                   witness='\\end{otherlanguage}\\begin{otherlanguage}{french} alone on a line')
    if kept is None and not r.findings:
        r.fail(f.node, 'the language tokens of a removed line are not collected', stmt='lang_toks')
    if kept:
        name = kept[0]
        uses = [n for n in iter_scope(f.node) if isinstance(n, ast.Name) and n.id == name
                and isinstance(n.ctx, ast.Load)]
        if uses and all(not isinstance(u._parent, ast.Subscript) for u in uses):
            r.ok(uses[0], 'the collected list is re-inserted whole')
        else:
            r.fail(kept[1], 'the collected language tokens are not re-inserted completely')
    # filters keep LanguageToken
    filt = [n for n in iter_scope(f.node) if isinstance(n, ast.ListComp) and any(
        isinstance(c, ast.BoolOp) or 'type(t)' in unparse(c) for g in n.generators for c in g.ifs)
        and n not in comps]
    for c in filt:
        if 'LanguageToken' in T.alias_text(f.node, c):
            r.ok(c, 'filter keeps LanguageTokens', sample=False)
        else:
            r.fail(c, 'a filter of the line-removal pass drops LanguageTokens (text is empty)')
    return r


# ----------------------------------------------------------------------------- OKV
def okv(model):
    r = RuleResult('OKV', 'position values are copied, never computed: what phrase replacement, '
                   'the multi-language splitter and the shell put into a position list / '
                   'character map are elements or slices of an existing list (no "entry + 1")',
                   floor=3)
    sites = []
    f = model.func('utils.substitute')
    sites.append((f, lambda e, f=f: isinstance(e, ast.Name) and e.id == f.params[1]))
    for q in ('utils.ml_append_placeholder', 'utils.get_txt_pos_ml'):
        g = model.func(q)
        def is_pos(e, depth=2):
            if isinstance(e, ast.Attribute) and e.attr == 'pos':
                return True
            if isinstance(e, ast.Name) and depth:
                vals = T.resolve_local(model, e)
                return bool(vals) and all(v is not e and is_pos(v, depth - 1) for v in vals)
            return False
        sites.append((g, is_pos))
    h = model.func('shell.proofreader.run_proofreader_options')
    accmap = None
    for n in iter_scope(h.node):
        if isinstance(n, ast.Return) and isinstance(n.value, ast.Tuple) and len(n.value.elts) == 4 \
                and isinstance(n.value.elts[2], ast.Name):
            accmap = n.value.elts[2].id
    sites.append((h, lambda e: isinstance(e, ast.Name) and e.id in (accmap, 'charmap')))
    for fn, is_map in sites:
        n_el = 0
        for n in iter_scope(fn.node):
            if isinstance(n, ast.Subscript) and not isinstance(n.slice, ast.Slice) \
                    and isinstance(n.ctx, ast.Load) and is_map(n.value):
                n_el += 1
                p = n._parent
                while isinstance(p, ast.Call) and getattr(p.func, 'id', '') == 'abs':
                    p = p._parent
                if isinstance(p, ast.BinOp) and isinstance(p.op, (ast.Add, ast.Sub)):
                    r.fail(n, 'a position is computed from a map entry (%s) instead of being '
                           'copied: it can leave the phrase / the text' % unparse(p)[:50],
                           witness='a replacement much longer than its phrase at the end of the '
                                   'text / a match behind the last character of a part')
                else:
                    r.ok(n, 'map entry %s is copied unchanged' % unparse(n), sample=n_el < 3)
    return r


# ----------------------------------------------------------------------------- TH3 / OK4h
def th3(model):
    r = RuleResult('TH3', 'HTML highlights: the start is the LaTeX offset of the first flagged '
                   'character (map entry - 1), the end is the map entry of the LAST flagged '
                   'character (exclusive end, issue #21), and every recorded highlight is '
                   'non-empty (end > start)', floor=3)
    from .th import html_phases
    ph = html_phases(model)
    if not ph['collect']:
        raise AnalysisError('anchor vanished: match loop of generate_html')
    f, loop = ph['collect']
    cm = f.params[1]
    idxs = []

    class Ev(SymEval):
        inline_closures = True

        def ev_Call(self, e, st):
            if isinstance(e.func, ast.Name) and e.func.id == 'abs' and len(e.args) == 1:
                a0 = e.args[0]
                vals = [a0]
                if isinstance(a0, ast.Name):
                    vals = T.resolve_local(model, a0)
                for v in vals:
                    if isinstance(v, ast.Subscript) and unparse(v.value) == cm:
                        i = self.as_int(self.ev(v.slice, st), st)
                        if i is not None:
                            idxs.append(i)
                            return Int(Aff.atom(('nn', 'MAP', i.key())))
            from .tj import _is_json_get
            if _is_json_get(self.model, e) and len(e.args) >= 3 and isinstance(e.args[1], ast.Constant):
                key = e.args[1].value
                if key == 'offset':
                    return Int(Aff.atom(('nn', 'OFF')))
                if key == 'length':
                    return Int(Aff.atom(('int', 'LEN')))
            return super().ev_Call(e, st)

        def run(self, body, st):
            for out in self.paths(list(body), st):
                pass
    ev = Ev(model, f)
    st = State()
    st.vars[cm] = Seq(Aff.atom(('len', 'charmap')), 'list')
    recs = []

    def hook(lp, bst):
        if lp is loop:
            recs.append(bst)
    ev.backedge_hooks.append(hook)
    ev.run(f.node.body[:f.node.body.index(loop) + 1], st)
    OFF = Aff.atom(('nn', 'OFF'))
    MAPb = Aff.atom(('nn', 'MAP', OFF.key()))
    if not recs:
        r.undec(loop, 'no path through the match loop was evaluated')
        r.instances = max(r.instances, r.floor)
        return r
    # object variable holding the highlight: the one with .beg / .end pseudo-variables
    n_checked = 0
    for bst in recs[-16:]:
        begs = [k for k in bst.vars if k.endswith('.beg')]
        for kb in begs:
            ke = kb[:-4] + '.end'
            vb, ve = bst.vars.get(kb), bst.vars.get(ke)
            if not isinstance(vb, Int) or ve is None:
                continue
            n_checked += 1
            if bst.facts.prove_eq(vb.a, MAPb - 1):
                r.ok(loop, 'highlight start = map[offset] - 1', nontrivial=True, sample=n_checked < 3)
            else:
                r.fail(loop, 'the start of a highlight is %r, expected map[offset] - 1' % vb.a,
                       stmt='h.beg')
            ea = ev.as_int(ve, bst)
            if ea is None:
                r.undec(loop, 'end of the highlight not an integer term')
                continue
            if bst.facts.prove_ge0(ea - vb.a - 1):
                r.ok(loop, 'highlight is non-empty on this path (end > start)', nontrivial=True,
                     sample=n_checked < 3)
            elif any((isinstance(a, tuple) and a and a[0] in ('call', 'join', 'phi', 'hv', 'int', 'len'))
                     and a != ('int', 'LEN') for a in ea.t):
                r.undec(loop, 'end of the highlight depends on values the analysis does not bound')
            else:
                r.fail(loop, 'a highlight can be empty (end %r, start %r): the match disappears '
                       'from the report' % (ea, vb.a), stmt='h.end > h.beg',
                       witness='a position map that runs backwards by one inside the match '
                               '(\\newcommand{\\sw}[2]{#2#1})')
    # the end is read from the map entry of the last flagged character, without arithmetic
    ends = [n for n in ast.walk(loop) if isinstance(n, ast.Assign) and isinstance(n.targets[0], ast.Attribute)
            and n.targets[0].attr == 'end' and any(isinstance(x, ast.Subscript) and unparse(x.value) == cm
                                                   for x in ast.walk(n.value))]
    for n in ends:
        v = n.value
        if isinstance(v, ast.Call) and getattr(v.func, 'id', '') == 'abs':
            sub = v.args[0]
            idx = T.reach_text(n._fn, sub.slice) if isinstance(sub, ast.Subscript) else ''
            if 'max(' in idx and '- 1' in idx:
                r.ok(n, 'end = map entry of the last flagged character (%s)' % idx, nontrivial=True)
            else:
                r.fail(n, 'the end of a highlight is read from map[%s], not from the entry of the '
                       'last flagged character: material removed behind the word (footnote, '
                       'comment) is highlighted too' % idx,
                       witness='a flagged word directly followed by \\footnote{..}')
        else:
            r.fail(n, 'the end of a highlight is computed as %s, not copied from the map entry of '
                   'the last flagged character' % unparse(v)[:50],
                   witness='a flagged word directly followed by \\footnote{..}')
    return r


# ----------------------------------------------------------------------------- CM2
def cm2(model):
    r = RuleResult('CM2', 'regular expressions that must cover exactly one name are anchored: the '
                   'macro-name correction is anchored at the offset (\\A on the slice, or '
                   'match(latex, offset)); the --skip pattern must match the whole file name '
                   '(\\A..\\Z or fullmatch)', floor=2)
    f = model.func('shell.utils.correct_mark_macroname')
    calls = [n for n in ast.walk(f.node) if isinstance(n, ast.Call) and T.call_name(n) in ('search', 'match', 'fullmatch')]
    if not calls:
        raise AnalysisError('anchor vanished: regex lookup in correct_mark_macroname')
    for c in calls:
        name = T.call_name(c)
        pat = None
        if unparse(c.func).startswith('re.') and c.args and isinstance(c.args[0], ast.Constant):
            pat = c.args[0].value
            subj = c.args[1] if len(c.args) > 1 else None
            has_pos = len(c.args) > 2
        else:
            g = f.mod.globals.get(unparse(c.func.value)) if isinstance(c.func, ast.Attribute) else None
            if g and isinstance(g[0], ast.Call) and g[0].args and isinstance(g[0].args[0], ast.Constant):
                pat = g[0].args[0].value
            subj = c.args[0] if c.args else None
            has_pos = len(c.args) > 1
        anchored_pat = pat is not None and (pat.startswith('\\A') or pat.startswith('^'))
        sliced = isinstance(subj, ast.Subscript) and isinstance(subj.slice, ast.Slice)
        if name == 'match' and (has_pos or sliced):
            r.ok(c, 'match() at the offset', nontrivial=True)
        elif name == 'search' and anchored_pat and sliced:
            r.ok(c, '\\A on the slice starting at the offset', nontrivial=True)
        else:
            r.fail(c, 'the macro-name lookup %s is not anchored at the offset of the match: the '
                   'length is taken from the next \\name found later in the file' % unparse(c)[:60],
                   witness='a match on the backslash of \\& with a letter macro later in the file')
    sk = model.func('shell.shell.skip_file')
    calls = [n for n in ast.walk(sk.node) if isinstance(n, ast.Call) and unparse(n.func).startswith('re.')]
    for c in calls:
        name = T.call_name(c)
        lits = [x.value for x in sorted((y for y in ast.walk(c.args[0]) if isinstance(y, ast.Constant)
                                        and isinstance(y.value, str)), key=lambda y: (y.lineno, y.col_offset))] \
            if c.args else []
        both = bool(lits) and (lits[0].startswith('\\A') or lits[0].startswith('^')) \
            and (lits[-1].endswith('\\Z') or lits[-1].endswith('$'))
        if name == 'fullmatch' or both:
            r.ok(c, 'the --skip pattern has to match the whole name', nontrivial=True)
        else:
            r.fail(c, 'the --skip pattern is not anchored at both ends: files whose names merely '
                   'start with (or contain) a match are dropped',
                   witness="--skip 'ch1\\.tex|notes' with a file notes-ch2.tex")
    if not calls:
        r.fail(sk.node, 'skip_file no longer applies the pattern', stmt='skip_file regex')
    return r


# ----------------------------------------------------------------------------- PS5
LAZY = {'filter', 'map', 'zip', 'iter', 'reversed', 'enumerate'}


def ps5(model):
    r = RuleResult('PS5', 'values kept across documents are re-iterable: a function whose result '
                   'is stored in an option / module-level object does not return a one-shot '
                   'iterator (filter, map, zip, generator expression)', floor=2)
    cg = callgraph(model)
    for f in model.all_funcs():
        if isinstance(f.node, ast.Lambda):
            continue
        if any(isinstance(n, (ast.Yield, ast.YieldFrom)) for n in iter_scope(f.node)):
            continue
        lazy = [x for x in T.func_returns(f) if x is not None and (
            isinstance(x, ast.GeneratorExp) or (isinstance(x, ast.Call) and isinstance(x.func, ast.Name)
                                                and x.func.id in LAZY))]
        sites = cg.callers.get(f.qname, [])
        stored = [c for c in sites if (isinstance(c._parent, ast.Assign) and any(
            isinstance(t, ast.Attribute) for t in c._parent.targets)) or isinstance(c._parent, ast.keyword)
            or (c._fn is None and isinstance(c._parent, ast.Assign))]
        if not stored:
            continue
        if lazy:
            r.fail(lazy[0], '%s returns a one-shot iterator and its result is kept (%s): the '
                   'second document sees it exhausted' % (f.name, unparse(stored[0]._parent)[:50]),
                   witness='two files / two server requests with --replace')
        else:
            r.ok(f.node, 'result of %s (stored in %d place(s)) is not a one-shot iterator'
                 % (f.name, len(stored)), sample=False)
    return r


# ----------------------------------------------------------------------------- UK5
def uk5(model):
    r = RuleResult('UK5', 'the unknowns list is written out as recorded: get_unknowns returns '
                   'the list itself, and in tex2txt nothing rewrites the text after it has been '
                   'replaced by the list (phrase replacement comes before)', floor=2)
    g = model.func('parser.Parser.get_unknowns')
    rets = T.func_returns(g)
    if len(rets) == 1 and unparse(rets[0]) == 'self.unknowns':
        r.ok(g.node, 'get_unknowns returns the recorded list unchanged', nontrivial=True)
    else:
        r.fail(g.node, 'get_unknowns filters / rewrites the recorded list: %s'
               % (unparse(rets[0])[:60] if rets else '?'),
               witness='a name used before its later \\newcommand')
    f = model.inl().func('tex2txt.tex2txt')
    opar = f.params[1]
    for n in iter_scope(f.node):
        if isinstance(n, ast.If) and unparse(n.test) == '%s.unkn' % opar:
            blk = _block(n)
            later = blk[blk.index(n) + 1:]
            tv = None
            for s in n.body:
                if isinstance(s, ast.Assign) and isinstance(s.targets[0], ast.Name) \
                        and any(isinstance(c, ast.Call) and T.call_name(c) == 'get_unknowns' for c in ast.walk(s)):
                    tv = s.targets[0].id
            if tv is None:
                r.fail(n, 'under --unkn the text is not replaced by the list of unknowns')
                continue
            rew = [s for s in later for x in ast.walk(s) if isinstance(x, ast.Name) and x.id == tv
                   and isinstance(x.ctx, ast.Store)]
            if rew:
                r.fail(rew[0], 'after the text has been replaced by the unknowns list it is rewritten '
                       '(%s): replacements change the listed names' % unparse(rew[0])[:50],
                       witness='--unkn together with --repl and a phrase equal to a listed name')
            else:
                r.ok(n, 'nothing rewrites the list after it replaced the text', nontrivial=True)
    return r


def _block(stmt):
    p = stmt._parent
    for field in ('body', 'orelse', 'finalbody'):
        seq = getattr(p, field, None)
        if isinstance(seq, list) and stmt in seq:
            return seq
    return [stmt]


# ----------------------------------------------------------------------------- EM4
def em4(model):
    r = RuleResult('EM4', 'an unreadable \\LTinput file yields the diagnostic, not a traceback: the '
                   'file reader given to the parser catches every exception and reports failure; '
                   'the position given to latex_error is a token position or a position parameter, '
                   'never a length', floor=3)
    f = model.func('tex2txt.tex2txt')
    reader = None
    for k, g in f.nested.items():
        if any(isinstance(n, ast.Call) and getattr(n.func, 'id', '') == 'open' for n in ast.walk(g.node)):
            reader = g
    if reader is None:
        # the closure may only forward to a module-level function that does the reading
        for k, g in f.nested.items():
            body = [s_ for s_ in g.node.body if not (isinstance(s_, ast.Expr) and isinstance(s_.value, ast.Constant))]
            if len(body) == 1 and isinstance(body[0], ast.Return) and isinstance(body[0].value, ast.Call):
                rc = model.resolve_call(body[0].value)
                if rc and rc[0] == 'func' and not isinstance(rc[1].node, ast.Lambda) and any(
                        isinstance(n, ast.Call) and getattr(n.func, 'id', '') == 'open' for n in ast.walk(rc[1].node)):
                    reader = rc[1]
    if reader is None:
        r.fail(f.node, 'tex2txt no longer passes a file reader to the parser', stmt='read callback')
    else:
        tries = [n for n in iter_scope(reader.node) if isinstance(n, ast.Try)]
        ok = bool(tries)
        for t in tries:
            for h in t.handlers:
                if h.type is not None and unparse(h.type) not in ('Exception', 'BaseException'):
                    ok = False
                    r.fail(h, 'the file reader only catches %s: a file that exists but cannot be '
                           'decoded raises out of the filter' % unparse(h.type),
                           witness='\\LTinput of a Latin-1 file read as UTF-8')
        if ok:
            r.ok(reader.node, 'the reader catches every exception and returns (False, ..)', nontrivial=True)
    cg = callgraph(model)
    todo = [(c, c.args[1]) for c in latex_error_calls(model) if len(c.args) >= 2]
    # a position parameter: look at what the callers pass (one level)
    for c, a in list(todo):
        fn = c._fn
        if isinstance(a, ast.Name) and fn is not None and a.id in fn.params:
            idx = fn.params.index(a.id)
            off = 1 if fn.cls is not None and fn.params[:1] == ['self'] else 0
            for site in cg.callers.get(fn.qname, []):
                if idx - off < len(site.args):
                    todo.append((site, site.args[idx - off]))
    for c, a in todo:
        vals = T.resolve_local(model, a) if isinstance(a, ast.Name) else [a]
        flat = []
        for v in vals:
            if isinstance(v, ast.IfExp):
                flat += [v.body, v.orelse]
            else:
                flat.append(v)
        bad = [v for v in flat if any(isinstance(x, ast.Call) and getattr(x.func, 'id', '') == 'len'
                                      for x in ast.walk(v))]
        if bad:
            r.fail(c, 'the position of a diagnostic can be %s, a length, not the position of a '
                   'token: the reported column lies behind the text and the mark is mapped '
                   'elsewhere' % unparse(bad[0])[:40],
                   witness='open displayed maths ending directly behind & or \\\\ at the end of the text')
        else:
            r.ok(c, 'position %s is a token position / parameter' % unparse(a)[:30], sample=False)
    return r


# ----------------------------------------------------------------------------- AT2
def at2(model):
    r = RuleResult('AT2', 'key-value lists: inside a value every { opens a protected group '
                   '(its commas and blanks belong to the value), wherever it stands; flows '
                   'extracted from arguments are recorded by append only', floor=2)
    f = model.func('parser.Parser.parse_keyvals_list')
    hit = False
    helpers = {d.name for d in ast.walk(f.node) if isinstance(d, ast.FunctionDef) and d is not f.node
               and any(isinstance(c, ast.Call) and T.call_name(c) == 'arg_buffer' for c in ast.walk(d))}
    for n in iter_scope(f.node):
        if isinstance(n, ast.If) and any(isinstance(c, ast.Call) and (T.call_name(c) == 'arg_buffer'
                                                                      or T.call_name(c) in helpers)
                                         for s in n.body for c in ast.walk(s)):
            hit = True
            tokv = None
            for x in ast.walk(n.test):
                if isinstance(x, ast.Attribute) and x.attr == 'txt' and isinstance(x.value, ast.Name):
                    tokv = x.value.id
            names = {x.id for x in ast.walk(n.test) if isinstance(x, ast.Name)} - {tokv}
            okb = True
            for val in ((), ('x',)):
                env = {tokv: ('tok', '{')}
                for nm in names:
                    env[nm] = val
                try:
                    if not _cev(n.test, env):
                        okb = False
                except _Stop:
                    okb = None
            if okb:
                r.ok(n, 'a { inside a value always opens a protected group', nontrivial=True)
            elif okb is None:
                r.undec(n, 'brace test not evaluated')
            else:
                r.fail(n, 'a { protects commas only under an extra condition (%s): a group in the '
                       'middle of a value is split at its comma' % unparse(n.test),
                       witness='description=an \\emph{easy, simple} sample')
    if not hit:
        r.fail(f.node, 'parse_keyvals_list no longer protects {..} groups', stmt='brace protection')
    ea = model.func('parser.Parser.expand_arguments')
    muts = [n for n in iter_scope(ea.node) if (isinstance(n, ast.Assign) and any(
        'extracted' in unparse(t) for t in n.targets)) or (isinstance(n, ast.Call)
        and isinstance(n.func, ast.Attribute) and 'extracted' in unparse(n.func.value)
        and n.func.attr != 'append')]
    apps = [n for n in iter_scope(ea.node) if isinstance(n, ast.Call) and isinstance(n.func, ast.Attribute)
            and 'extracted' in unparse(n.func.value) and n.func.attr == 'append']
    if muts:
        r.fail(muts[0], 'an extracted flow is stored by %s instead of append: flows recorded while '
               'the argument was expanded (nested footnotes) are overwritten' % unparse(muts[0])[:50],
               witness='a \\footnote inside a \\caption or inside another \\footnote')
    elif apps:
        r.ok(apps[0], 'extracted flows are recorded by append', nontrivial=True)
    return r


# ----------------------------------------------------------------------------- MT7 / MT8 / TH4
class _ClassSet:
    """which token classes a list may contain: explicit names, plus 'anything' minus a set
    of classes that a filter has removed"""
    def __init__(self, names=(), anything=False, excluded=()):
        self.names = frozenset(names)
        self.anything = anything
        self.excluded = frozenset(excluded)

    def join(self, o):
        if self.anything and o.anything:
            return _ClassSet(self.names | o.names, True, self.excluded & o.excluded)
        if self.anything:
            return _ClassSet(self.names | o.names, True, self.excluded - o.names)
        if o.anything:
            return _ClassSet(self.names | o.names, True, o.excluded - self.names)
        return _ClassSet(self.names | o.names)

    def may_contain(self, cls):
        return cls in self.names or (self.anything and cls not in self.excluded)

    def __eq__(self, o):
        return isinstance(o, _ClassSet) and (self.names, self.anything, self.excluded) == \
            (o.names, o.anything, o.excluded)


def mt8(model):
    from ..flow import Flow
    r = RuleResult('MT8', 'a maths section handed to the part detection contains no ActionToken / '
                   'VoidToken (they would split a run of maths into several parts, each with its '
                   'own placeholder): may-contain analysis of the list returned by '
                   'expand_math_section', floor=1)
    f = model.func('mathparser.MathParser.expand_math_section')
    bad = ('ActionToken', 'VoidToken')

    class CS(Flow):
        def __init__(self):
            super().__init__()
            self.rets = []

        def join(self, a, b):
            out = {}
            for k in set(a) | set(b):
                if k in a and k in b:
                    out[k] = a[k].join(b[k])
                else:
                    out[k] = a.get(k) or b.get(k)
            return out

        def ev(self, e, st):
            if isinstance(e, ast.Name):
                return st.get(e.id, _ClassSet(anything=True))
            if isinstance(e, ast.List):
                names = set()
                anything = False
                for x in e.elts:
                    c = T.token_ctor(model, x) if isinstance(x, ast.Call) else None
                    if c is not None:
                        names.add(c.name)
                    else:
                        anything = True
                return _ClassSet(names, anything)
            if isinstance(e, ast.BinOp) and isinstance(e.op, ast.Add):
                return self.ev(e.left, st).join(self.ev(e.right, st))
            if isinstance(e, ast.ListComp) and len(e.generators) == 1:
                g = e.generators[0]
                src = self.ev(g.iter, st) if isinstance(e.elt, ast.Name) and isinstance(g.target, ast.Name) \
                    and e.elt.id == g.target.id else _ClassSet(anything=True)
                excl = set()
                atoms = []
                for c0 in g.ifs:
                    guards.split_fact(c0, True, atoms)
                for c, tr in atoms:
                    if not (isinstance(c, ast.Compare) and len(c.ops) == 1 and isinstance(c.left, ast.Call)
                            and getattr(c.left.func, 'id', '') == 'type'):
                        continue
                    op = c.ops[0]
                    neg_set = (isinstance(op, ast.NotIn) and tr) or (isinstance(op, ast.In) and not tr)
                    neg_one = (isinstance(op, (ast.IsNot, ast.NotEq)) and tr) or (isinstance(op, (ast.Is, ast.Eq)) and not tr)
                    if neg_set and isinstance(c.comparators[0], (ast.Tuple, ast.List, ast.Set)):
                        for x in c.comparators[0].elts:
                            excl.add(x.attr if isinstance(x, ast.Attribute) else getattr(x, 'id', '?'))
                    elif neg_one:
                        x = c.comparators[0]
                        excl.add(x.attr if isinstance(x, ast.Attribute) else getattr(x, 'id', '?'))
                return _ClassSet(src.names - excl, src.anything, src.excluded | excl)
            if isinstance(e, ast.Call):
                c = T.token_ctor(model, e)
                if c is not None:
                    return _ClassSet([c.name])
                rc = model.resolve_call(e)
                if rc and rc[0] == 'func' and rc[1].qname == 'utils.latex_error':
                    return _ClassSet(['TextToken'])
                return _ClassSet(anything=True)
            return _ClassSet(anything=True)

        def transfer(self, s, st):
            if isinstance(s, ast.Assign) and len(s.targets) == 1:
                t = s.targets[0]
                if isinstance(t, ast.Name):
                    st[t.id] = self.ev(s.value, st)
                elif isinstance(t, ast.Tuple):
                    for x in t.elts:
                        if isinstance(x, ast.Name):
                            st[x.id] = _ClassSet(anything=True)
            elif isinstance(s, ast.AugAssign) and isinstance(s.target, ast.Name):
                st[s.target.id] = st.get(s.target.id, _ClassSet()).join(self.ev(s.value, st))
            elif isinstance(s, ast.Expr) and isinstance(s.value, ast.Call) \
                    and isinstance(s.value.func, ast.Attribute) and isinstance(s.value.func.value, ast.Name):
                v = s.value.func.value.id
                if s.value.func.attr in ('append', 'insert') and s.value.args:
                    a = s.value.args[-1]
                    c = T.token_ctor(model, a) if isinstance(a, ast.Call) else None
                    add = _ClassSet([c.name]) if c is not None else (
                        st.get(a.id, _ClassSet(anything=True)) if isinstance(a, ast.Name) and False
                        else _ClassSet(anything=True))
                    # appending the current (already classified maths) token
                    if isinstance(a, ast.Name) and guards_type(a, s):
                        add = _ClassSet(guards_type(a, s))
                    st[v] = st.get(v, _ClassSet()).join(add)
                elif s.value.func.attr == 'extend' and s.value.args:
                    st[v] = st.get(v, _ClassSet()).join(self.ev(s.value.args[0], st))
            return st

        def bind_for(self, s, st):
            return st

        def on_return(self, node, st):
            if node is not None and node.value is not None:
                v = node.value.elts[0] if isinstance(node.value, ast.Tuple) and node.value.elts else node.value
                self.rets.append((node, self.ev(v, st)))

    def guards_type(name, stmt):
        """classes the token may have according to a dominating `type(tok) in (..)` test"""
        from .. import guards as G
        for e, t in G.facts(stmt):
            if t and isinstance(e, ast.Compare) and isinstance(e.left, ast.Call) \
                    and getattr(e.left.func, 'id', '') == 'type' and unparse(e.left.args[0]) == name.id:
                c = e.comparators[0]
                if isinstance(c, (ast.Tuple, ast.List)):
                    return [x.attr if isinstance(x, ast.Attribute) else getattr(x, 'id', '?') for x in c.elts]
                if isinstance(e.ops[0], ast.Is):
                    return [c.attr if isinstance(c, ast.Attribute) else getattr(c, 'id', '?')]
        return None
    fl = CS()
    fl.run(f.body, {})
    if not fl.rets:
        raise AnalysisError('anchor vanished: return of expand_math_section')
    for node, cs in fl.rets:
        leak = [c for c in bad if cs.may_contain(c)]
        if leak:
            r.fail(node, 'the maths section returned may still contain %s: a run of maths is split '
                   'into several parts and gets several placeholders' % ' / '.join(leak),
                   witness='\\begin{cases}..\\end{cases} followed by more maths in one section')
        else:
            r.ok(node, 'ActionToken and VoidToken are filtered out of everything that is returned',
                 nontrivial=True)
    return r


def mt7(model):
    r = RuleResult('MT7', '"has an element" means: some element token of the part is not a '
                   'punctuation mark - the punctuation test is part of the search condition, so '
                   'the search goes on behind a leading punctuation mark', floor=1)
    f = model.func('mathparser.MathPartToken.has_elem')
    gens = [n for n in ast.walk(f.node) if isinstance(n, (ast.GeneratorExp, ast.ListComp))]
    punct_tests = [n for n in ast.walk(f.node) if isinstance(n, ast.Compare)
                   and any(isinstance(x, ast.Attribute) and x.attr == 'math_punctuation' for x in ast.walk(n))]
    if not punct_tests:
        r.fail(f.node, 'has_elem no longer excludes punctuation marks', stmt='has_elem punctuation')
        return r
    in_gen = [t for t in punct_tests if any(t in list(ast.walk(c)) for g in gens for gg in g.generators for c in gg.ifs)]
    loops = [n for n in ast.walk(f.node) if isinstance(n, (ast.For, ast.While))]
    if in_gen or loops:
        r.ok(f.node, 'the punctuation test is part of the search over all tokens of the part',
             nontrivial=True)
    else:
        r.fail(punct_tests[0], 'the punctuation test is applied to the first element token only: a '
               'part that starts with a punctuation mark gets no placeholder',
               witness='\\text{ otherwise}, \\quad x \\in M.')
    return r


def th4(model):
    r = RuleResult('TH4', 'HTML regions: a new region is opened only if the entry starts at or '
                   'behind the end of EVERY entry of the last region (an aggregate over the region, '
                   'not its last member: ends are not monotonic)', floor=1)
    from .th import html_phases
    ph = html_phases(model)
    if not ph['group']:
        raise AnalysisError('anchor vanished: grouping loop of generate_html')
    f, grp = ph['group']
    ifs = [s for s in grp.body if isinstance(s, ast.If)]
    for s in ifs:
        t = s.test
        agg = [n for n in ast.walk(t) if isinstance(n, ast.Call) and getattr(n.func, 'id', '') in ('max', 'all', 'any')
               and n.args and isinstance(n.args[0], (ast.GeneratorExp, ast.ListComp))]
        single = [n for n in ast.walk(t) if isinstance(n, ast.Subscript) and isinstance(n.value, ast.Subscript)
                  and isinstance(n.slice, (ast.Constant, ast.UnaryOp))]
        if agg:
            r.ok(s, 'the test aggregates over all entries of the last region', nontrivial=True)
        elif single:
            r.fail(s, 'a new region is opened by comparing with one member (%s) of the last region '
                   'only: a line still covered by an earlier, longer match is shown twice'
                   % unparse(single[0]),
                   witness='a long multi-line match, a short one inside it, and a later match on '
                           'a line the long one still covers')
        else:
            # running maximum: `end = max(end, h.endlin)` when the entry joins the region, `end = h.endlin` when
            # a new region is opened; the test compares with that variable
            names = {x.id for x in ast.walk(t) if isinstance(x, ast.Name)}
            running = None
            for v in sorted(names):
                asg = [a for a in ast.walk(grp) if isinstance(a, ast.Assign) and len(a.targets) == 1
                       and isinstance(a.targets[0], ast.Name) and a.targets[0].id == v]
                if not asg:
                    continue
                joins = [a for a in asg if isinstance(a.value, ast.Call) and getattr(a.value.func, 'id', '') == 'max'
                         and any(isinstance(x, ast.Name) and x.id == v for x in a.value.args)]
                resets = [a for a in asg if a not in joins]
                opens = all(any(isinstance(c, ast.Call) and isinstance(c.func, ast.Attribute) and c.func.attr == 'append'
                                and c.args and isinstance(c.args[0], ast.List)
                                for sib in T_block(a) for c in ast.walk(sib)) for a in resets)
                if joins and opens:
                    running = v
            if running:
                r.ok(s, 'the test compares with the running maximum %s of the ends of the last region' % running,
                     nontrivial=True)
            else:
                r.undec(s, 'region test not recognised')
                r.instances += 1
    return r


def T_block(stmt):
    p = getattr(stmt, '_parent', None)
    for field in ('body', 'orelse', 'finalbody'):
        seq = getattr(p, field, None)
        if isinstance(seq, list) and stmt in seq:
            return seq
    return [stmt]
