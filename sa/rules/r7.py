"""Rules added after the seventh round of seeded defects (DESIGN.md 3.12): RX8, TC1, SP6, ML11, LC5, PD7b, SB8,
SB2c, TX4, ND1, TJ8."""
import ast

from ..model import AnalysisError, unparse, iter_scope
from ..report import RuleResult
from ..flow import always_exits
from .. import guards
from .. import tok as T


def _call_name(c):
    f = c.func
    return f.attr if isinstance(f, ast.Attribute) else getattr(f, 'id', '')


# ----------------------------------------------------------------------------- RX8
_RE_FLAGS = {'DOTALL', 'S', 'MULTILINE', 'M', 'IGNORECASE', 'I', 'VERBOSE', 'X', 'ASCII', 'A', 'UNICODE', 'U',
             'LOCALE', 'L', 'NOFLAG'}
# position of the first parameter that is NOT pattern / repl / string, and what it means
_RE_SLOTS = {'sub': (3, 'count'), 'subn': (3, 'count'), 'split': (2, 'maxsplit')}


def rx8(model):
    r = RuleResult('RX8', 're.sub / re.subn / re.split take their flags by keyword only: the positional parameter '
                   'behind the string is count / maxsplit, so re.sub(p, r, s, re.DOTALL) replaces at most 16 matches '
                   'without the flag', floor=0)
    for m in model.mods.values():
        for n in ast.walk(m.tree):
            if not (isinstance(n, ast.Call) and isinstance(n.func, ast.Attribute) and n.func.attr in _RE_SLOTS
                    and isinstance(n.func.value, ast.Name) and n.func.value.id == 're'):
                continue
            k, what = _RE_SLOTS[n.func.attr]
            bad = None
            for a in n.args[k:]:
                if any(isinstance(x, ast.Attribute) and isinstance(x.value, ast.Name) and x.value.id == 're'
                       and x.attr in _RE_FLAGS for x in ast.walk(a)):
                    bad = a
            if bad is not None:
                r.fail(n, 're.%s is given the flag %s in the position of %s: the flag is not applied and at most %s '
                       '%s are made' % (n.func.attr, unparse(bad), what, unparse(bad), 'replacements'
                                        if what == 'count' else 'splits'),
                       witness='a highlighted match that covers more than 16 lines')
            else:
                r.ok(n, 'no flag in the %s position' % what, sample=False)
    return r


# ----------------------------------------------------------------------------- TC1
def tc1(model):
    r = RuleResult('TC1', 'token classes are told apart by their exact type: every token class derives from '
                   'defs.TextToken, so isinstance(x, defs.TextToken) is true for macros, specials, language switches '
                   '... as well; a class test on tokens is written type(x) is C / type(x) in (...), and isinstance '
                   'is used only with a class that has no subclass among the token classes', floor=20)
    # token class hierarchy from defs.py
    subs = {}
    for c in model.classes.values():
        if c.mod.short != 'defs':
            continue
        for b in c.bases:
            subs.setdefault(unparse(b).split('.')[-1], set()).add(c.name)
    n_tests = 0
    for f in model.all_funcs():
        for n in iter_scope(f.node):
            if isinstance(n, ast.Compare) and isinstance(n.left, ast.Call) and getattr(n.left.func, 'id', '') == 'type':
                n_tests += 1
            if isinstance(n, ast.Call) and getattr(n.func, 'id', '') == 'isinstance' and len(n.args) == 2:
                cl = n.args[1]
                names = [unparse(x).split('.')[-1] for x in (cl.elts if isinstance(cl, ast.Tuple) else [cl])]
                wide = [nm for nm in names if subs.get(nm)]
                if wide:
                    r.fail(n, '%s: isinstance(…, %s) is also true for the subclasses %s: tokens of those classes '
                           'are treated like plain text tokens' % (f.qname, wide[0], ', '.join(sorted(subs[wide[0]]))[:80]),
                           witness='\\GLS{x} for an entry that contains a macro: the macro name is upper-cased')
                else:
                    n_tests += 1
    r.instances += n_tests
    r.nontrivial += n_tests
    return r


# ----------------------------------------------------------------------------- SP6
def sp6(model):
    from .. import tables
    r = RuleResult('SP6', 'no special sequence is the beginning of a control word: the scanner tries the special '
                   'sequences before it scans a macro name, so a key "\\" + macro character (letter or @) would cut '
                   'every macro whose name begins with it (\\@title -> special \\@ + text title)', floor=5)
    tab, node = tables.parameters_table(model, 'special_tokens')
    if not isinstance(tab, dict):
        raise AnalysisError('anchor vanished: literal table Parameters.special_tokens')
    for k in tab:
        if isinstance(k, str) and len(k) >= 2 and k[0] == '\\' and (k[1] == '@' or ('a' <= k[1] <= 'z') or ('A' <= k[1] <= 'Z')):
            r.fail(node, 'the special sequence %r begins like a control word: every macro name that starts with it '
                   'is split by the scanner and vanishes from the list of unknown macros' % k,
                   stmt='special_tokens key ' + k, witness='\\makeatletter \\@title')
        else:
            r.ok_plain('special key %r' % k, 'does not begin a control word', nontrivial=True)
    return r


# ----------------------------------------------------------------------------- ML11
def ml11(model):
    from ..callgraph import callgraph
    r = RuleResult('ML11', '\\selectlanguage replaces the current language (LanguageToken with hard=True), '
                   '\\foreignlanguage and the otherlanguage environments push one (hard not set): the handler '
                   'registered for each name builds its token accordingly, also through a helper', floor=2)
    from .. import tables
    want = {'\\selectlanguage': True, '\\foreignlanguage': False, 'otherlanguage': False, 'otherlanguage*': False}
    cg = callgraph(model)

    def hard_of(fn, depth=0, bind=None):
        """set of truth values of `hard` over the LanguageToken(lang=...) constructions reachable from fn"""
        out = set()
        for n in iter_scope(fn.node):
            if not isinstance(n, ast.Call):
                continue
            if _call_name(n) == 'LanguageToken' and any(k.arg == 'lang' for k in n.keywords):
                hv = next((k.value for k in n.keywords if k.arg == 'hard'), None)
                if hv is None:
                    out.add(False)
                elif isinstance(hv, ast.Constant):
                    out.add(bool(hv.value))
                elif isinstance(hv, ast.Name) and bind is not None and hv.id in bind:
                    out.add(bind[hv.id])
                else:
                    out.add(None)
            elif depth < 2:
                rc = model.resolve_call(n)
                if rc and rc[0] == 'func' and rc[1].mod is fn.mod and not isinstance(rc[1].node, ast.Lambda) \
                        and rc[1] is not fn:
                    g = rc[1]
                    # bind the parameter `hard` of the helper: keyword, positional, or default
                    b = {}
                    a = g.node.args
                    names = [x.arg for x in a.args]
                    defaults = dict(zip(names[len(names) - len(a.defaults):], a.defaults))
                    for p_ in names:
                        v = None
                        if p_ in [k.arg for k in n.keywords]:
                            v = next(k.value for k in n.keywords if k.arg == p_)
                        elif names.index(p_) < len(n.args):
                            v = n.args[names.index(p_)]
                        elif p_ in defaults:
                            v = defaults[p_]
                        if isinstance(v, ast.Constant) and isinstance(v.value, bool):
                            b[p_] = v.value
                    out |= hard_of(g, depth + 1, b)
        return out
    seen = 0
    for ent in tables.registry(model):
        nm = ent['name']
        if not (isinstance(nm, ast.Constant) and nm.value in want):
            continue
        h = ent['repl']
        fns = cg.func_value(h) if h is not None else []
        for fn in fns:
            seen += 1
            hs = hard_of(fn)
            if hs == {want[nm.value]}:
                r.ok(ent['node'], '%s: hard=%s' % (nm.value, want[nm.value]), nontrivial=True)
            elif None in hs or not hs:
                r.undec(ent['node'], 'hard flag of the language token of %s not decided' % nm.value)
            else:
                r.fail(ent['node'], 'the handler of %s builds its LanguageToken with hard=%s: %s'
                       % (nm.value, sorted(hs), 'inside an otherlanguage environment or a \\foreignlanguage argument '
                          'the switch is pushed, and the end of the group pops the wrong entry'
                          if want[nm.value] else 'the language is replaced instead of pushed'),
                       witness='\\begin{otherlanguage}{german} \\selectlanguage{french} A \\end{otherlanguage} B')
    if seen == 0:
        raise AnalysisError('anchor vanished: babel handlers for \\selectlanguage / \\foreignlanguage')
    return r


# ----------------------------------------------------------------------------- LC5
def lc5(model):
    r = RuleResult('LC5', 'state of an inner loop does not leak into the next round of the outer loop: a local that '
                   'an inner loop reads before it writes it (the value comes from the previous inner iteration) is '
                   'set in the body of the outer loop in front of the inner loop, not only once in front of both',
                   floor=1)
    for f in model.all_funcs():
        if isinstance(f.node, ast.Lambda):
            continue
        for outer in iter_scope(f.node):
            if not isinstance(outer, (ast.For, ast.While)):
                continue
            for idx, inner in enumerate(outer.body):
                if not isinstance(inner, (ast.For, ast.While)):
                    continue
                # locals read before written in the inner body (document order of a straight walk)
                first = {}
                assigned = set()

                def walk(stmts):
                    for s in stmts:
                        # loads of the statement come before its stores
                        val_nodes = []
                        tgt_names = []
                        if isinstance(s, ast.Assign):
                            val_nodes = [s.value]
                            tgt_names = [t.id for t in s.targets if isinstance(t, ast.Name)]
                        elif isinstance(s, ast.AugAssign):
                            val_nodes = [s.value, s.target]
                        else:
                            val_nodes = [s]
                        for vn in val_nodes:
                            for x in ast.walk(vn):
                                if isinstance(x, ast.Name) and isinstance(x.ctx, ast.Load) and x.id not in first:
                                    first[x.id] = 'load'
                                elif isinstance(x, ast.Name) and isinstance(x.ctx, ast.Store) and x.id not in first:
                                    first[x.id] = 'store'
                                    assigned.add(x.id)
                        for nm in tgt_names:
                            first.setdefault(nm, 'store')
                            assigned.add(nm)
                walk(inner.body)
                stores_in_inner = {x.id for x in ast.walk(inner) if isinstance(x, ast.Name) and isinstance(x.ctx, ast.Store)}
                if isinstance(inner, ast.For):
                    stores_in_inner -= {x.id for x in ast.walk(inner.target) if isinstance(x, ast.Name)}
                carried = [v for v, k in first.items() if k == 'load' and v in stores_in_inner
                           and not any(isinstance(a, ast.AugAssign) and isinstance(a.target, ast.Name) and a.target.id == v
                                       for a in ast.walk(inner))]
                for v in carried:
                    pre = [s for s in outer.body[:idx] for x in ast.walk(s)
                           if isinstance(x, ast.Name) and x.id == v and isinstance(x.ctx, ast.Store)]
                    used_after = any(isinstance(x, ast.Name) and x.id == v and isinstance(x.ctx, ast.Load)
                                     for s in outer.body[idx + 1:] for x in ast.walk(s))
                    if pre:
                        r.ok(inner, '%s is set in the outer loop body in front of the inner loop' % v, nontrivial=True)
                    else:
                        # set in front of the outer loop only?
                        before = [a for a in iter_scope(f.node) if isinstance(a, ast.Assign) and a.lineno < outer.lineno
                                  and any(isinstance(t, ast.Name) and t.id == v for t in a.targets)]
                        if before and not used_after:
                            r.fail(inner, '%s: the inner loop reads %s before it writes it, and %s is set only in front '
                                   'of the outer loop: from the second round on it starts with the value the previous '
                                   'round left' % (f.qname, v, v),
                                   witness='a replacement file with two rules')
    return r


# ----------------------------------------------------------------------------- PD7b
def pd7b(model):
    r = RuleResult('PD7b', 'a macro handler places what it generates at its own position: in a handler (parser, buf, '
                   'mac, args, delim, pos) a token it constructs does not take its position from a token it only '
                   'looked at in the buffer (buf.cur / look_ahead / skip_space / next): that token belongs to the '
                   'text behind the macro', floor=20)
    n_ctor = 0
    for f in model.all_funcs():
        if isinstance(f.node, ast.Lambda) or f.params[:2] != ['parser', 'buf']:
            continue
        bufname = f.params[1]
        peeked = set()
        for n in iter_scope(f.node):
            if isinstance(n, ast.Assign) and len(n.targets) == 1 and isinstance(n.targets[0], ast.Name) \
                    and isinstance(n.value, ast.Call) and isinstance(n.value.func, ast.Attribute) \
                    and unparse(n.value.func.value) == bufname and n.value.func.attr in ('cur', 'look_ahead', 'skip_space', 'next'):
                peeked.add(n.targets[0].id)
        for n in iter_scope(f.node):
            if not isinstance(n, ast.Call):
                continue
            cls = T.token_ctor(model, n)
            if cls is None:
                continue
            n_ctor += 1
            a = T.ctor_args(model, n, cls)
            p = a.get('pos')
            if p is None:
                continue
            bad = [x for x in ast.walk(p) if isinstance(x, ast.Attribute) and x.attr == 'pos'
                   and isinstance(x.value, ast.Name) and x.value.id in peeked]
            if bad:
                r.fail(n, '%s: the generated token gets the position %s of a token that the handler only looked at '
                       'in the buffer: the text maps to the word behind the macro, outside the span of the macro'
                       % (f.qname, unparse(bad[0])), witness='\\eg word   with \\newcommand{\\eg}{e.g.\\xspace}')
    r.instances += n_ctor
    r.nontrivial += n_ctor
    return r


# ----------------------------------------------------------------------------- SB8
def sb8(model):
    r = RuleResult('SB8', '\\def is consumed completely before parse_def_macro decides what to do with it: every return '
                   'that is not an error return stands behind the statement that reads the body (arg_buffer); '
                   'otherwise parameter text and body of an ignored definition are left in the text', floor=1)
    f = model.func('parser.Parser.parse_def_macro')
    reads = [s for s in f.node.body if any(isinstance(c, ast.Call) and _call_name(c) == 'arg_buffer' for c in ast.walk(s))]
    if not reads:
        raise AnalysisError('anchor vanished: parse_def_macro reads the body with arg_buffer')
    last = reads[-1]
    idx = f.node.body.index(last)
    bad = None
    for s in f.node.body[:idx]:
        for n in ast.walk(s):
            if isinstance(n, ast.Return):
                v = n.value
                is_err = v is not None and any(isinstance(c, ast.Call) and _call_name(c) == 'latex_error'
                                               for c in ast.walk(v))
                if not is_err and isinstance(v, ast.Call) and isinstance(v.func, ast.Name):
                    # a local helper that builds the error: def error(msg, pos): return utils.latex_error(...)
                    for d in ast.walk(f.node):
                        if isinstance(d, ast.FunctionDef) and d is not f.node and d.name == v.func.id and any(
                                isinstance(c, ast.Call) and _call_name(c) == 'latex_error' for c in ast.walk(d)):
                            is_err = True
                if not is_err:
                    bad = n
    if bad is not None:
        r.fail(bad, 'parse_def_macro returns here without an error, before it has read the body of the definition: '
               'the parameter text and the body stay in the buffer and appear in the plain text',
               witness='\\def\\LTskip#1{#1} A')
    else:
        r.ok(last, 'all non-error returns stand behind the reading of the body', nontrivial=True)
    return r


# ----------------------------------------------------------------------------- SB2c
def sb2c(model):
    r = RuleResult('SB2c', 'the default value of an optional argument enters the expansion as re-stamped copies: in '
                   'expand_arguments (and a helper it hands the work to) what is taken from mac.defaults[n] is '
                   'copied token by token, and every copy gets pos = start and pos_fix = True (the tokens of the '
                   'definition carry positions inside the \\newcommand line)', floor=1)
    f0 = model.func('parser.Parser.expand_arguments')
    funcs = [f0]
    for c in iter_scope(f0.node):
        if isinstance(c, ast.Call):
            rc = model.resolve_call(c)
            if rc and rc[0] == 'func' and rc[1].cls is f0.cls and not isinstance(rc[1].node, ast.Lambda):
                funcs.append(rc[1])
    seen = False
    for f in funcs:
        for lp in iter_scope(f.node):
            # loop form: for t in mac.defaults[n]: t = copy.copy(t); arg.append(t); t.pos = start; t.pos_fix = True
            if isinstance(lp, ast.For) and isinstance(lp.target, ast.Name) and any(
                    isinstance(x, ast.Attribute) and x.attr == 'defaults' for x in ast.walk(lp.iter)):
                seen = True
                v = lp.target.id
                copies = [a for a in ast.walk(lp) if isinstance(a, ast.Assign) and isinstance(a.targets[0], ast.Name)
                          and isinstance(a.value, ast.Call) and unparse(a.value.func) in ('copy.copy', 'copy.deepcopy')
                          and a.value.args and unparse(a.value.args[0]) == v]
                cv = copies[0].targets[0].id if copies else None
                stamps = {a.targets[0].attr for a in ast.walk(lp) if isinstance(a, ast.Assign)
                          and isinstance(a.targets[0], ast.Attribute) and isinstance(a.targets[0].value, ast.Name)
                          and a.targets[0].value.id == cv}
                appended = any(isinstance(c, ast.Call) and _call_name(c) == 'append' and c.args
                               and unparse(c.args[0]) == cv for c in ast.walk(lp))
                if cv and appended and {'pos', 'pos_fix'} <= stamps:
                    r.ok(lp, 'default tokens are copied and re-stamped one by one', nontrivial=True)
                else:
                    r.fail(lp, '%s: the default of the optional argument is taken over token by token without '
                           '%s' % (f.qname, 'a copy' if not cv else 'the new position'),
                           witness='\\newcommand{\\vect}[1][x]{\\mathbf{#1}_n} ... $\\vect$')
        for n in iter_scope(f.node):
            if not (isinstance(n, ast.Assign) and any(isinstance(x, ast.Attribute) and x.attr == 'defaults'
                                                      for x in ast.walk(n.value))):
                continue
            if not isinstance(n.targets[0], ast.Name):
                continue
            seen = True
            v = n.targets[0].id
            copied = isinstance(n.value, (ast.ListComp, ast.GeneratorExp)) and any(
                isinstance(c, ast.Call) and unparse(c.func) in ('copy.copy', 'copy.deepcopy') for c in ast.walk(n.value.elt))
            stamps = set()
            for lp in iter_scope(f.node):
                if isinstance(lp, ast.For) and isinstance(lp.iter, ast.Name) and lp.iter.id == v and isinstance(lp.target, ast.Name):
                    for a in ast.walk(lp):
                        if isinstance(a, ast.Assign) and isinstance(a.targets[0], ast.Attribute) \
                                and isinstance(a.targets[0].value, ast.Name) and a.targets[0].value.id == lp.target.id:
                            stamps.add(a.targets[0].attr)
            if copied and {'pos', 'pos_fix'} <= stamps:
                r.ok(n, 'default tokens are copied and re-stamped', nontrivial=True)
            else:
                r.fail(n, '%s: the default of the optional argument is used as %s: %s' % (
                    f.qname, unparse(n.value)[:50],
                    'the tokens are not copied' if not copied else 'the copies keep the positions of the definition'),
                    witness='\\newcommand{\\vect}[1][x]{\\mathbf{#1}_n} ... $\\vect$')
    if not seen:
        r.undec(f0.node, 'use of mac.defaults not recognised')
        r.instances += 1
    return r


# ----------------------------------------------------------------------------- TX4
def tx4(model):
    r = RuleResult('TX4', 'server emulation: the text of a request goes to the filter as it was sent (offsets of the '
                   'answer refer to that text): the value taken from the request field "text" is not rewritten '
                   '(replace / strip / splitlines / translate / normalize) before it is proofread', floor=1)
    f = model.func('shell.server.Handler.create_message')
    src = None
    for n in iter_scope(f.node):
        if isinstance(n, ast.Assign) and len(n.targets) == 1 and isinstance(n.targets[0], ast.Name) \
                and any(isinstance(x, ast.Constant) and x.value == 'text' for x in ast.walk(n.value)):
            src = n
            break
    if src is None:
        raise AnalysisError('anchor vanished: request field "text" in Handler.create_message')
    v = src.targets[0].id
    bad = [c for c in ast.walk(src.value) if isinstance(c, ast.Call) and isinstance(c.func, ast.Attribute)
           and c.func.attr in ('replace', 'strip', 'rstrip', 'lstrip', 'splitlines', 'translate', 'expandtabs', 'lower', 'upper')]
    for n in iter_scope(f.node):
        if isinstance(n, ast.Assign) and any(isinstance(t, ast.Name) and t.id == v for t in n.targets) and n is not src:
            bad.append(n)
    if bad:
        r.fail(bad[0], 'the text of the request is rewritten (%s) before it is proofread: the offsets of the answer '
               'no longer address the text the client sent' % unparse(bad[0])[:60],
               witness='a request whose text has CR LF line ends')
    else:
        r.ok(src, 'the request text is passed on unchanged', nontrivial=True)
    return r


# ----------------------------------------------------------------------------- ND1
def nd1(model):
    r = RuleResult('ND1', 'modules are loaded in the order in which they are named: the loops that load package / class '
                   'modules (tex2txt.get_packages, handlers.h_load_module, Parser.init_package) do not iterate over a '
                   'set - its order depends on the hash seed of the process, and later modules overwrite earlier '
                   'declarations', floor=2)
    for q in ('tex2txt.get_packages', 'handlers.h_load_module', 'parser.Parser.init_package', 'parser.Parser.__init__'):
        if not model.has_func(q):
            continue
        f = model.func(q)
        fns = [f] + list(getattr(f, 'nested', {}).values())
        for g in fns:
            for lp in ast.walk(g.node):
                it = lp.iter if isinstance(lp, (ast.For, ast.comprehension)) else None
                if it is None:
                    continue
                setty = [c for c in ast.walk(it) if (isinstance(c, ast.Call) and getattr(c.func, 'id', '') in ('set', 'frozenset'))
                         or isinstance(c, (ast.Set, ast.SetComp))]
                if setty and not any(isinstance(c, ast.Call) and getattr(c.func, 'id', '') == 'sorted' for c in ast.walk(it)):
                    r.fail(lp if isinstance(lp, ast.For) else it, '%s iterates over a set (%s): the order in which the '
                           'modules are loaded differs from process to process' % (g.qname, unparse(it)[:50]),
                           witness='--pack "*,.usermod" where the user module redefines an environment of a package')
                else:
                    r.ok(it, 'ordered iteration', sample=False)
    return r


# ----------------------------------------------------------------------------- TJ8
def tj8(model):
    r = RuleResult('TJ8', 'the decoded answer of a proofreader is used as a container (k in x, x[k], iteration, len) '
                   'only after its type has been checked (isinstance / json_get with a type): a JSON root that is '
                   'null, a number or true raises TypeError otherwise', floor=2)
    for f in model.all_funcs():
        if isinstance(f.node, ast.Lambda) or not f.mod.short.startswith('shell'):
            continue
        roots = {}
        for n in iter_scope(f.node):
            if isinstance(n, ast.Assign) and len(n.targets) == 1 and isinstance(n.targets[0], ast.Name) \
                    and isinstance(n.value, ast.Call) and _call_name(n.value) in ('decode', 'loads', 'load') \
                    and 'json' in unparse(n.value.func):
                roots[n.targets[0].id] = n
        for v, src in roots.items():
            # the type check that dominates everything else: isinstance(v, ...) in an exit test directly behind
            uses = []
            for n in iter_scope(f.node):
                if isinstance(n, ast.Compare) and len(n.ops) == 1 and isinstance(n.ops[0], (ast.In, ast.NotIn)) \
                        and isinstance(n.comparators[0], ast.Name) and n.comparators[0].id == v:
                    uses.append(n)
                elif isinstance(n, ast.Subscript) and isinstance(n.value, ast.Name) and n.value.id == v \
                        and isinstance(n.ctx, ast.Load):
                    uses.append(n)
                elif isinstance(n, (ast.For, ast.comprehension)) and isinstance(n.iter, ast.Name) and n.iter.id == v:
                    uses.append(n.iter)
            for u in uses:
                def typed(e, t):
                    if isinstance(e, ast.Call) and getattr(e.func, 'id', '') == 'isinstance' and len(e.args) == 2 \
                            and isinstance(e.args[0], ast.Name) and e.args[0].id == v:
                        return t
                    if isinstance(e, ast.Compare) and len(e.ops) == 1 and isinstance(e.left, ast.Call) \
                            and getattr(e.left.func, 'id', '') == 'type' and e.left.args \
                            and isinstance(e.left.args[0], ast.Name) and e.left.args[0].id == v:
                        return isinstance(e.ops[0], (ast.Is, ast.Eq)) == t
                    return False
                if guards.has_fact(u, typed):
                    r.ok(u, 'used behind a type test of %s' % v, nontrivial=True)
                else:
                    r.fail(u, '%s: the decoded answer %s is used as a container (%s) before its type is checked: a '
                           'JSON root null / 3 / true ends in TypeError instead of the diagnostic'
                           % (f.qname, v, unparse(getattr(u, '_parent', u))[:50] if not isinstance(u, ast.Compare) else unparse(u)[:50]),
                           witness='the proofreader answers with the JSON text null')
            if not uses:
                r.ok(src, 'decoded answer %s is only passed on' % v, sample=False)
    return r


# ----------------------------------------------------------------------------- IX20
def ix20(model):
    r = RuleResult('IX20', 'a list that a function builds itself (assigned from [], a comprehension or list(), grown with '
                   'append) is indexed with a literal k >= 1 only where a test of its length covers k: len(L) > k, '
                   'len(L) >= k + 1, or the negation of len(L) < k + 1 through a short-circuit `or`', floor=0)
    for f in model.all_funcs():
        if isinstance(f.node, ast.Lambda) or f.mod.short.startswith('shell'):
            continue
        built = set()
        for n in iter_scope(f.node):
            if isinstance(n, ast.Assign) and len(n.targets) == 1 and isinstance(n.targets[0], ast.Name):
                v = n.value
                if (isinstance(v, ast.List) and not v.elts) or isinstance(v, ast.ListComp) \
                        or (isinstance(v, ast.Call) and getattr(v.func, 'id', '') == 'list'):
                    built.add(n.targets[0].id)
        # a name that is also assigned something else (e.g. a literal table) is not "built here"
        for n in iter_scope(f.node):
            if isinstance(n, ast.Assign):
                for t in n.targets:
                    if isinstance(t, ast.Name) and t.id in built:
                        v = n.value
                        if not ((isinstance(v, ast.List)) or isinstance(v, ast.ListComp)
                                or (isinstance(v, ast.Call) and getattr(v.func, 'id', '') == 'list')
                                or (isinstance(v, ast.Subscript) and isinstance(v.slice, ast.Slice))
                                or (isinstance(v, ast.BinOp))):
                            built.discard(t.id)
                        if isinstance(v, ast.List) and v.elts:
                            built.discard(t.id)
        if not built:
            continue
        for n in iter_scope(f.node):
            if not (isinstance(n, ast.Subscript) and isinstance(n.ctx, ast.Load) and isinstance(n.value, ast.Name)
                    and n.value.id in built and isinstance(n.slice, ast.Constant) and isinstance(n.slice.value, int)
                    and not isinstance(n.slice.value, bool) and n.slice.value >= 1):
                continue
            L, k = n.value.id, n.slice.value

            def covers(e, t):
                if not (isinstance(e, ast.Compare) and len(e.ops) == 1 and isinstance(e.left, ast.Call)
                        and getattr(e.left.func, 'id', '') == 'len' and e.left.args and unparse(e.left.args[0]) == L
                        and isinstance(e.comparators[0], ast.Constant) and isinstance(e.comparators[0].value, int)):
                    return False
                c, op = e.comparators[0].value, e.ops[0]
                if t:
                    return (isinstance(op, ast.Gt) and c >= k) or (isinstance(op, ast.GtE) and c >= k + 1) \
                        or (isinstance(op, ast.Eq) and c >= k + 1)
                return (isinstance(op, ast.Lt) and c >= k + 1) or (isinstance(op, ast.LtE) and c >= k)
            if guards.has_fact(n, covers):
                r.ok(n, '%s[%d] behind a length test' % (L, k), nontrivial=True)
            else:
                r.fail(n, '%s: %s[%d] is evaluated where no test guarantees len(%s) > %d: IndexError when the list is '
                       'shorter' % (f.qname, L, k, L, k),
                       witness='a text that ends directly behind a short \\foreignlanguage inclusion (multi-language mode)')
    return r


# ----------------------------------------------------------------------------- FD1
def fd1(model):
    r = RuleResult('FD1', 'the result of str.find / rfind is -1 when nothing is found: it is used as a slice bound or an '
                   'index only in the form result + 1 (start of the line, or 0), or behind a test that excludes -1 '
                   '(comparison of the result with -1 / 0, or `needle in text` for the same needle and text); '
                   's[:s.find(x)] without such a test drops the last character when x is absent', floor=6)
    scopes = [(f, list(iter_scope(f.node))) for f in model.all_funcs() if not isinstance(f.node, ast.Lambda)]
    for m in model.mods.values():
        scopes.append((None, [n for n in ast.walk(m.tree) if getattr(n, '_fn', None) is None]))
    for f, nodes in scopes:
        qn = f.qname if f is not None else '<module>'
        for n in nodes:
            if not (isinstance(n, ast.Call) and isinstance(n.func, ast.Attribute) and n.func.attr in ('find', 'rfind')
                    and n.args):
                continue
            hay, needle = unparse(n.func.value), unparse(n.args[0])
            par = getattr(n, '_parent', None)
            # result + 1 : fine
            if isinstance(par, ast.BinOp) and isinstance(par.op, ast.Add) and (
                    (par.left is n and isinstance(par.right, ast.Constant) and par.right.value == 1)
                    or (par.right is n and isinstance(par.left, ast.Constant) and par.left.value == 1)):
                r.ok(n, 'used as result + 1', nontrivial=True)
                continue

            def excl(e, t, name=None):
                # a local flag that stands for `needle in hay`
                if isinstance(e, ast.Name) and getattr(e, '_fn', None) is not None:
                    vs = T.resolve_local(model, e)
                    if len(vs) == 1 and vs[0] is not e and isinstance(vs[0], ast.Compare):
                        return excl(vs[0], t, name)
                # needle in hay
                if isinstance(e, ast.Compare) and len(e.ops) == 1 and isinstance(e.ops[0], (ast.In, ast.NotIn)) \
                        and unparse(e.left) == needle and unparse(e.comparators[0]) == hay:
                    return isinstance(e.ops[0], ast.In) == t
                if name is None:
                    return False
                if isinstance(e, ast.Compare) and len(e.ops) == 1 and unparse(e.left) == name \
                        and isinstance(e.comparators[0], (ast.Constant, ast.UnaryOp)):
                    try:
                        c = ast.literal_eval(e.comparators[0])
                    except ValueError:
                        return False
                    op = e.ops[0]
                    if t:
                        return (isinstance(op, ast.GtE) and c >= 0) or (isinstance(op, ast.Gt) and c >= -1) \
                            or (isinstance(op, ast.NotEq) and c == -1)
                    return (isinstance(op, ast.Lt) and c <= 0) or (isinstance(op, ast.LtE) and c <= -1) \
                        or (isinstance(op, ast.Eq) and c == -1)
                return False
            # direct use as slice bound / index
            sensitive = []
            if isinstance(par, ast.Slice) or (isinstance(par, ast.Subscript) and par.slice is n):
                sensitive.append((n, None))
            elif isinstance(par, ast.Assign) and len(par.targets) == 1 and isinstance(par.targets[0], ast.Name):
                nm = par.targets[0].id
                from ..rdefs import reachdefs
                rd = reachdefs(f) if f is not None else None
                for u in nodes:
                    if isinstance(u, ast.Name) and u.id == nm and isinstance(u.ctx, ast.Load):
                        if rd is not None:
                            ds = rd.defs_of(u)
                            if not any(k == 'assign' and node is par.value for k, _n, node in ds):
                                continue
                        elif sum(1 for a in nodes if isinstance(a, ast.Name) and a.id == nm
                                 and isinstance(a.ctx, ast.Store)) != 1:
                            continue        # module level: only names bound once are followed
                        up = getattr(u, '_parent', None)
                        if isinstance(up, ast.Slice) or (isinstance(up, ast.Subscript) and up.slice is u):
                            sensitive.append((u, nm))
            else:
                r.ok(n, 'result is not used as a bound', sample=False)
                continue
            if not sensitive:
                r.ok(n, 'result is compared or passed on, not used as a bound', sample=False)
                continue
            for u, nm in sensitive:
                if guards.has_fact(u, lambda e, t, nm=nm: excl(e, t, nm)):
                    r.ok(u, 'bound behind a test that excludes -1', nontrivial=True)
                else:
                    r.fail(u, '%s: the result of %s is used as a bound / index without a test for -1: if %s does not '
                           'occur, the slice ends one character early (or the index wraps around)'
                           % (qn, unparse(n)[:50], needle[:30]),
                           witness='a file without \\end{document} that ends with \\input{part-b}')
    return r


# ----------------------------------------------------------------------------- DT2
def dt2(model):
    from .r6 import _tri_tok
    r = RuleResult('DT2', 'the text of a \\verb token is data: in the token loop of expand_math_section a VerbatimToken is '
                   'taken by a branch that tests its class before any branch compares tok.txt with the stop tokens, '
                   'operators or ignore lists (\\verb?$? inside a formula must not close it)', floor=1)
    f = model.func('mathparser.MathParser.expand_math_section')
    loops = [s for s in f.node.body if isinstance(s, ast.While)]
    if not loops:
        raise AnalysisError('anchor vanished: token loop of expand_math_section')
    lp = loops[0]
    tokname = None
    for s in lp.body:
        if isinstance(s, ast.Assign) and isinstance(s.targets[0], ast.Name) and isinstance(s.value, ast.Call) \
                and _call_name(s.value) in ('skip_space', 'cur', 'next'):
            tokname = s.targets[0].id
            break
    if tokname is None:
        raise AnalysisError('anchor vanished: current token of the loop in expand_math_section')
    done = False
    for s in lp.body:
        if done or not isinstance(s, ast.If):
            continue
        node = s
        while True:
            v = _tri_tok(node.test, tokname, 'VerbatimToken')
            if v is True:
                r.ok(node, 'a VerbatimToken is taken by its own branch', nontrivial=True)
                done = True
                break
            if v is None:
                r.fail(node, 'a VerbatimToken reaches the test `%s`, which compares its text: \\verb material that '
                       'happens to equal a stop token, operator or ignored macro is interpreted as markup'
                       % unparse(node.test)[:60], witness='A $x \\verb?$? y$ B')
                done = True
                break
            if len(node.orelse) == 1 and isinstance(node.orelse[0], ast.If):
                node = node.orelse[0]
                continue
            if node.orelse:
                r.ok(node, 'a VerbatimToken falls through to the default branch (element)', nontrivial=True)
                done = True
            break
    if not done:
        r.undec(lp, 'if-chain of the token loop not recognised')
        r.instances += 1
    return r


# ----------------------------------------------------------------------------- TO1
# declarations whose argument code ends with an optional argument: when the option is absent the look-ahead
# for it swallows the white space behind the call, so such a declaration is justified only where LaTeX
# documents a trailing optional argument (reason per entry; anything else is a finding)
TO1_ALLOWED = {
    ('packages.amsthm', 'proof'): '\\begin{proof}[title] (amsthm)',
    ('packages.biblatex', '\\printbibliography'): '\\printbibliography[options] (biblatex)',
    ('packages.unicode_math', '\\setmathfont'): '\\setmathfont{font}[features] (unicode-math)',
    ('parameters', 'figure'): '\\begin{figure}[placement]',
    ('parameters', 'table'): '\\begin{table}[placement]',
    ('parameters', '\\newtheorem'): '\\newtheorem{name}[counter]{title}[within]',
    ('parser', '\\item'): '\\item[label]',
    ('handlers', 'name'): 'environments made by \\newtheorem: \\begin{theorem}[note]',
}


def to1(model):
    from .. import tables
    r = RuleResult('TO1', 'a declaration ends with an optional argument only where LaTeX documents one (table '
                   'TO1_ALLOWED in the checker, one reason per entry): for every call without the option the search '
                   'for it runs over the white space behind the call, and the following word is glued on', floor=5)
    for ent in tables.registry(model):
        code = ent['args'] if ent['args'] is not None else ent['kw'].get('args')
        if not (isinstance(code, ast.Constant) and isinstance(code.value, str) and code.value.endswith('O')):
            continue
        nm = ent['name'].value if isinstance(ent['name'], ast.Constant) else unparse(ent['name'])
        key = (ent['node']._mod.short, nm)
        if key in TO1_ALLOWED:
            r.ok(ent['node'], 'documented trailing option: ' + TO1_ALLOWED[key], nontrivial=True)
        else:
            r.fail(ent['node'], '%s is declared with the argument code %r in %s: LaTeX documents no optional argument '
                   'behind its last mandatory one; every call swallows the white space that follows it'
                   % (nm, code.value, ent['node']._mod.short), stmt='trailing option of ' + nm,
                   witness='beta\\label{x} gamma  ->  betagamma')
    return r


# ----------------------------------------------------------------------------- GUARD1
def guard1(model):
    r = RuleResult('GUARD1', 're-entrancy guard: a function that refuses to run when its key is already in a list of an '
                   'object (`if k in x.L: <fatal / return>`) and then appends the key removes it again (pop / remove / '
                   'del) - otherwise the second legitimate call with the same key is refused', floor=0)
    for f in model.all_funcs():
        if isinstance(f.node, ast.Lambda):
            continue
        for n in iter_scope(f.node):
            if not (isinstance(n, ast.If) and always_exits(n.body)):
                continue
            fs = []
            guards.split_fact(n.test, True, fs)
            for e, t in fs:
                if not (t and isinstance(e, ast.Compare) and len(e.ops) == 1 and isinstance(e.ops[0], ast.In)
                        and isinstance(e.comparators[0], ast.Attribute)):
                    continue
                lst, key = unparse(e.comparators[0]), unparse(e.left)
                apps = [c for c in iter_scope(f.node) if isinstance(c, ast.Call) and isinstance(c.func, ast.Attribute)
                        and c.func.attr in ('append', 'add') and unparse(c.func.value) == lst and c.args
                        and unparse(c.args[0]) == key and c.lineno > n.lineno]
                if not apps:
                    continue
                rem = [c for c in iter_scope(f.node) if (isinstance(c, ast.Call) and isinstance(c.func, ast.Attribute)
                                                         and c.func.attr in ('pop', 'remove', 'discard', 'clear')
                                                         and unparse(c.func.value) == lst)
                       or (isinstance(c, ast.Delete) and any(lst in unparse(t_) for t_ in c.targets))
                       or (isinstance(c, ast.Assign) and any(unparse(t_) == lst for t_ in c.targets))]
                # does the function do more than record (i.e. guard some work)?
                if rem:
                    r.ok(apps[0], 'the key is removed again from %s' % lst, nontrivial=True)
                elif any(isinstance(c, ast.Call) and c.lineno > apps[0].lineno and _call_name(c) not in ('append', 'add')
                         for c in iter_scope(f.node)):
                    r.fail(apps[0], '%s: the key %s is recorded in %s to refuse re-entrant calls, but never removed: a '
                           'second, independent call with the same key is refused as well' % (f.qname, key, lst),
                           witness='a document that reads the same definition file twice with \\LTinput')
    return r


# ----------------------------------------------------------------------------- SBL3
def sbl3(model):
    r = RuleResult('SBL3', 'sibling agreement in handlers.py: the handlers that read a file or module name from an '
                   'argument (\\LTinput, \\usepackage / \\documentclass) all read it with get_text_expanded - a name '
                   'built with a macro must be expanded before it is used', floor=2)
    sites = []
    for q in ('handlers.h_load_defs', 'handlers.h_load_module'):
        if not model.has_func(q):
            raise AnalysisError('anchor vanished: function ' + q)
        f = model.func(q)
        fns = [f] + list(getattr(f, 'nested', {}).values())
        for g in fns:
            for n in iter_scope(g.node):
                if isinstance(n, ast.Assign) and isinstance(n.value, (ast.Call,)) and len(n.targets) == 1 \
                        and isinstance(n.targets[0], ast.Name) and n.targets[0].id in ('file', 'packs', 'name', 'fn', 'fname'):
                    c = n.value
                    while isinstance(c, ast.Call) and isinstance(c.func, ast.Attribute) and c.func.attr in ('strip',):
                        c = c.func.value
                    if isinstance(c, ast.Call) and _call_name(c).startswith('get_text'):
                        sites.append((g, n, _call_name(c)))
    if len(sites) < 2:
        raise AnalysisError('anchor vanished: name arguments of h_load_defs / h_load_module')
    for g, n, fn in sites:
        if fn == 'get_text_expanded':
            r.ok(n, '%s reads the name with get_text_expanded' % g.qname, nontrivial=True)
        else:
            r.fail(n, '%s reads the name with %s, its siblings with get_text_expanded: a file name that contains a '
                   'macro is used unexpanded and the file is "not readable"' % (g.qname, fn),
                   witness='\\newcommand{\\defsdir}{.}\\LTinput{\\defsdir/defs.tex}')
    return r


# ----------------------------------------------------------------------------- UK8
def uk8(model):
    r = RuleResult('UK8', 'the shell prints the list of unknowns as the filter returned it: output_list_unknown writes '
                   'its text parameter itself, not a re-formatted copy (names may contain blanks: \\begin{proof sketch})',
                   floor=1)
    f = model.func('shell.gentext.output_list_unknown')
    par = f.params[0]
    writes = [c for c in iter_scope(f.node) if isinstance(c, ast.Call) and _call_name(c) == 'write' and c.args]
    hit = False
    for c in writes:
        a = c.args[0]
        if isinstance(a, ast.Name) and a.id == par:
            hit = True
            r.ok(c, 'the text of the filter is written unchanged', nontrivial=True)
        elif any(isinstance(x, ast.Name) and x.id != par and isinstance(x.ctx, ast.Load) for x in ast.walk(a)) \
                and any(isinstance(x, ast.Call) and _call_name(x) in ('join', 'split', 'splitlines', 'format')
                        for x in list(ast.walk(a)) + [v for nm in ast.walk(a) if isinstance(nm, ast.Name)
                                                      for v in T.resolve_local(model, nm)]):
            r.fail(c, 'the list of unknowns is re-formatted before it is written (%s): a name that contains a blank is '
                   'split into several lines' % unparse(a)[:50], witness='\\begin{proof sketch} with --list-unknown')
            hit = True
    if not hit:
        r.undec(f.node, 'output of the list not recognised')
        r.instances += 1
    return r


# ----------------------------------------------------------------------------- NS1
def ns1(model):
    r = RuleResult('NS1', 'option values are data: no module of the shell passes them through shlex (a backslash in '
                   '--single-letters z.\\,B. or --replace is part of the value; shlex.split removes it)', floor=0)
    n_mod = 0
    for m in model.mods.values():
        n_mod += 1
        for n in ast.walk(m.tree):
            if isinstance(n, ast.Import) and any(a.name == 'shlex' for a in n.names) \
                    or isinstance(n, ast.ImportFrom) and n.module == 'shlex':
                uses = [c for c in ast.walk(m.tree) if isinstance(c, ast.Call) and 'shlex' in unparse(c.func)
                        or (isinstance(c, ast.Call) and isinstance(c.func, ast.Name) and c.func.id in ('split', 'quote')
                            and isinstance(n, ast.ImportFrom))]
                tgt = uses[0] if uses else n
                r.fail(tgt, '%s uses shlex: backslashes and quotes inside option values are interpreted and removed'
                       % m.name, witness='a configuration file with  single-letters z.\\,B.')
    r.instances += n_mod
    return r


# ----------------------------------------------------------------------------- ORD1
def ord1(model):
    r = RuleResult('ORD1', 'derived fields are computed from the final value: in the loop of generate_html that collects '
                   'the highlighted places, an attribute that is computed from h.beg / h.end (line numbers) is assigned '
                   'after the last assignment of h.beg / h.end in the loop body', floor=1)
    f = model.func('shell.genhtml.generate_html')
    fns = [f] + [g for g in model.all_funcs() if g.mod is f.mod and g is not f and not isinstance(g.node, ast.Lambda)]
    seen = False
    for g in fns:
        for lp in iter_scope(g.node):
            if not isinstance(lp, ast.For):
                continue
            # top-level statements of the loop body, flattened with their index
            stores = {}
            derived = []
            for i, s in enumerate(lp.body):
                for n in ast.walk(s):
                    if isinstance(n, (ast.Assign, ast.AugAssign)):
                        tg = n.targets if isinstance(n, ast.Assign) else [n.target]
                        for t in tg:
                            if isinstance(t, ast.Attribute) and isinstance(t.value, ast.Name):
                                key = (t.value.id, t.attr)
                                stores.setdefault(key, []).append(i)
                                if isinstance(n, ast.Assign):
                                    reads = {(x.value.id, x.attr) for x in ast.walk(n.value) if isinstance(x, ast.Attribute)
                                             and isinstance(x.value, ast.Name) and isinstance(x.ctx, ast.Load)}
                                    derived.append((i, key, reads, n))
            for i, key, reads, n in derived:
                for rk in reads:
                    if rk == key or rk[0] != key[0] or rk[1] not in ('beg', 'end'):
                        continue
                    if key[1] in ('beg', 'end'):
                        continue
                    seen = True
                    last = max(stores.get(rk, [-1]))
                    if last > i:
                        r.fail(n, '%s.%s is computed from %s.%s, which is corrected further down in the same loop body: '
                               'the derived value belongs to the uncorrected one' % (key[0], key[1], rk[0], rk[1]),
                               witness='a match whose end maps to an earlier source line than its start, --context 0')
                    else:
                        r.ok(n, '%s.%s computed after the last assignment of %s.%s' % (key[0], key[1], rk[0], rk[1]),
                             nontrivial=True)
    if not seen:
        r.undec(f.node, 'derived line fields of the highlight records not recognised')
        r.instances += 1
    return r


# ----------------------------------------------------------------------------- PS8
def ps8(model):
    r = RuleResult('PS8', 'no function stores into an attribute of a class object (ClassName.x = ..., cls.x = ..., '
                   'type(self).x = ..., self.__class__.x = ...): such a value outlives the document / request and is '
                   'seen by every later one', floor=0)
    n_fn = 0
    for f in model.all_funcs():
        if isinstance(f.node, ast.Lambda):
            continue
        n_fn += 1
        for n in iter_scope(f.node):
            tg = n.targets if isinstance(n, ast.Assign) else ([n.target] if isinstance(n, ast.AugAssign) else [])
            for t in tg:
                if not isinstance(t, ast.Attribute):
                    continue
                v = t.value
                is_cls = False
                if isinstance(v, ast.Name):
                    if v.id == 'cls':
                        is_cls = True
                    else:
                        rs = model.resolve_symbol(f.mod, f, v)
                        is_cls = bool(rs and rs[0] == 'class')
                elif isinstance(v, ast.Attribute) and v.attr == '__class__':
                    is_cls = True
                elif isinstance(v, ast.Call) and getattr(v.func, 'id', '') == 'type' and len(v.args) == 1:
                    is_cls = True
                if is_cls:
                    r.fail(n, '%s stores into the class attribute %s: the value is kept across documents and requests'
                           % (f.qname, unparse(t)), witness='two identical requests to the server emulation')
    r.instances += n_fn
    return r
