"""Rules added after the sixth round of seeded defects (DESIGN.md 3.11): MEMO1, LP1."""
import ast

from ..model import AnalysisError, unparse, iter_scope
from ..report import RuleResult
from ..flow import always_exits
from .. import guards


def _add_operands(e):
    if isinstance(e, ast.BinOp) and isinstance(e.op, ast.Add):
        return _add_operands(e.left) + _add_operands(e.right)
    return [unparse(e)]


def _single_alias(fn, name):
    """text of the only value ever assigned to the local `name` in fn, else None"""
    vals = []
    for n in iter_scope(fn):
        if isinstance(n, ast.Assign):
            for t in n.targets:
                for m in ast.walk(t):
                    if isinstance(m, ast.Name) and m.id == name:
                        vals.append(unparse(n.value) if isinstance(t, ast.Name) else None)
        elif isinstance(n, (ast.AugAssign, ast.AnnAssign, ast.For, ast.comprehension, ast.NamedExpr)):
            t = n.target
            for m in ast.walk(t):
                if isinstance(m, ast.Name) and m.id == name:
                    vals.append(None)
    return vals[0] if len(vals) == 1 else None


def _same(fn, a, b):
    ta, tb = unparse(a), unparse(b)
    if ta == tb:
        return True
    for x, other in ((a, tb), (b, ta)):
        if isinstance(x, ast.Name) and _single_alias(fn, x.id) == other:
            return True
    return False


# ----------------------------------------------------------------------------- MEMO1
def memo1(model):
    r = RuleResult('MEMO1', 'test-then-record agreement: (a) what is added to a collection under the guard '
                   '"X not in C" is X itself; (b) the value stored under C[K] is the value an early-return '
                   'guard "C[K] == V" of the same function compares with (else the guard never recognises '
                   'what the function recorded and the work is repeated, e.g. a package is initialised '
                   'again and wipes later definitions)', floor=3)
    for f in model.all_funcs():
        fn = f.node
        # (a) membership guard and insertion
        for n in iter_scope(fn):
            coll = item = None
            if isinstance(n, ast.Expr) and isinstance(n.value, ast.Call) and isinstance(n.value.func, ast.Attribute) \
                    and n.value.func.attr in ('append', 'add') and len(n.value.args) == 1:
                coll, item = n.value.func.value, n.value.args[0]
            elif isinstance(n, ast.Assign) and len(n.targets) == 1 and isinstance(n.targets[0], ast.Subscript) \
                    and not isinstance(n.targets[0].slice, ast.Slice):
                coll, item = n.targets[0].value, n.targets[0].slice
            if coll is None:
                continue
            ct = unparse(coll)
            for e, truth in guards.facts(n):
                if not (isinstance(e, ast.Compare) and len(e.ops) == 1
                        and isinstance(e.ops[0], (ast.In, ast.NotIn))):
                    continue
                absent = isinstance(e.ops[0], ast.NotIn) == truth
                if not absent or ct not in _add_operands(e.comparators[0]):
                    continue
                if _same(fn, e.left, item):
                    r.ok(n, 'records the tested element %s' % unparse(item)[:40], nontrivial=True)
                else:
                    r.fail(n, '%s: the guard tests %s for absence from %s but %s is recorded: the guard '
                           'does not recognise what was recorded' % (f.qname, unparse(e.left)[:40], ct[:40],
                                                                      unparse(item)[:40]),
                           witness='two uses of the same name')
        # (b) early-return guard on a stored value
        for n in iter_scope(fn):
            if not (isinstance(n, ast.If) and always_exits(n.body)):
                continue
            fs = []
            guards.split_fact(n.test, True, fs)
            for e, truth in fs:
                if not (truth and isinstance(e, ast.Compare) and len(e.ops) == 1 and isinstance(e.ops[0], ast.Eq)):
                    continue
                for sub, val in ((e.left, e.comparators[0]), (e.comparators[0], e.left)):
                    if not isinstance(sub, ast.Subscript) or isinstance(sub.slice, ast.Slice):
                        continue
                    stores = [m for m in iter_scope(fn) if isinstance(m, ast.Assign) and len(m.targets) == 1
                              and isinstance(m.targets[0], ast.Subscript)
                              and unparse(m.targets[0].value) == unparse(sub.value)
                              and unparse(m.targets[0].slice) == unparse(sub.slice)]
                    for m in stores:
                        if _same(fn, m.value, val):
                            r.ok(m, 'stores the value the guard at line %d compares with' % n.lineno, nontrivial=True)
                        else:
                            r.fail(m, '%s: the early-return guard compares %s with %s, but %s is stored: the '
                                   'guard never matches what the function recorded, the work is repeated'
                                   % (f.qname, unparse(sub)[:40], unparse(val)[:50], unparse(m.value)[:50]),
                                   witness='\\documentclass[a4paper]{article}\\usepackage{xcolor}'
                                           '\\newcommand{\\x}{X}\\usepackage{xcolor}\\x')
    return r


# ----------------------------------------------------------------------------- LP1
def lp1(model):
    r = RuleResult('LP1', 'exhaustive registration loops: a for loop whose body registers its element '
                   '(a recursive call of the enclosing function, or a store into a table of self keyed by '
                   'the element) contains no break and no return: skipping one element must not skip the rest',
                   floor=3)
    for f in model.all_funcs():
        fn = f.node
        own = getattr(fn, 'name', None)
        if own is None:
            continue
        for lp in iter_scope(fn):
            if not isinstance(lp, ast.For):
                continue
            tnames = {m.id for m in ast.walk(lp.target) if isinstance(m, ast.Name)}
            if not tnames:
                continue
            registers = None
            for n in ast.walk(lp):
                if isinstance(n, ast.Call) and isinstance(n.func, ast.Attribute) and n.func.attr == own \
                        and isinstance(n.func.value, ast.Name) and n.func.value.id in ('self', 'parser') \
                        and any(isinstance(m, ast.Name) and m.id in tnames for a in n.args for m in ast.walk(a)):
                    registers = 'recursive call'
                elif isinstance(n, ast.Assign) and len(n.targets) == 1 and isinstance(n.targets[0], ast.Subscript) \
                        and isinstance(n.targets[0].value, ast.Attribute) \
                        and unparse(n.targets[0].value).split('.')[0] in ('self', 'parser') \
                        and any(isinstance(m, ast.Name) and m.id in tnames for m in ast.walk(n.targets[0].slice)):
                    registers = 'store into %s' % unparse(n.targets[0].value)
            if not registers:
                continue
            exits = []

            def visit(stmts, inner):
                for s in stmts:
                    if isinstance(s, ast.Return):
                        exits.append(s)
                    elif isinstance(s, ast.Break) and not inner:
                        exits.append(s)
                    elif isinstance(s, (ast.For, ast.While)):
                        visit(s.body, True)
                        visit(s.orelse, inner)
                    elif isinstance(s, ast.If):
                        visit(s.body, inner)
                        visit(s.orelse, inner)
                    elif isinstance(s, ast.Try):
                        visit(s.body, inner)
                        for h in s.handlers:
                            visit(h.body, inner)
                        visit(s.orelse, inner)
                        visit(s.finalbody, inner)
                    elif isinstance(s, ast.With):
                        visit(s.body, inner)
            visit(lp.body, False)
            if exits:
                r.fail(exits[0], '%s: the loop over %s registers each element (%s) but leaves at the first '
                       'element that takes this exit: the remaining elements are never registered'
                       % (f.qname, unparse(lp.iter)[:40], registers),
                       witness='a package that requires two others, the first already loaded with other options')
            else:
                r.ok(lp, 'no early exit (%s)' % registers, nontrivial=True)
    return r


# ----------------------------------------------------------------------------- CL1
def _is_strip_of(e, name):
    return isinstance(e, ast.Call) and isinstance(e.func, ast.Attribute) and e.func.attr == 'strip' \
        and not e.args and isinstance(e.func.value, ast.Name) and e.func.value.id == name


def cl1(model):
    r = RuleResult('CL1', 'package lists of the document are comma lists in which LaTeX ignores the blanks '
                   'around a name: where text obtained with get_text_expanded() is split at commas, (a) every '
                   'element is used as name only after str.strip(), (b) an element is skipped only if it is '
                   'empty', floor=1)
    for f in model.all_funcs():
        fn = f.node
        if isinstance(fn, ast.Lambda):
            continue
        src = set()
        for n in iter_scope(fn):
            if isinstance(n, ast.Assign) and len(n.targets) == 1 and isinstance(n.targets[0], ast.Name) \
                    and any(isinstance(c, ast.Call) and isinstance(c.func, ast.Attribute)
                            and c.func.attr == 'get_text_expanded' for c in ast.walk(n.value)):
                src.add(n.targets[0].id)
        if not src:
            continue
        for cp in iter_scope(fn):
            if not isinstance(cp, (ast.ListComp, ast.GeneratorExp, ast.SetComp)) or len(cp.generators) != 1:
                continue
            g = cp.generators[0]
            it = g.iter
            if not (isinstance(g.target, ast.Name) and isinstance(it, ast.Call) and isinstance(it.func, ast.Attribute)
                    and it.func.attr == 'split' and {m.id for m in ast.walk(it) if isinstance(m, ast.Name)} & src
                    and len(it.args) == 1 and isinstance(it.args[0], ast.Constant) and it.args[0].value == ','):
                continue
            v = g.target.id
            if not _is_strip_of(cp.elt, v):
                r.fail(cp, '%s: an element of the comma list is used as name without str.strip()' % f.qname,
                       witness='\\usepackage{amsmath, xcolor}')
                continue
            badg = None
            for c in g.ifs:
                fs = []
                guards.split_fact(c, True, fs)
                for e, tr in fs:
                    if not ((isinstance(e, ast.Name) and e.id == v) or _is_strip_of(e, v)):
                        badg = e
            if badg is not None:
                r.fail(cp, '%s: a name of the list is skipped under the condition %s (only empty elements '
                       'may be skipped)' % (f.qname, unparse(badg)[:60]), witness='\\usepackage{cleveref}')
            else:
                r.ok(cp, 'elements stripped, skipped only if empty', nontrivial=True)
        for lp in iter_scope(fn):
            if not (isinstance(lp, ast.For) and isinstance(lp.target, ast.Name)):
                continue
            it = lp.iter
            roots = {m.id for m in ast.walk(it) if isinstance(m, ast.Name)}
            if not (roots & src) or 'split' not in unparse(it):
                continue
            v = lp.target.id
            plain = isinstance(it, ast.Call) and isinstance(it.func, ast.Attribute) and it.func.attr == 'split' \
                and len(it.args) == 1 and isinstance(it.args[0], ast.Constant) and it.args[0].value == ',' \
                and not it.keywords
            if not plain:
                if isinstance(it, ast.Call) and unparse(it.func) in ('re.split',) and len(it.args) == 2 \
                        and isinstance(it.args[0], ast.Constant) and it.args[0].value in (r'\s*,\s*',) \
                        and isinstance(it.args[1], ast.Call) and isinstance(it.args[1].func, ast.Attribute) \
                        and it.args[1].func.attr == 'strip' and not it.args[1].args:
                    r.ok(lp, 're.split consumes the blanks on both sides of each comma, subject stripped',
                         nontrivial=True)
                elif isinstance(it, ast.Call) and unparse(it.func) == 're.split':
                    r.fail(lp, '%s: the package list is split by %s: blanks that this pattern and the '
                           'preparation of the subject do not remove stay in the names, and such a name is '
                           'not found' % (f.qname, unparse(it)[:60]),
                           witness='\\usepackage{amsmath ,xcolor}')
                else:
                    r.undec(lp, 'comma list split in an unrecognised way: %s' % unparse(it)[:60])
                continue
            # (a) raw uses before normalisation, (b) guards
            clean = False
            bad = None
            badguard = None

            def uses(stmts, clean):
                nonlocal bad, badguard
                for s in stmts:
                    if isinstance(s, ast.Assign) and len(s.targets) == 1 and isinstance(s.targets[0], ast.Name) \
                            and s.targets[0].id == v:
                        if _is_strip_of(s.value, v):
                            clean = True
                            continue
                        clean = False
                    if isinstance(s, ast.If):
                        fs = []
                        guards.split_fact(s.test, True, fs)
                        for e, tr in fs:
                            if (isinstance(e, ast.Name) and e.id == v) or _is_strip_of(e, v):
                                continue
                            if badguard is None and _uses_elem(s.body + s.orelse):
                                badguard = e
                        uses(s.body, clean)
                        uses(s.orelse, clean)
                        continue
                    if isinstance(s, (ast.For, ast.While, ast.With, ast.Try)):
                        for fld in ('body', 'orelse', 'finalbody'):
                            uses(getattr(s, fld, []) or [], clean)
                        continue
                    if not clean:
                        for m in ast.walk(s):
                            if isinstance(m, ast.Name) and m.id == v and isinstance(m.ctx, ast.Load):
                                par = getattr(m, '_parent', None)
                                if isinstance(par, ast.Attribute) and par.attr == 'strip':
                                    continue
                                if bad is None:
                                    bad = m
                return clean

            def _uses_elem(stmts):
                return any(isinstance(m, ast.Name) and m.id == v for s in stmts for m in ast.walk(s))

            uses(lp.body, False)
            if bad is not None:
                r.fail(bad, '%s: an element of the comma list is used as name without str.strip(): a blank '
                       'or line break around the name remains and the package is not found' % f.qname,
                       witness='\\usepackage{amsmath, xcolor}')
            elif badguard is not None:
                r.fail(badguard, '%s: a name of the list is skipped under the condition %s (only empty elements '
                       'may be skipped)' % (f.qname, unparse(badguard)[:60]),
                       witness='\\usepackage{cleveref}')
            else:
                r.ok(lp, 'elements stripped before use, skipped only if empty', nontrivial=True)
    return r


# ----------------------------------------------------------------------------- SK1
def sk1(model):
    r = RuleResult('SK1', 'the comments that open and close a skipped region are recognised by their '
                   'beginning (a comment token also holds the rest of its line, the line break and the '
                   'indentation of the next line): every test of a token text against '
                   'parms.comment_skip_begin / comment_skip_end is str.startswith or a comparison of the '
                   'leading slice of that length', floor=2)
    marks = ('comment_skip_begin', 'comment_skip_end')
    for f in model.all_funcs():
        fn = f.node
        if f.qname.startswith('parameters.'):
            continue
        # local aliases of the marks and helper parameters that receive them
        names = {}
        for n in iter_scope(fn):
            if isinstance(n, ast.Assign) and len(n.targets) == 1 and isinstance(n.targets[0], ast.Name) \
                    and isinstance(n.value, ast.Attribute) and n.value.attr in marks:
                names[n.targets[0].id] = n.value.attr
        for n in iter_scope(fn):
            if isinstance(n, ast.Call) and not (isinstance(n.func, ast.Attribute) and n.func.attr == 'startswith'):
                # a helper called with a mark: its parameter is a mark inside the helper
                tgt = None
                if isinstance(n.func, ast.Name):
                    tgt = next((m for m in iter_scope(fn) if isinstance(m, ast.FunctionDef) and m.name == n.func.id), None)
                if tgt is None:
                    continue
                for i, a in enumerate(n.args):
                    if isinstance(a, ast.Attribute) and a.attr in marks and i < len(tgt.args.args):
                        names[tgt.args.args[i].arg] = a.attr

        def is_mark(e):
            return (isinstance(e, ast.Attribute) and e.attr in marks) or (isinstance(e, ast.Name) and e.id in names)

        nodes = list(iter_scope(fn))
        for m in list(nodes):
            if isinstance(m, ast.FunctionDef) and m is not fn:
                nodes += list(iter_scope(m))
        for n in nodes:
            if isinstance(n, ast.Call) and isinstance(n.func, ast.Attribute) and n.args and is_mark(n.args[0]):
                if n.func.attr == 'startswith':
                    r.ok(n, 'prefix test', nontrivial=True)
                elif n.func.attr in ('endswith', 'find', 'index', 'count', 'fullmatch', 'match', 'search'):
                    r.fail(n, '%s: a skip mark is recognised with .%s(): a mark followed by a remark, or the '
                           'line break that every comment token holds, is not recognised any more (or a mark '
                           'in the middle of a comment is)' % (f.qname, n.func.attr),
                           witness='%%% LT-SKIP-BEGIN  (old draft)\\n\\foo\\n%%% LT-SKIP-END\\n')
            elif isinstance(n, ast.Compare) and len(n.ops) == 1 and (is_mark(n.left) or is_mark(n.comparators[0])):
                other = n.comparators[0] if is_mark(n.left) else n.left
                mk = n.left if is_mark(n.left) else n.comparators[0]
                if isinstance(n.ops[0], (ast.Eq, ast.NotEq)) and isinstance(other, ast.Subscript) \
                        and isinstance(other.slice, ast.Slice) and other.slice.lower is None \
                        and other.slice.step is None and unparse(other.slice.upper) == 'len(%s)' % unparse(mk):
                    r.ok(n, 'leading slice compared', nontrivial=True)
                elif isinstance(n.ops[0], (ast.Eq, ast.NotEq, ast.In, ast.NotIn)):
                    r.fail(n, '%s: a skip mark is recognised by the comparison %s: a mark followed by a '
                           'remark is ignored and the region is not skipped'
                           % (f.qname, unparse(n)[:70]),
                           witness='%%% LT-SKIP-BEGIN  (old draft)\\n\\foo\\n%%% LT-SKIP-END\\n')
    return r


# ----------------------------------------------------------------------------- ML10
def ml10(model):
    from .. import tok as T
    r = RuleResult('ML10', 'a handler that switches the language does so on every path: a macro / environment '
                   'handler (parser, buf, mac, args, delim, pos) in which some return value holds a new '
                   'LanguageToken returns one on every path (the parser does not know the current language of '
                   'the multi-language splitter: a switch that is "already active" for the parser may still '
                   'have to end a foreign section for the splitter)', floor=3)
    for f in model.all_funcs():
        fn = f.node
        if isinstance(fn, ast.Lambda) or [a.arg for a in fn.args.args][:2] != ['parser', 'buf']:
            continue
        rets = [n for n in iter_scope(fn) if isinstance(n, ast.Return)]

        def has_lt(e):
            if e is None:
                return False
            if any(isinstance(c, ast.Call) and unparse(c.func).split('.')[-1] == 'LanguageToken' for c in ast.walk(e)):
                return True
            return any(isinstance(c, ast.Name) and 'LanguageToken(' in (_single_alias(fn, c.id) or '')
                       for c in ast.walk(e))
        # values accumulated in a local list that is returned
        def val_has_lt(ret):
            if has_lt(ret.value):
                return True
            if isinstance(ret.value, ast.Name):
                nm = ret.value.id
                for n in iter_scope(fn):
                    if isinstance(n, ast.Assign) and any(isinstance(t, ast.Name) and t.id == nm for t in n.targets) \
                            and has_lt(n.value):
                        return None      # built elsewhere: not decided here
                    if isinstance(n, ast.AugAssign) and isinstance(n.target, ast.Name) and n.target.id == nm \
                            and has_lt(n.value):
                        return None
            return False
        vals = [val_has_lt(x) for x in rets]
        if not any(v for v in vals if v) and None not in vals:
            continue
        if None in vals:
            r.undec(fn, '%s builds its language token in a local variable' % f.qname)
            continue
        bad = [x for x, v in zip(rets, vals) if v is False]
        if bad and not any('lang_context' in unparse(e) or 'parser_lang' in unparse(e)
                           for x in bad for e, tr in guards.facts(x)):
            r.undec(bad[0], '%s returns without language token under a condition that does not refer to '
                    'the language state of the parser' % f.qname)
            continue
        if bad or not always_exits(fn.body):
            r.fail(bad[0] if bad else fn, '%s: the language switch is not emitted on this path: the splitter '
                   'of the multi-language mode keeps the language it had, which need not be the one the '
                   'condition assumes' % f.qname,
                   witness='\\selectlanguage{english}\\foreignlanguage{german}{\\selectlanguage{english}}A B C')
        else:
            r.ok(fn, 'LanguageToken on each of %d return path(s)' % len(rets), nontrivial=True)
    return r


# ----------------------------------------------------------------------------- UND1
def _module_bound(tree):
    """names bound at module level (any statement nesting that does not open a scope), or None if a
    star import makes the set unknown"""
    bound = set()
    star = False

    def tgt(t):
        for m in ast.walk(t):
            if isinstance(m, ast.Name) and isinstance(m.ctx, (ast.Store, ast.Del)):
                bound.add(m.id)

    def walk(stmts):
        nonlocal star
        for s in stmts:
            if isinstance(s, (ast.FunctionDef, ast.AsyncFunctionDef, ast.ClassDef)):
                bound.add(s.name)
                continue
            if isinstance(s, ast.Import):
                for a in s.names:
                    bound.add((a.asname or a.name).split('.')[0])
            elif isinstance(s, ast.ImportFrom):
                for a in s.names:
                    if a.name == '*':
                        star = True
                    else:
                        bound.add(a.asname or a.name)
            elif isinstance(s, (ast.Assign, ast.AugAssign, ast.AnnAssign, ast.For, ast.With, ast.Delete)):
                for t in (getattr(s, 'targets', None) or [getattr(s, 'target', None)]):
                    if t is not None:
                        tgt(t)
                if isinstance(s, ast.With):
                    for it in s.items:
                        if it.optional_vars is not None:
                            tgt(it.optional_vars)
            for m in ast.walk(s) if not isinstance(s, (ast.If, ast.For, ast.While, ast.Try, ast.With)) else []:
                if isinstance(m, ast.NamedExpr):
                    tgt(m.target)
            for fld in ('body', 'orelse', 'finalbody'):
                sub = getattr(s, fld, None)
                if isinstance(sub, list):
                    walk(sub)
            for h in getattr(s, 'handlers', []) or []:
                if h.name:
                    bound.add(h.name)
                walk(h.body)
    walk(tree.body)
    return None if star else bound


def und1(model):
    import builtins
    import symtable
    r = RuleResult('UND1', 'no path ends in NameError: every name that a function or class body reads as a '
                   'global is bound somewhere in its module (import, def, class, assignment at module level, '
                   'or an assignment under a `global` declaration) or is a builtin', floor=300)
    bi = set(dir(builtins)) | {'__file__', '__name__', '__doc__', '__package__', '__spec__', '__loader__',
                               '__builtins__', '__path__'}
    for m in model.mods.values():
        bound = _module_bound(m.tree)
        if bound is None:
            r.undec(m.tree, 'module %s uses a star import: global names not decidable' % m.name)
            continue
        try:
            top = symtable.symtable(m.src, m.rel, "exec")
        except SyntaxError as e:
            raise AnalysisError('cannot build the symbol table of %s: %s' % (m.rel, e))
        # assignments under `global` in any function
        todo = [top]
        scopes = []
        while todo:
            t = todo.pop()
            scopes.append(t)
            todo += t.get_children()
        for t in scopes:
            if t is top:
                continue
            for s in t.get_symbols():
                if s.is_declared_global() and s.is_assigned():
                    bound.add(s.get_name())
        missing = {}
        for t in scopes:
            for s in t.get_symbols():
                nm = s.get_name()
                if not s.is_referenced():
                    continue
                if t is top:
                    is_glob = not s.is_assigned() and not s.is_imported() and not s.is_namespace() or s.is_global()
                    if s.is_assigned() or s.is_imported() or s.is_namespace():
                        continue
                else:
                    is_glob = s.is_global()
                if not is_glob:
                    continue
                r.instances += 1
                r.nontrivial += 1
                if nm not in bound and nm not in bi:
                    missing.setdefault(nm, []).append(t)
        for nm, ts in sorted(missing.items()):
            # locate the first reading occurrence inside the named scope
            node = None
            for t in ts:
                for n in ast.walk(m.tree):
                    if isinstance(n, ast.Name) and n.id == nm and isinstance(n.ctx, ast.Load) \
                            and (t.get_type() == 'module' or t.get_lineno() <= n.lineno):
                        node = n
                        break
                if node is not None:
                    break
            where = ', '.join(sorted({t.get_name() for t in ts}))
            r.fail(node if node is not None else m.tree,
                   'the global name %s is read in %s (%s) but never bound in the module: reaching this '
                   'expression raises NameError instead of the intended behaviour' % (nm, m.name, where),
                   witness='the path that evaluates this expression')
    return r
