"""Rules added after the sixth round of seeded defects (DESIGN.md 3.11): MEMO1, LP1."""
import ast

from ..model import AnalysisError, unparse, iter_scope
from ..report import RuleResult
from ..flow import always_exits
from .. import guards


def _add_operands(e):
    if isinstance(e, ast.BinOp) and isinstance(e.op, ast.Add):
        return _add_operands(e.left) + _add_operands(e.right)
    return [unparse(e)]


def _single_alias(fn, name):
    """text of the only value ever assigned to the local `name` in fn, else None"""
    vals = []
    for n in iter_scope(fn):
        if isinstance(n, ast.Assign):
            for t in n.targets:
                for m in ast.walk(t):
                    if isinstance(m, ast.Name) and m.id == name:
                        vals.append(unparse(n.value) if isinstance(t, ast.Name) else None)
        elif isinstance(n, (ast.AugAssign, ast.AnnAssign, ast.For, ast.comprehension, ast.NamedExpr)):
            t = n.target
            for m in ast.walk(t):
                if isinstance(m, ast.Name) and m.id == name:
                    vals.append(None)
    return vals[0] if len(vals) == 1 else None


def _same(fn, a, b):
    ta, tb = unparse(a), unparse(b)
    if ta == tb:
        return True
    for x, other in ((a, tb), (b, ta)):
        if isinstance(x, ast.Name) and _single_alias(fn, x.id) == other:
            return True
    return False


# ----------------------------------------------------------------------------- MEMO1
def memo1(model):
    r = RuleResult('MEMO1', 'test-then-record agreement: (a) what is added to a collection under the guard '
                   '"X not in C" is X itself; (b) the value stored under C[K] is the value an early-return '
                   'guard "C[K] == V" of the same function compares with (else the guard never recognises '
                   'what the function recorded and the work is repeated, e.g. a package is initialised '
                   'again and wipes later definitions)', floor=3)
    for f in model.all_funcs():
        fn = f.node
        # (a) membership guard and insertion
        for n in iter_scope(fn):
            coll = item = None
            if isinstance(n, ast.Expr) and isinstance(n.value, ast.Call) and isinstance(n.value.func, ast.Attribute) \
                    and n.value.func.attr in ('append', 'add') and len(n.value.args) == 1:
                coll, item = n.value.func.value, n.value.args[0]
            elif isinstance(n, ast.Assign) and len(n.targets) == 1 and isinstance(n.targets[0], ast.Subscript) \
                    and not isinstance(n.targets[0].slice, ast.Slice):
                coll, item = n.targets[0].value, n.targets[0].slice
            if coll is None:
                continue
            ct = unparse(coll)
            for e, truth in guards.facts(n):
                if not (isinstance(e, ast.Compare) and len(e.ops) == 1
                        and isinstance(e.ops[0], (ast.In, ast.NotIn))):
                    continue
                absent = isinstance(e.ops[0], ast.NotIn) == truth
                if not absent or ct not in _add_operands(e.comparators[0]):
                    continue
                if _same(fn, e.left, item):
                    r.ok(n, 'records the tested element %s' % unparse(item)[:40], nontrivial=True)
                else:
                    r.fail(n, '%s: the guard tests %s for absence from %s but %s is recorded: the guard '
                           'does not recognise what was recorded' % (f.qname, unparse(e.left)[:40], ct[:40],
                                                                      unparse(item)[:40]),
                           witness='two uses of the same name')
        # (b) early-return guard on a stored value
        for n in iter_scope(fn):
            if not (isinstance(n, ast.If) and always_exits(n.body)):
                continue
            fs = []
            guards.split_fact(n.test, True, fs)
            for e, truth in fs:
                if not (truth and isinstance(e, ast.Compare) and len(e.ops) == 1 and isinstance(e.ops[0], ast.Eq)):
                    continue
                for sub, val in ((e.left, e.comparators[0]), (e.comparators[0], e.left)):
                    if not isinstance(sub, ast.Subscript) or isinstance(sub.slice, ast.Slice):
                        continue
                    stores = [m for m in iter_scope(fn) if isinstance(m, ast.Assign) and len(m.targets) == 1
                              and isinstance(m.targets[0], ast.Subscript)
                              and unparse(m.targets[0].value) == unparse(sub.value)
                              and unparse(m.targets[0].slice) == unparse(sub.slice)]
                    for m in stores:
                        if _same(fn, m.value, val):
                            r.ok(m, 'stores the value the guard at line %d compares with' % n.lineno, nontrivial=True)
                        else:
                            r.fail(m, '%s: the early-return guard compares %s with %s, but %s is stored: the '
                                   'guard never matches what the function recorded, the work is repeated'
                                   % (f.qname, unparse(sub)[:40], unparse(val)[:50], unparse(m.value)[:50]),
                                   witness='\\documentclass[a4paper]{article}\\usepackage{xcolor}'
                                           '\\newcommand{\\x}{X}\\usepackage{xcolor}\\x')
    return r


# ----------------------------------------------------------------------------- LP1
def lp1(model):
    r = RuleResult('LP1', 'exhaustive registration loops: a for loop whose body registers its element '
                   '(a recursive call of the enclosing function, or a store into a table of self keyed by '
                   'the element) contains no break and no return: skipping one element must not skip the rest',
                   floor=3)
    for f in model.all_funcs():
        fn = f.node
        own = getattr(fn, 'name', None)
        if own is None:
            continue
        for lp in iter_scope(fn):
            if not isinstance(lp, ast.For):
                continue
            tnames = {m.id for m in ast.walk(lp.target) if isinstance(m, ast.Name)}
            if not tnames:
                continue
            registers = None
            for n in ast.walk(lp):
                if isinstance(n, ast.Call) and isinstance(n.func, ast.Attribute) and n.func.attr == own \
                        and isinstance(n.func.value, ast.Name) and n.func.value.id in ('self', 'parser') \
                        and any(isinstance(m, ast.Name) and m.id in tnames for a in n.args for m in ast.walk(a)):
                    registers = 'recursive call'
                elif isinstance(n, ast.Assign) and len(n.targets) == 1 and isinstance(n.targets[0], ast.Subscript) \
                        and isinstance(n.targets[0].value, ast.Attribute) \
                        and unparse(n.targets[0].value).split('.')[0] in ('self', 'parser') \
                        and any(isinstance(m, ast.Name) and m.id in tnames for m in ast.walk(n.targets[0].slice)):
                    registers = 'store into %s' % unparse(n.targets[0].value)
            if not registers:
                continue
            exits = []

            def visit(stmts, inner):
                for s in stmts:
                    if isinstance(s, ast.Return):
                        exits.append(s)
                    elif isinstance(s, ast.Break) and not inner:
                        exits.append(s)
                    elif isinstance(s, (ast.For, ast.While)):
                        visit(s.body, True)
                        visit(s.orelse, inner)
                    elif isinstance(s, ast.If):
                        visit(s.body, inner)
                        visit(s.orelse, inner)
                    elif isinstance(s, ast.Try):
                        visit(s.body, inner)
                        for h in s.handlers:
                            visit(h.body, inner)
                        visit(s.orelse, inner)
                        visit(s.finalbody, inner)
                    elif isinstance(s, ast.With):
                        visit(s.body, inner)
            visit(lp.body, False)
            if exits:
                r.fail(exits[0], '%s: the loop over %s registers each element (%s) but leaves at the first '
                       'element that takes this exit: the remaining elements are never registered'
                       % (f.qname, unparse(lp.iter)[:40], registers),
                       witness='a package that requires two others, the first already loaded with other options')
            else:
                r.ok(lp, 'no early exit (%s)' % registers, nontrivial=True)
    return r


# ----------------------------------------------------------------------------- CL1
def _is_strip_of(e, name):
    return isinstance(e, ast.Call) and isinstance(e.func, ast.Attribute) and e.func.attr == 'strip' \
        and not e.args and isinstance(e.func.value, ast.Name) and e.func.value.id == name


def cl1(model):
    r = RuleResult('CL1', 'package lists of the document are comma lists in which LaTeX ignores the blanks '
                   'around a name: where text obtained with get_text_expanded() is split at commas, (a) every '
                   'element is used as name only after str.strip(), (b) an element is skipped only if it is '
                   'empty', floor=1)
    for f in model.all_funcs():
        fn = f.node
        if isinstance(fn, ast.Lambda):
            continue
        src = set()
        for n in iter_scope(fn):
            if isinstance(n, ast.Assign) and len(n.targets) == 1 and isinstance(n.targets[0], ast.Name) \
                    and any(isinstance(c, ast.Call) and isinstance(c.func, ast.Attribute)
                            and c.func.attr == 'get_text_expanded' for c in ast.walk(n.value)):
                src.add(n.targets[0].id)
        if not src:
            continue
        for cp in iter_scope(fn):
            if not isinstance(cp, (ast.ListComp, ast.GeneratorExp, ast.SetComp)) or len(cp.generators) != 1:
                continue
            g = cp.generators[0]
            it = g.iter
            if not (isinstance(g.target, ast.Name) and isinstance(it, ast.Call) and isinstance(it.func, ast.Attribute)
                    and it.func.attr == 'split' and {m.id for m in ast.walk(it) if isinstance(m, ast.Name)} & src
                    and len(it.args) == 1 and isinstance(it.args[0], ast.Constant) and it.args[0].value == ','):
                continue
            v = g.target.id
            if not _is_strip_of(cp.elt, v):
                r.fail(cp, '%s: an element of the comma list is used as name without str.strip()' % f.qname,
                       witness='\\usepackage{amsmath, xcolor}')
                continue
            badg = None
            for c in g.ifs:
                fs = []
                guards.split_fact(c, True, fs)
                for e, tr in fs:
                    if not ((isinstance(e, ast.Name) and e.id == v) or _is_strip_of(e, v)):
                        badg = e
            if badg is not None:
                r.fail(cp, '%s: a name of the list is skipped under the condition %s (only empty elements '
                       'may be skipped)' % (f.qname, unparse(badg)[:60]), witness='\\usepackage{cleveref}')
            else:
                r.ok(cp, 'elements stripped, skipped only if empty', nontrivial=True)
        for lp in iter_scope(fn):
            if not (isinstance(lp, ast.For) and isinstance(lp.target, ast.Name)):
                continue
            it = lp.iter
            roots = {m.id for m in ast.walk(it) if isinstance(m, ast.Name)}
            if not (roots & src) or 'split' not in unparse(it):
                continue
            v = lp.target.id
            plain = isinstance(it, ast.Call) and isinstance(it.func, ast.Attribute) and it.func.attr == 'split' \
                and len(it.args) == 1 and isinstance(it.args[0], ast.Constant) and it.args[0].value == ',' \
                and not it.keywords
            if not plain:
                if isinstance(it, ast.Call) and unparse(it.func) in ('re.split',) and len(it.args) == 2 \
                        and isinstance(it.args[0], ast.Constant) and it.args[0].value in (r'\s*,\s*',) \
                        and isinstance(it.args[1], ast.Call) and isinstance(it.args[1].func, ast.Attribute) \
                        and it.args[1].func.attr == 'strip' and not it.args[1].args:
                    r.ok(lp, 're.split consumes the blanks on both sides of each comma, subject stripped',
                         nontrivial=True)
                elif isinstance(it, ast.Call) and unparse(it.func) == 're.split':
                    r.fail(lp, '%s: the package list is split by %s: blanks that this pattern and the '
                           'preparation of the subject do not remove stay in the names, and such a name is '
                           'not found' % (f.qname, unparse(it)[:60]),
                           witness='\\usepackage{amsmath ,xcolor}')
                else:
                    r.undec(lp, 'comma list split in an unrecognised way: %s' % unparse(it)[:60])
                continue
            # (a) raw uses before normalisation, (b) guards
            clean = False
            bad = None
            badguard = None

            def uses(stmts, clean):
                nonlocal bad, badguard
                for s in stmts:
                    if isinstance(s, ast.Assign) and len(s.targets) == 1 and isinstance(s.targets[0], ast.Name) \
                            and s.targets[0].id == v:
                        if _is_strip_of(s.value, v):
                            clean = True
                            continue
                        clean = False
                    if isinstance(s, ast.If):
                        fs = []
                        guards.split_fact(s.test, True, fs)
                        for e, tr in fs:
                            if (isinstance(e, ast.Name) and e.id == v) or _is_strip_of(e, v):
                                continue
                            if badguard is None and _uses_elem(s.body + s.orelse):
                                badguard = e
                        uses(s.body, clean)
                        uses(s.orelse, clean)
                        continue
                    if isinstance(s, (ast.For, ast.While, ast.With, ast.Try)):
                        for fld in ('body', 'orelse', 'finalbody'):
                            uses(getattr(s, fld, []) or [], clean)
                        continue
                    if not clean:
                        for m in ast.walk(s):
                            if isinstance(m, ast.Name) and m.id == v and isinstance(m.ctx, ast.Load):
                                par = getattr(m, '_parent', None)
                                if isinstance(par, ast.Attribute) and par.attr == 'strip':
                                    continue
                                if bad is None:
                                    bad = m
                return clean

            def _uses_elem(stmts):
                return any(isinstance(m, ast.Name) and m.id == v for s in stmts for m in ast.walk(s))

            uses(lp.body, False)
            if bad is not None:
                r.fail(bad, '%s: an element of the comma list is used as name without str.strip(): a blank '
                       'or line break around the name remains and the package is not found' % f.qname,
                       witness='\\usepackage{amsmath, xcolor}')
            elif badguard is not None:
                r.fail(badguard, '%s: a name of the list is skipped under the condition %s (only empty elements '
                       'may be skipped)' % (f.qname, unparse(badguard)[:60]),
                       witness='\\usepackage{cleveref}')
            else:
                r.ok(lp, 'elements stripped before use, skipped only if empty', nontrivial=True)
    return r


# ----------------------------------------------------------------------------- SK1
def sk1(model):
    r = RuleResult('SK1', 'the comments that open and close a skipped region are recognised by their '
                   'beginning (a comment token also holds the rest of its line, the line break and the '
                   'indentation of the next line): every test of a token text against '
                   'parms.comment_skip_begin / comment_skip_end is str.startswith or a comparison of the '
                   'leading slice of that length', floor=1)
    marks = ('comment_skip_begin', 'comment_skip_end')
    for f in model.all_funcs():
        fn = f.node
        if f.qname.startswith('parameters.'):
            continue
        # local aliases of the marks and helper parameters that receive them
        names = {}
        for n in iter_scope(fn):
            if isinstance(n, ast.Assign) and len(n.targets) == 1 and isinstance(n.targets[0], ast.Name) \
                    and isinstance(n.value, ast.Attribute) and n.value.attr in marks:
                names[n.targets[0].id] = n.value.attr
        for n in iter_scope(fn):
            if isinstance(n, ast.Call) and not (isinstance(n.func, ast.Attribute) and n.func.attr == 'startswith'):
                # a helper called with a mark: its parameter is a mark inside the helper
                tgt = None
                if isinstance(n.func, ast.Name):
                    tgt = next((m for m in iter_scope(fn) if isinstance(m, ast.FunctionDef) and m.name == n.func.id), None)
                if tgt is None:
                    continue
                for i, a in enumerate(n.args):
                    if isinstance(a, ast.Attribute) and a.attr in marks and i < len(tgt.args.args):
                        names[tgt.args.args[i].arg] = a.attr

        mod_consts = {c.value for c in ast.walk(f.mod.tree) if isinstance(c, ast.Constant) and isinstance(c.value, str)}

        def is_mark(e):
            if isinstance(e, ast.Call) and getattr(e.func, 'id', '') == 'getattr' and len(e.args) >= 2 \
                    and unparse(e.args[0]).endswith('parms') and (set(marks) & mod_consts):
                a1 = e.args[1]
                if isinstance(a1, ast.Constant):
                    return a1.value in marks
                return True     # the attribute name is a parameter; the module names the marks as strings
            return (isinstance(e, ast.Attribute) and e.attr in marks) or (isinstance(e, ast.Name) and e.id in names)

        nodes = list(iter_scope(fn))
        for m in list(nodes):
            if isinstance(m, ast.FunctionDef) and m is not fn:
                nodes += list(iter_scope(m))
        for n in nodes:
            if isinstance(n, ast.Call) and isinstance(n.func, ast.Attribute) and n.args and is_mark(n.args[0]):
                if n.func.attr == 'startswith':
                    r.ok(n, 'prefix test', nontrivial=True)
                elif n.func.attr in ('endswith', 'find', 'index', 'count', 'fullmatch', 'match', 'search'):
                    r.fail(n, '%s: a skip mark is recognised with .%s(): a mark followed by a remark, or the '
                           'line break that every comment token holds, is not recognised any more (or a mark '
                           'in the middle of a comment is)' % (f.qname, n.func.attr),
                           witness='%%% LT-SKIP-BEGIN  (old draft)\\n\\foo\\n%%% LT-SKIP-END\\n')
            elif isinstance(n, ast.Compare) and len(n.ops) == 1 and (is_mark(n.left) or is_mark(n.comparators[0])):
                other = n.comparators[0] if is_mark(n.left) else n.left
                mk = n.left if is_mark(n.left) else n.comparators[0]
                if isinstance(n.ops[0], (ast.Eq, ast.NotEq)) and isinstance(other, ast.Subscript) \
                        and isinstance(other.slice, ast.Slice) and other.slice.lower is None \
                        and other.slice.step is None and unparse(other.slice.upper) == 'len(%s)' % unparse(mk):
                    r.ok(n, 'leading slice compared', nontrivial=True)
                elif isinstance(n.ops[0], (ast.Eq, ast.NotEq, ast.In, ast.NotIn)):
                    r.fail(n, '%s: a skip mark is recognised by the comparison %s: a mark followed by a '
                           'remark is ignored and the region is not skipped'
                           % (f.qname, unparse(n)[:70]),
                           witness='%%% LT-SKIP-BEGIN  (old draft)\\n\\foo\\n%%% LT-SKIP-END\\n')
    return r


# ----------------------------------------------------------------------------- ML10
def ml10(model):
    from .. import tok as T
    r = RuleResult('ML10', 'a handler that switches the language does so on every path: a macro / environment '
                   'handler (parser, buf, mac, args, delim, pos) in which some return value holds a new '
                   'LanguageToken returns one on every path (the parser does not know the current language of '
                   'the multi-language splitter: a switch that is "already active" for the parser may still '
                   'have to end a foreign section for the splitter)', floor=3)
    for f in model.all_funcs():
        fn = f.node
        if isinstance(fn, ast.Lambda) or [a.arg for a in fn.args.args][:2] != ['parser', 'buf']:
            continue
        rets = [n for n in iter_scope(fn) if isinstance(n, ast.Return)]

        def has_lt(e):
            if e is None:
                return False
            if any(isinstance(c, ast.Call) and unparse(c.func).split('.')[-1] == 'LanguageToken' for c in ast.walk(e)):
                return True
            return any(isinstance(c, ast.Name) and 'LanguageToken(' in (_single_alias(fn, c.id) or '')
                       for c in ast.walk(e))
        # values accumulated in a local list that is returned
        def val_has_lt(ret):
            if has_lt(ret.value):
                return True
            if isinstance(ret.value, ast.Name):
                nm = ret.value.id
                for n in iter_scope(fn):
                    if isinstance(n, ast.Assign) and any(isinstance(t, ast.Name) and t.id == nm for t in n.targets) \
                            and has_lt(n.value):
                        return None      # built elsewhere: not decided here
                    if isinstance(n, ast.AugAssign) and isinstance(n.target, ast.Name) and n.target.id == nm \
                            and has_lt(n.value):
                        return None
            return False
        vals = [val_has_lt(x) for x in rets]
        if not any(v for v in vals if v) and None not in vals:
            continue
        if None in vals:
            r.undec(fn, '%s builds its language token in a local variable' % f.qname)
            continue
        bad = [x for x, v in zip(rets, vals) if v is False]
        if bad and not any('lang_context' in unparse(e) or 'parser_lang' in unparse(e)
                           for x in bad for e, tr in guards.facts(x)):
            r.undec(bad[0], '%s returns without language token under a condition that does not refer to '
                    'the language state of the parser' % f.qname)
            continue
        if bad or not always_exits(fn.body):
            r.fail(bad[0] if bad else fn, '%s: the language switch is not emitted on this path: the splitter '
                   'of the multi-language mode keeps the language it had, which need not be the one the '
                   'condition assumes' % f.qname,
                   witness='\\selectlanguage{english}\\foreignlanguage{german}{\\selectlanguage{english}}A B C')
        else:
            r.ok(fn, 'LanguageToken on each of %d return path(s)' % len(rets), nontrivial=True)
    return r


# ----------------------------------------------------------------------------- UND1
def _module_bound(tree):
    """names bound at module level (any statement nesting that does not open a scope), or None if a
    star import makes the set unknown"""
    bound = set()
    star = False

    def tgt(t):
        for m in ast.walk(t):
            if isinstance(m, ast.Name) and isinstance(m.ctx, (ast.Store, ast.Del)):
                bound.add(m.id)

    def walk(stmts):
        nonlocal star
        for s in stmts:
            if isinstance(s, (ast.FunctionDef, ast.AsyncFunctionDef, ast.ClassDef)):
                bound.add(s.name)
                continue
            if isinstance(s, ast.Import):
                for a in s.names:
                    bound.add((a.asname or a.name).split('.')[0])
            elif isinstance(s, ast.ImportFrom):
                for a in s.names:
                    if a.name == '*':
                        star = True
                    else:
                        bound.add(a.asname or a.name)
            elif isinstance(s, (ast.Assign, ast.AugAssign, ast.AnnAssign, ast.For, ast.With, ast.Delete)):
                for t in (getattr(s, 'targets', None) or [getattr(s, 'target', None)]):
                    if t is not None:
                        tgt(t)
                if isinstance(s, ast.With):
                    for it in s.items:
                        if it.optional_vars is not None:
                            tgt(it.optional_vars)
            for m in ast.walk(s) if not isinstance(s, (ast.If, ast.For, ast.While, ast.Try, ast.With)) else []:
                if isinstance(m, ast.NamedExpr):
                    tgt(m.target)
            for fld in ('body', 'orelse', 'finalbody'):
                sub = getattr(s, fld, None)
                if isinstance(sub, list):
                    walk(sub)
            for h in getattr(s, 'handlers', []) or []:
                if h.name:
                    bound.add(h.name)
                walk(h.body)
    walk(tree.body)
    return None if star else bound


def und1(model):
    import builtins
    import symtable
    r = RuleResult('UND1', 'no path ends in NameError: every name that a function or class body reads as a '
                   'global is bound somewhere in its module (import, def, class, assignment at module level, '
                   'or an assignment under a `global` declaration) or is a builtin', floor=300)
    bi = set(dir(builtins)) | {'__file__', '__name__', '__doc__', '__package__', '__spec__', '__loader__',
                               '__builtins__', '__path__'}
    for m in model.mods.values():
        bound = _module_bound(m.tree)
        if bound is None:
            r.undec(m.tree, 'module %s uses a star import: global names not decidable' % m.name)
            continue
        try:
            top = symtable.symtable(m.src, m.rel, "exec")
        except SyntaxError as e:
            raise AnalysisError('cannot build the symbol table of %s: %s' % (m.rel, e))
        # assignments under `global` in any function
        todo = [top]
        scopes = []
        while todo:
            t = todo.pop()
            scopes.append(t)
            todo += t.get_children()
        for t in scopes:
            if t is top:
                continue
            for s in t.get_symbols():
                if s.is_declared_global() and s.is_assigned():
                    bound.add(s.get_name())
        missing = {}
        for t in scopes:
            for s in t.get_symbols():
                nm = s.get_name()
                if not s.is_referenced():
                    continue
                if t is top:
                    is_glob = not s.is_assigned() and not s.is_imported() and not s.is_namespace() or s.is_global()
                    if s.is_assigned() or s.is_imported() or s.is_namespace():
                        continue
                else:
                    is_glob = s.is_global()
                if not is_glob:
                    continue
                r.instances += 1
                r.nontrivial += 1
                if nm not in bound and nm not in bi:
                    missing.setdefault(nm, []).append(t)
        for nm, ts in sorted(missing.items()):
            # locate the first reading occurrence inside the named scope
            node = None
            for t in ts:
                for n in ast.walk(m.tree):
                    if isinstance(n, ast.Name) and n.id == nm and isinstance(n.ctx, ast.Load) \
                            and (t.get_type() == 'module' or t.get_lineno() <= n.lineno):
                        node = n
                        break
                if node is not None:
                    break
            where = ', '.join(sorted({t.get_name() for t in ts}))
            r.fail(node if node is not None else m.tree,
                   'the global name %s is read in %s (%s) but never bound in the module: reaching this '
                   'expression raises NameError instead of the intended behaviour' % (nm, m.name, where),
                   witness='the path that evaluates this expression')
    return r


# ----------------------------------------------------------------------------- IX18
_STR_MAKERS = ('strip', 'rstrip', 'lstrip', 'join', 'get_text_expanded', 'replace')


def ix18(model):
    from .. import tok as T
    from ..rdefs import reachdefs
    r = RuleResult('IX18', 'a constant index is applied to a string that may be empty only under a test of that '
                   'very string: (a) E.strip()[k] (also rstrip / lstrip) needs a truth test of the same stripped '
                   'expression, not of E; (b) v[k] where every reaching definition of v is the result of strip / '
                   'join / get_text_expanded / replace needs a truth test of v; (c) an element of '
                   'Parser.extracted (a text flow, possibly empty) is indexed only if it is known to be '
                   'non-empty', floor=5)

    def const_idx(n):
        i = n.slice
        if isinstance(i, ast.UnaryOp) and isinstance(i.op, ast.USub):
            i = i.operand
        return isinstance(i, ast.Constant) and isinstance(i.value, int) and not isinstance(i.value, bool)

    def truthy_fact(n, text):
        def pred(e, t):
            if t and unparse(e) == text:
                return True
            if isinstance(e, ast.Compare) and len(e.ops) == 1 and unparse(e.left) == 'len(%s)' % text \
                    and isinstance(e.comparators[0], ast.Constant) and isinstance(e.comparators[0].value, int):
                k, op = e.comparators[0].value, e.ops[0]
                if t and ((isinstance(op, ast.Gt) and k >= 0) or (isinstance(op, ast.GtE) and k >= 1)
                          or (isinstance(op, ast.NotEq) and k == 0) or (isinstance(op, ast.Eq) and k >= 1)):
                    return True
                if not t and ((isinstance(op, ast.Eq) and k == 0) or (isinstance(op, ast.Lt) and k >= 1)
                              or (isinstance(op, ast.LtE) and k >= 0)):
                    return True
            if t and isinstance(e, ast.Compare) and len(e.ops) == 1 and unparse(e.left) == text \
                    and isinstance(e.ops[0], ast.NotEq) and isinstance(e.comparators[0], ast.Constant) \
                    and e.comparators[0].value in ('', [], ()):
                return True
            if t and isinstance(e, ast.Call) and any(unparse(a) == text for a in e.args):
                # a predicate helper whose result implies that its argument is non-empty:
                #    def ends_with_punct(s): return s and s[-1] in ...
                rc = model.resolve_call(e)
                if rc and rc[0] == 'func' and isinstance(rc[1].node, ast.FunctionDef):
                    fn_ = rc[1]
                    rets = [x for x in T.func_returns(fn_)]
                    params = fn_.params[1:] if fn_.cls is not None and fn_.outer is None else fn_.params
                    k = next(i for i, a in enumerate(e.args) if unparse(a) == text)
                    if len(rets) == 1 and rets[0] is not None and k < len(params):
                        fs = []
                        guards.split_fact(rets[0], True, fs)
                        if any(t2 and isinstance(e2, ast.Name) and e2.id == params[k] for e2, t2 in fs):
                            return True
            if t and isinstance(e, ast.Call) and isinstance(e.func, ast.Attribute) and unparse(e.func.value) == text \
                    and e.func.attr in ('strip', 'isalpha', 'isspace', 'isdigit', 'isdecimal', 'isalnum', 'startswith',
                                        'endswith'):
                return e.func.attr not in ('startswith', 'endswith') or bool(e.args) and not (
                    isinstance(e.args[0], ast.Constant) and e.args[0].value == '')
            return False
        return guards.has_fact(n, pred)

    for f in model.all_funcs():
        if isinstance(f.node, ast.Lambda) or f.mod.short.startswith('shell'):
            continue
        rd = None
        flow_vars = set()
        for lp in iter_scope(f.node):
            if isinstance(lp, (ast.For, ast.comprehension)) and isinstance(lp.target, ast.Name) \
                    and unparse(lp.iter).endswith('.extracted'):
                flow_vars.add(lp.target.id)
        for n in iter_scope(f.node):
            if not (isinstance(n, ast.Subscript) and isinstance(n.ctx, ast.Load) and not isinstance(n.slice, ast.Slice)
                    and const_idx(n)):
                continue
            v = n.value
            if isinstance(v, ast.Call) and isinstance(v.func, ast.Attribute) and v.func.attr in ('strip', 'rstrip', 'lstrip'):
                if truthy_fact(n, unparse(v)):
                    r.ok(n, 'stripped text tested before it is indexed', nontrivial=True)
                else:
                    r.fail(n, '%s: %s is indexed, but no test of this stripped text dominates the access (a test '
                           'of the unstripped text does not help: it may consist of white space only): IndexError'
                           % (f.qname, unparse(v)[:50]),
                           witness='inline maths that consists of & or \\\\ only: $&$')
            elif isinstance(v, ast.Name) and v.id in flow_vars:
                if truthy_fact(n, v.id):
                    r.ok(n, 'text flow tested before it is indexed', nontrivial=True)
                else:
                    r.fail(n, '%s: the text flow %s may be empty (\\footnote{}, \\footnote{\\label{x}} leave no '
                           'token outside multi-language mode) and is indexed without a test: IndexError'
                           % (f.qname, v.id), witness='A\\footnote{}B')
            elif isinstance(v, ast.Name):
                if rd is None:
                    rd = reachdefs(f)
                ds = rd.defs_of(v)
                if ds and all(k == 'assign' and isinstance(node, ast.Call) and isinstance(node.func, ast.Attribute)
                              and node.func.attr in _STR_MAKERS for k, nm, node in ds):
                    if truthy_fact(n, v.id):
                        r.ok(n, '%s tested before it is indexed' % v.id, nontrivial=True)
                    else:
                        r.fail(n, '%s: %s is the result of %s and may be empty; it is indexed without a test of '
                               'it: IndexError' % (f.qname, v.id, '/'.join(sorted({node.func.attr for k, nm, node in ds}))),
                               witness='an argument that expands to nothing')
    return r


# ----------------------------------------------------------------------------- EM9
def _tri_tok(e, tokname, cls):
    """truth value (True / False / None = unknown) of a condition for a token of class `cls`"""
    if isinstance(e, ast.UnaryOp) and isinstance(e.op, ast.Not):
        v = _tri_tok(e.operand, tokname, cls)
        return None if v is None else not v
    if isinstance(e, ast.BoolOp):
        vals = [_tri_tok(x, tokname, cls) for x in e.values]
        if isinstance(e.op, ast.And):
            if any(v is False for v in vals):
                return False
            return True if all(v is True for v in vals) else None
        if any(v is True for v in vals):
            return True
        return False if all(v is False for v in vals) else None
    if isinstance(e, ast.Name) and e.id == tokname:
        return True
    if isinstance(e, ast.Constant) and isinstance(e.value, bool):
        return e.value
    # what the class says about the text: a ParagraphToken is white space with at least two line breaks,
    # a LanguageToken has the empty text
    ttxt = tokname + '.txt'
    if cls in ('ParagraphToken', 'LanguageToken'):
        if isinstance(e, ast.Call) and isinstance(e.func, ast.Attribute) and unparse(e.func.value) == ttxt \
                and e.func.attr == 'isspace' and not e.args:
            return cls == 'ParagraphToken'
        if isinstance(e, ast.Attribute) and unparse(e) == ttxt:
            return cls == 'ParagraphToken'
        if isinstance(e, ast.Compare) and len(e.ops) == 1 and isinstance(e.ops[0], (ast.In, ast.NotIn)) \
                and unparse(e.comparators[0]) == ttxt and isinstance(e.left, ast.Constant) and isinstance(e.left.value, str):
            inn = None
            if cls == 'LanguageToken':
                inn = e.left.value == ''
            elif e.left.value in ('\n', ''):
                inn = True
            if inn is not None:
                return inn if isinstance(e.ops[0], ast.In) else not inn
    if isinstance(e, ast.Compare) and len(e.ops) == 1 and isinstance(e.left, ast.Call) \
            and getattr(e.left.func, 'id', '') == 'type' and e.left.args and unparse(e.left.args[0]) == tokname:
        c = e.comparators[0]
        names = [unparse(x).split('.')[-1] for x in (c.elts if isinstance(c, (ast.Tuple, ast.List, ast.Set)) else [c])]
        hit = cls in names
        if isinstance(e.ops[0], (ast.Is, ast.Eq, ast.In)):
            return hit
        if isinstance(e.ops[0], (ast.IsNot, ast.NotEq, ast.NotIn)):
            return not hit
    if isinstance(e, ast.Call) and getattr(e.func, 'id', '') == 'isinstance' and len(e.args) == 2 \
            and unparse(e.args[0]) == tokname:
        c = e.args[1]
        names = [unparse(x).split('.')[-1] for x in (c.elts if isinstance(c, ast.Tuple) else [c])]
        # the token classes of defs.py all derive directly from TextToken (flat hierarchy, checked by TC1's table)
        if cls in names or 'TextToken' in names or 'Printable' in names or 'object' in names:
            return True
        return False if all(n_.endswith('Token') for n_ in names) else None
    if isinstance(e, ast.Compare) and len(e.ops) == 1 and isinstance(e.left, ast.Name) and e.left.id == tokname \
            and isinstance(e.comparators[0], ast.Constant) and e.comparators[0].value is None:
        if isinstance(e.ops[0], (ast.Is, ast.Eq)):
            return False
        if isinstance(e.ops[0], (ast.IsNot, ast.NotEq)):
            return True
    return None


def em9(model):
    r = RuleResult('EM9', 'open maths ends at the paragraph: in the token loop of expand_math_section every branch '
                   'that a ParagraphToken can take (whatever its other fields) reports "missing end of maths" and '
                   'leaves the loop; none skips the token', floor=1)
    f = model.func('mathparser.MathParser.expand_math_section')
    loops = [s for s in f.node.body if isinstance(s, ast.While)]
    if not loops:
        raise AnalysisError('anchor vanished: token loop of expand_math_section')
    lp = loops[0]
    tokname = None
    for s in lp.body:
        if isinstance(s, ast.Assign) and isinstance(s.targets[0], ast.Name) and isinstance(s.value, ast.Call) \
                and T_call_name(s.value) in ('skip_space', 'cur', 'next'):
            tokname = s.targets[0].id
            break
    if tokname is None:
        raise AnalysisError('anchor vanished: current token of the loop in expand_math_section')

    def is_error_exit(body):
        has_err = any(isinstance(c, ast.Call) and T_call_name(c) == 'latex_error' for s in body for c in ast.walk(s))
        return has_err and always_exits(body) and any(isinstance(s, ast.Break) for s in body)

    decided = False

    def walk(stmts):
        nonlocal decided
        for s in stmts:
            if decided:
                return
            if not isinstance(s, ast.If):
                continue
            node = s
            while True:
                v = _tri_tok(node.test, tokname, 'ParagraphToken')
                if v is not False:
                    if is_error_exit(node.body):
                        r.ok(node, 'branch taken by a ParagraphToken reports the open maths and breaks', nontrivial=True)
                    else:
                        r.fail(node, 'a ParagraphToken can take the branch `%s`, which does not report the open '
                               'maths: unterminated maths runs on beyond the end of its paragraph'
                               % unparse(node.test)[:70],
                               witness='A $x \\par B\\n\\nC  (paragraph break produced by a macro)')
                    if v is True:
                        decided = True
                        return
                if len(node.orelse) == 1 and isinstance(node.orelse[0], ast.If):
                    node = node.orelse[0]
                    continue
                if node.orelse and v is not True:
                    walk(node.orelse)
                break
    walk(lp.body)
    if not decided and not r.findings:
        r.fail(lp, 'no branch of the loop is certainly taken by a ParagraphToken: open maths does not end at '
               'the paragraph', witness='A $x\\n\\nB')
    return r


def T_call_name(c):
    f = c.func
    return f.attr if isinstance(f, ast.Attribute) else getattr(f, 'id', '')


# ----------------------------------------------------------------------------- MOK1
def mok1(model):
    r = RuleResult('MOK1', 'operator words: every key of a math_op_text table (the word spoken for a leading '
                   'operator) other than the default None is an entry of Parameters.math_operators - a key '
                   'that no operator token can have is dead and its operator silently gets the default word - '
                   'and the tables of all languages have the same keys', floor=3)
    m = model.mod('parameters')
    ops = None
    for n in ast.walk(m.tree):
        if isinstance(n, ast.Assign) and len(n.targets) == 1 and unparse(n.targets[0]) == 'self.math_operators' \
                and isinstance(n.value, (ast.List, ast.Tuple, ast.Set)):
            try:
                ops = set(ast.literal_eval(n.value))
            except ValueError:
                ops = None
    if ops is None:
        raise AnalysisError('anchor vanished: literal list Parameters.math_operators')
    tabs = []
    for n in ast.walk(m.tree):
        if isinstance(n, ast.keyword) and n.arg == 'math_op_text' and isinstance(n.value, ast.Dict):
            try:
                tabs.append((n.value, ast.literal_eval(n.value)))
            except ValueError:
                r.undec(n.value, 'math_op_text table is not a literal')
    if not tabs:
        raise AnalysisError('anchor vanished: math_op_text tables')
    allkeys = set()
    for node, d in tabs:
        allkeys |= set(d)
    for node, d in tabs:
        bad = sorted(k for k in d if k is not None and k not in ops)
        missing = sorted((k for k in allkeys - set(d)), key=repr)
        if None not in d:
            r.fail(node, 'the table has no default entry None: KeyError for an operator without a word')
        elif bad:
            r.fail(node, 'the key %r is not an entry of math_operators: no operator token has this text, so the '
                   'operator it was meant for gets the default word %r' % (bad[0], d[None]),
                   witness='\\begin{align} a &= b \\\\ &\\times c \\end{align} in that language')
        elif missing:
            r.fail(node, 'the table lacks the key %r that the table of another language has: that operator '
                   'gets the default word %r here' % (missing[0], d[None]),
                   witness='an aligned section that starts with that operator')
        else:
            r.ok(node, '%d operator keys, all in math_operators, same as the sibling tables' % (len(d) - 1),
                 nontrivial=True)
    return r


# ----------------------------------------------------------------------------- SPC1
# horizontal spaces of LaTeX / amsmath that produce a visible positive space (LaTeX2e reference, amsmath docs);
# negative spaces are listed so that a table entry is never missing from the reference
LATEX_POSITIVE_SPACES = ('\\quad', '\\qquad', '\\enspace', '\\enskip', '\\thinspace', '\\medspace', '\\thickspace')
LATEX_NEGATIVE_SPACES = ('\\negthinspace', '\\negmedspace', '\\negthickspace', '\\!')


def _latex_defs(model):
    """(macro name, body text, string node) of every \\newcommand / \\renewcommand line in a string literal
    assigned to a name macros_latex"""
    import re
    out = []
    pat = re.compile(r'\\(?:re)?newcommand\{(\\[a-zA-Z@]+|\\.)\}(?:\[\d\](?:\[[^\]]*\])?)?\{(.*)\}\s*$')
    for m in model.mods.values():
        for n in ast.walk(m.tree):
            if isinstance(n, ast.Assign) and len(n.targets) == 1 and unparse(n.targets[0]).split('.')[-1] in ('macros_latex', 'macro_defs_latex') \
                    and isinstance(n.value, ast.Constant) and isinstance(n.value.value, str):
                for line in n.value.value.splitlines():
                    mm = pat.search(line.strip())
                    if mm:
                        out.append((mm.group(1), mm.group(2), n))
    return out


def spc1(model):
    from .. import tables
    r = RuleResult('SPC1', 'a positive horizontal space of LaTeX (\\quad, \\qquad, \\enspace, \\thinspace, \\medspace, '
                   '\\thickspace) that the filter defines as a LaTeX macro expands to exactly one entry of '
                   'Parameters.math_space: only those count as space at the edge of a formula (a plain blank is '
                   'skipped by the maths parser)', floor=3)
    ms, node = tables.parameters_table(model, 'math_space')
    if not ms:
        raise AnalysisError('anchor vanished: literal list Parameters.math_space')
    defs_ = _latex_defs(model)
    if not defs_:
        raise AnalysisError('anchor vanished: macros_latex strings')
    for name, body, n in defs_:
        if name in LATEX_POSITIVE_SPACES:
            if body in ms:
                r.ok(n, '%s -> %s (math space)' % (name, body), nontrivial=True)
            else:
                r.fail(n, '%s is defined as {%s}, which is not an entry of math_space: a formula that starts or '
                       'ends with it loses its blank' % (name, body),
                       witness='A$x\\thickspace $B', stmt='macros_latex ' + name)
    return r


# ----------------------------------------------------------------------------- OPT1
def opt1(model):
    r = RuleResult('OPT1', 'tex2txt applies each option on its own: a statement `if opts.X:` that configures the '
                   'parameters is not the else-branch of the test of a different option (with `elif`, one option '
                   'silently switches the other off)', floor=3)
    f = model.func('tex2txt.tex2txt')
    opar = f.params[1] if len(f.params) > 1 else 'opts'

    def opt_of(test):
        names = {x.attr for x in ast.walk(test) if isinstance(x, ast.Attribute) and isinstance(x.value, ast.Name)
                 and x.value.id == opar}
        return names
    for n in iter_scope(f.node):
        if not isinstance(n, ast.If):
            continue
        mine = opt_of(n.test)
        if not mine:
            continue
        par = getattr(n, '_parent', None)
        if isinstance(par, ast.If) and n in par.orelse and len(par.orelse) == 1:
            other = opt_of(par.test)
            if other and not (other & mine):
                r.fail(n, 'the option %s is evaluated only if %s is off (elif): giving both silently drops %s'
                       % ('/'.join(sorted(mine)), '/'.join(sorted(other)), '/'.join(sorted(mine))),
                       witness='Options(seqs=True, nosp=True)')
                continue
        r.ok(n, 'option %s tested on its own' % '/'.join(sorted(mine)), nontrivial=True)
    return r


# ----------------------------------------------------------------------------- SB6
def sb6(model):
    r = RuleResult('SB6', 'a definition reads nothing behind itself: in parse_def_macro and h_newcommand no call '
                   'moves the token buffer (skip_space / next / look_ahead-and-drop) after the last argument of '
                   'the definition has been read; white space behind \\def...{...} is ordinary text, exactly as '
                   'when the definition stands in a --defs file', floor=2)
    for q, bufname in (('parser.Parser.parse_def_macro', None), ('handlers.h_newcommand', None)):
        if not model.has_func(q):
            raise AnalysisError('anchor vanished: function ' + q)
        f = model.func(q)
        bname = next((p for p in f.params if p == 'buf'), None)
        if bname is None:
            r.undec(f.node, 'buffer parameter of %s not recognised' % q)
            continue
        # last statement (top level of the body) that reads an argument: a call of arg_buffer / expand_arguments
        body = f.node.body
        last_read = -1
        for i, s in enumerate(body):
            if any(isinstance(c, ast.Call) and T_call_name(c) in ('arg_buffer', 'expand_arguments', 'get_text_expanded')
                   for c in ast.walk(s)):
                last_read = i
        moved = None
        for s in body[last_read + 1:]:
            for c in ast.walk(s):
                if isinstance(c, ast.Call) and isinstance(c.func, ast.Attribute) and unparse(c.func.value) == bname \
                        and c.func.attr in ('skip_space', 'next', 'back'):
                    moved = c
        if moved is not None:
            r.fail(moved, '%s moves the token buffer (%s) after the definition has been read: text or white '
                   'space behind the definition is swallowed' % (f.qname, unparse(moved)),
                   witness='A\\def\\cc{C} B  gives AB')
        else:
            r.ok(f.node, 'no buffer movement behind the last argument', nontrivial=True)
    return r


# ----------------------------------------------------------------------------- LT3
# functions that may call Buffer.skip_space() while Buffer.is_space() accepts LanguageToken, each read and
# confirmed: what they skip is followed by an argument of the same construct, or the loss is recorded
LT3_ALLOWED = {
    'mathparser.MathParser.expand_math_section': 'inside maths: the tokens between the delimiters are consumed anyway',
    'parser.Parser.arg_buffer': 'in front of a mandatory argument that the caller is about to read',
    'parser.Parser.parse_newline_option': 'skips only after look_ahead() has seen the [ of the option',
    'parser.Parser.parse_keyvals_list': 'inside an option list',
    'parser.Parser.parse_def_macro': 'between \\def, the macro name and the body',
}


def _only_called_from(model, f, allowed, depth=0):
    """every call site of f lies in an allowed function (or in a helper for which the same holds)"""
    from ..callgraph import callgraph
    sites = callgraph(model).callers.get(f.qname, [])
    if not sites or depth > 4:
        return False
    # only calls by name: a handler that is reached through a table slot (mac.repl(...)) has no fixed caller
    if any(T_call_name(c) != f.name for c in sites):
        return False
    for c in sites:
        g = getattr(c, '_fn', None)
        if g is None:
            return False
        q = g.qname
        while q not in allowed and '.' in q and model.has_func(q.rsplit('.', 1)[0]):
            q = q.rsplit('.', 1)[0]
        if q in allowed:
            continue
        if not _only_called_from(model, g, allowed, depth + 1):
            return False
    return True


def lt3(model):
    r = RuleResult('LT3', 'who may call Buffer.skip_space(): it drops every token that is_space() accepts, and '
                   'that includes the LanguageToken which closes a \\foreignlanguage argument; only the confirmed '
                   'call sites (table LT3_ALLOWED in the checker) use it, nothing else - in particular no macro '
                   'handler looks for "the next visible token" with it', floor=5)
    isp = model.func('scanner.Buffer.is_space')
    from .. import tok as T
    accepts = 'LanguageToken' in T.is_space_classes(model)
    if not accepts:
        r.ok(isp.node, 'is_space() does not accept LanguageToken: skip_space() is harmless', nontrivial=True)
        r.instances += 5
        return r
    for f in model.all_funcs():
        if isinstance(f.node, ast.Lambda) or f.qname.startswith('scanner.Buffer.'):
            continue
        for n in iter_scope(f.node):
            if isinstance(n, ast.Call) and isinstance(n.func, ast.Attribute) and n.func.attr == 'skip_space':
                q = f.qname
                base = q
                while base not in LT3_ALLOWED and '.' in base and model.has_func(base.rsplit('.', 1)[0]):
                    base = base.rsplit('.', 1)[0]       # nested helper of an allowed function
                if base not in LT3_ALLOWED and _only_called_from(model, f, set(LT3_ALLOWED)):
                    r.ok(n, 'helper that is called only from confirmed functions', nontrivial=True, sample=False)
                elif base in LT3_ALLOWED:
                    r.ok(n, 'confirmed call site: ' + LT3_ALLOWED[base], nontrivial=True, sample=False)
                else:
                    r.fail(n, '%s calls skip_space(): a LanguageToken in front of the next visible token is '
                           'dropped, e.g. the one that closes a \\foreignlanguage argument - the rest of the '
                           'document is labelled with the foreign language' % q,
                           witness='\\foreignlanguage{german}{Wort\\xspace} more english text')
    return r


# ----------------------------------------------------------------------------- LA1
def la1(model):
    r = RuleResult('LA1', 'Buffer.look_ahead() leaves the buffer unchanged: on every path to a return, whatever '
                   'was removed with next() / pop() has been pushed back with back() (the tokens skipped are '
                   'white space for the caller, but a LanguageToken among them carries the language switch)',
                   floor=1)
    f = model.func('scanner.Buffer.look_ahead')

    def pops(node):
        return any(isinstance(c, ast.Call) and isinstance(c.func, ast.Attribute) and c.func.attr in ('next', 'pop')
                   for c in ast.walk(node))

    def is_back(s):
        return isinstance(s, ast.Expr) and isinstance(s.value, ast.Call) and isinstance(s.value.func, ast.Attribute) \
            and s.value.func.attr in ('back', 'extend') and s.value.args

    bad = []

    def walk(stmts, dirty):
        for s in stmts:
            if isinstance(s, ast.Return):
                if dirty or (s.value is not None and pops(s.value)):
                    bad.append(s)
                return dirty
            if is_back(s):
                dirty = False
                continue
            if isinstance(s, (ast.While, ast.For)):
                inner = dirty or pops(s)
                walk(s.body, inner)
                walk(s.orelse, inner)
                dirty = inner
                continue
            if isinstance(s, ast.If):
                d0 = dirty or pops(s.test)
                d1 = walk(s.body, d0)
                # `if taken: self.back(taken)`: in the other branch nothing had been taken
                nothing = isinstance(s.test, ast.Name) and any(
                    is_back(b) and unparse(b.value.args[0]) == s.test.id for b in s.body) and not pops(s.test)
                d2 = walk(s.orelse, False if nothing else d0)
                dirty = d1 or d2
                continue
            if pops(s):
                dirty = True
        return dirty
    end_dirty = walk(f.node.body, False)
    if bad:
        r.fail(bad[0], 'look_ahead returns on a path on which tokens have been taken from the buffer and not '
               'pushed back: the caller only wanted to look, the skipped tokens (a LanguageToken among them) '
               'are lost', witness='\\foreignlanguage{german}{text\\\\} followed by a blank line')
    elif end_dirty:
        r.fail(f.node, 'look_ahead can end without pushing back what it removed')
    else:
        r.ok(f.node, 'every return is reached with the buffer restored', nontrivial=True)
    return r


# ----------------------------------------------------------------------------- LN2
def ln2(model):
    r = RuleResult('LN2', 'the end of a line read from a file is removed with rstrip / strip / splitlines, never '
                   'by cutting one character (x[:-1]): the last line of a file need not end with a line break',
                   floor=1)
    for f in model.all_funcs():
        if isinstance(f.node, ast.Lambda):
            continue
        srcs = set()
        hit = False
        for n in iter_scope(f.node):
            if isinstance(n, ast.Call) and isinstance(n.func, ast.Attribute) and n.func.attr == 'readlines':
                hit = True
                par = getattr(n, '_parent', None)
                if isinstance(par, ast.Assign) and isinstance(par.targets[0], ast.Name):
                    srcs.add(par.targets[0].id)
        if not hit:
            continue
        bad = None
        for n in iter_scope(f.node):
            # element variables of loops / comprehensions over the lines
            it = tgt = None
            if isinstance(n, (ast.For, ast.comprehension)):
                it, tgt = n.iter, n.target
            if it is None or not isinstance(tgt, ast.Name):
                continue
            over_lines = (isinstance(it, ast.Name) and it.id in srcs) or any(
                isinstance(c, ast.Call) and isinstance(c.func, ast.Attribute) and c.func.attr == 'readlines'
                for c in ast.walk(it))
            if not over_lines:
                continue
            scope = n if isinstance(n, ast.For) else getattr(n, '_parent', n)
            for x in ast.walk(scope):
                if isinstance(x, ast.Subscript) and isinstance(x.slice, ast.Slice) and isinstance(x.value, ast.Name) \
                        and x.value.id == tgt.id and x.slice.lower is None and x.slice.upper is not None \
                        and unparse(x.slice.upper) in ('-1', 'len(%s) - 1' % tgt.id):
                    bad = x
        if bad is not None:
            r.fail(bad, '%s cuts the last character of every line read (%s): a last line without a line break '
                   'loses a character of its text' % (f.qname, unparse(bad)),
                   witness='a replacement file whose last line "zB & zum Beispiel" has no final line break')
        else:
            r.ok(f.node, 'lines of the file are not shortened by a fixed slice', nontrivial=True)
    return r


# ----------------------------------------------------------------------------- LB1
def lb1(model):
    r = RuleResult('LB1', 'HTML report: the line number shown for a match is the 0-based line index '
                   'tex.count("\\n", 0, start) plus exactly 1, at every place where it is shown (title of the '
                   'highlight, list of overlapping messages)', floor=1)
    f = model.func('shell.genhtml.generate_html')
    mod_nodes = list(ast.walk(f.mod.tree))
    # h.lin = h.beglin + k ; h.beglin = tex.count(...) + k0
    def const_off(e, name):
        """k if e is <name> + k / <name>, else None"""
        if unparse(e) == name:
            return 0
        if isinstance(e, ast.BinOp) and isinstance(e.op, (ast.Add, ast.Sub)) and isinstance(e.right, ast.Constant) \
                and isinstance(e.right.value, int) and unparse(e.left) == name:
            return e.right.value if isinstance(e.op, ast.Add) else -e.right.value
        if isinstance(e, ast.BinOp) and isinstance(e.op, ast.Add) and isinstance(e.left, ast.Constant) \
                and isinstance(e.left.value, int) and unparse(e.right) == name:
            return e.left.value
        return None
    lin_def = [n for n in mod_nodes if isinstance(n, ast.Assign) and isinstance(n.targets[0], ast.Attribute)
               and n.targets[0].attr == 'lin']
    if len(lin_def) != 1:
        r.undec(f.node, 'the line index of a match is not kept in one attribute .lin assigned once')
        r.instances = 1
        return r
    obj = unparse(lin_def[0].targets[0].value)
    v = lin_def[0].value
    base = None
    if isinstance(v, ast.Call) and T_call_name(v) == 'count':
        base = 0
    else:
        for nm in {unparse(x) for x in ast.walk(v) if isinstance(x, ast.Attribute)}:
            k = const_off(v, nm)
            if k is None:
                continue
            src = [n for n in mod_nodes if isinstance(n, ast.Assign) and unparse(n.targets[0]) == nm
                   and n.lineno < lin_def[0].lineno and getattr(n, '_fn', None) is getattr(lin_def[0], '_fn', None)]
            if len(src) == 1:
                sv = src[0].value
                if isinstance(sv, ast.Call) and T_call_name(sv) == 'count':
                    base = k
                elif isinstance(sv, ast.BinOp) and isinstance(sv.left, ast.Call) and T_call_name(sv.left) == 'count' \
                        and isinstance(sv.right, ast.Constant) and isinstance(sv.op, (ast.Add, ast.Sub)):
                    base = k + (sv.right.value if isinstance(sv.op, ast.Add) else -sv.right.value)
    if base is None:
        r.undec(lin_def[0], 'line index of a match is not count("\\n") + constant')
        r.instances = 1
        return r
    for n in mod_nodes:
        if isinstance(n, ast.Attribute) and n.attr == 'lin' and isinstance(n.ctx, ast.Load):
            name = unparse(n)
            par = getattr(n, '_parent', None)
            e = par if isinstance(par, ast.BinOp) else n
            k = const_off(e, name)
            if k is None:
                r.undec(n, 'use of the line index in an expression that is not index + constant')
                continue
            if base + k == 1:
                r.ok(n, 'shown line = 0-based index %+d %+d = index + 1' % (base, k), nontrivial=True)
            else:
                r.fail(e, 'the line number shown here is the 0-based line index %+d: messages are listed %s'
                       % (base + k, 'one line too low' if base + k > 1 else 'one line too high'),
                       witness='two overlapping messages on one word, --output html')
    return r


# ----------------------------------------------------------------------------- PS7
_ITER_MAKERS = {'iter', 'map', 'filter', 'zip', 'enumerate', 'reversed', 'open'}


def ps7(model):
    r = RuleResult('PS7', 'no iterator lives at module or class level and is advanced by a function: an iterator '
                   '(generator expression, iter / map / zip / filter / enumerate / reversed object, itertools.*, '
                   'open file) remembers how far it was consumed, so the second document continues where the '
                   'first stopped', floor=0)
    for m in model.mods.values():
        itmods = {loc for loc, tgt in m.imports.items() if tgt[0] == 'mod' and tgt[1] == 'itertools'}
        itsyms = {loc for loc, tgt in m.imports.items() if tgt[0] == 'sym' and tgt[1] == 'itertools'}

        def is_iter(v):
            if isinstance(v, ast.GeneratorExp):
                return 'generator expression'
            if isinstance(v, ast.Call):
                f = v.func
                if isinstance(f, ast.Name) and (f.id in _ITER_MAKERS or f.id in itsyms):
                    return f.id + '()'
                if isinstance(f, ast.Attribute) and isinstance(f.value, ast.Name) and f.value.id in itmods:
                    return 'itertools.%s()' % f.attr
            return None
        holders = {}
        scopes = [(None, m.tree.body)] + [(st, st.body) for st in m.tree.body if isinstance(st, ast.ClassDef)]
        for cls, body in scopes:
            for st in body:
                if isinstance(st, ast.Assign) and len(st.targets) == 1 and isinstance(st.targets[0], ast.Name):
                    kind = is_iter(st.value)
                    if kind:
                        holders[st.targets[0].id] = (st, kind, cls)
        r.instances += len([st for st in m.tree.body if isinstance(st, ast.Assign)])
        for name, (st, kind, cls) in holders.items():
            users = []
            for f in m.funcs.values() if cls is None else []:
                pass
            for f in model.all_funcs():
                if f.mod is not m:
                    continue
                for n in iter_scope(f.node):
                    if cls is None and isinstance(n, ast.Name) and n.id == name and isinstance(n.ctx, ast.Load):
                        # not shadowed by a local binding
                        if not any(isinstance(x, ast.Name) and x.id == name and isinstance(x.ctx, ast.Store)
                                   for x in iter_scope(f.node)) and name not in getattr(f, 'params', []):
                            users.append(n)
                    if cls is not None and isinstance(n, ast.Attribute) and n.attr == name and isinstance(n.ctx, ast.Load) \
                            and isinstance(n.value, ast.Name) and n.value.id in ('self', 'cls', cls.name):
                        users.append(n)
            if users:
                r.fail(users[0], 'the %s-level name %s holds an iterator (%s) and is used here: every call '
                       'advances the same iterator, results depend on what was processed before'
                       % ('class' if cls is not None else 'module', name, kind),
                       witness='two documents in one process')
            else:
                r.ok(st, 'iterator %s is not used by any function' % name, nontrivial=True)
    return r


# ----------------------------------------------------------------------------- REG1
# package modules that the default selection '*' leaves out on purpose, with the reason given in the repository
REG1_NOT_DEFAULT = {
    'cleveref': 'warns when loaded without the poorman option (comment in packages/__init__.py)',
}


def reg1(model):
    r = RuleResult('REG1', 'the default package selection "*" names every package module of the distribution (file '
                   'yalafi/packages/<name>.py, with - for _), apart from the exceptions listed with their reason in '
                   'the checker; every name in the table has its module file', floor=10)
    m = model.mod('packages')
    tab = None
    node = None
    for st in m.tree.body:
        if isinstance(st, ast.Assign) and unparse(st.targets[0]) == 'load_table' and isinstance(st.value, ast.Dict):
            try:
                tab = ast.literal_eval(st.value)
                node = st
            except ValueError:
                pass
    if tab is None or '*' not in tab:
        raise AnalysisError('anchor vanished: literal load_table["*"] in yalafi/packages/__init__.py')
    files = {mm.short.split('.', 1)[1] for mm in model.mods.values()
             if mm.short.startswith('packages.') and mm.short.count('.') == 1}
    listed = {x.replace('-', '_') for x in tab['*']}
    for f in sorted(files):
        if f in listed:
            r.ok_plain('package module %s' % f, 'listed in load_table["*"]', nontrivial=True)
        elif f in REG1_NOT_DEFAULT:
            r.exception('packages.' + f, REG1_NOT_DEFAULT[f])
            r.ok_plain('package module %s' % f, 'named exception')
        else:
            r.fail(node, 'the package module %s is not in load_table["*"]: with the default option --packages "*" '
                   '(and in the scan for included files, where \\usepackage is inactive) its macros and '
                   'environments are unknown' % f, stmt='load_table * lacks ' + f,
                   witness='a document that uses the environments of that package, default options')
    for x in sorted(listed - files):
        r.fail(node, 'load_table["*"] names %s, for which there is no module file: "could not load module"' % x,
               stmt='load_table * names ' + x)
    return r


# ----------------------------------------------------------------------------- CK13
def ck13(model):
    r = RuleResult('CK13', 'the shell\'s own checks run for every text part that is proofread: inside the loop over '
                   'the parts of run_proofreader_options the calls of create_single_letter_matches and '
                   'create_equation_punct_messages stand under no condition (whether a check is active is '
                   'decided inside it, from its option alone)', floor=2)
    f = model.func('shell.proofreader.run_proofreader_options')
    for name in ('create_single_letter_matches', 'create_equation_punct_messages'):
        calls = [n for n in iter_scope(f.node) if isinstance(n, ast.Call) and T_call_name(n) == name]
        if not calls:
            raise AnalysisError('anchor vanished: call of %s in run_proofreader_options' % name)
        for c in calls:
            loop = None
            conds = []
            p = getattr(c, '_parent', None)
            child = c
            while p is not None and p is not f.node:
                if isinstance(p, ast.If) and (child in p.body or child in p.orelse):
                    conds.append(p)
                if isinstance(p, ast.IfExp) and child is not p.test:
                    conds.append(p)
                if isinstance(p, (ast.For, ast.While)) and loop is None:
                    loop = p
                    break
                child = p
                p = getattr(p, '_parent', None)
            # early `continue` in front of the call, other than the skip of blank parts
            skips = []
            if loop is not None:
                for s in loop.body:
                    if s.lineno >= c.lineno:
                        break
                    if isinstance(s, ast.If) and any(isinstance(x, ast.Continue) for x in ast.walk(s)):
                        t = unparse(s.test)
                        if not (t.startswith('not ') and t.endswith('.strip()')):
                            skips.append(s)
            if conds or skips:
                n0 = (conds + skips)[0]
                r.fail(c, '%s runs only under the condition %s: for the other parts its messages are silently '
                       'missing' % (name, unparse(n0.test)[:60]),
                       witness='--multi-language with a short foreign part that contains an isolated letter')
            else:
                r.ok(c, '%s is called for every non-blank part' % name, nontrivial=True)
    return r


# ----------------------------------------------------------------------------- SKP1
def skp1(model):
    import copy as _copy
    r = RuleResult('SKP1', 'the loop of expand_macro that skips white space behind a control word never takes a '
                   'ParagraphToken (nor a LanguageToken): its condition is false for these token classes whatever '
                   'their text is - a paragraph token may consist of a line break, blanks and a line break', floor=1)
    f = model.func('parser.Parser.expand_macro')
    isp = model.func('scanner.Buffer.is_space')
    isp_ret = [n.value for n in iter_scope(isp.node) if isinstance(n, ast.Return) and n.value is not None]
    # local names of is_space that are bound once (typ = type(tok)) are substituted into its return expression
    import copy as _c0
    binds = {}
    for n in iter_scope(isp.node):
        if isinstance(n, ast.Assign) and len(n.targets) == 1 and isinstance(n.targets[0], ast.Name):
            binds.setdefault(n.targets[0].id, []).append(n.value)
    one = {k: v[0] for k, v in binds.items() if len(v) == 1}
    if one and len(isp_ret) == 1:
        class _Sub(ast.NodeTransformer):
            def visit_Name(self, n):
                return _c0.deepcopy(one[n.id]) if n.id in one and isinstance(n.ctx, ast.Load) else n
        isp_ret = [_Sub().visit(_c0.deepcopy(isp_ret[0]))]
    isp_par = isp.params[1] if len(isp.params) > 1 else 'tok'
    loops = [n for n in iter_scope(f.node) if isinstance(n, ast.While)
             and any(isinstance(c, ast.Call) and T_call_name(c) == 'next' for s in n.body for c in ast.walk(s))]
    if not loops:
        calls = [c for c in iter_scope(f.node) if isinstance(c, ast.Call) and T_call_name(c) == 'skip_space']
        if calls:
            r.fail(calls[0], 'expand_macro skips the space behind a macro name with skip_space(), which also '
                   'drops LanguageTokens (as long as is_space() accepts them)',
                   witness='\\foreignlanguage{german}{\\LaTeX} more english text')
        else:
            r.undec(f.node, 'space-skipping loop of expand_macro not recognised')
        r.instances = max(r.instances, 1)
        return r
    lp = loops[0]
    TOK = '__tok__'

    class _N(ast.NodeTransformer):
        def visit_Call(self, n):
            self.generic_visit(n)
            if isinstance(n.func, ast.Attribute) and n.func.attr == 'cur' and not n.args:
                return ast.Name(id=TOK, ctx=ast.Load())
            if isinstance(n.func, ast.Attribute) and n.func.attr == 'is_space' and len(n.args) == 1 and len(isp_ret) == 1:
                body = _copy.deepcopy(isp_ret[0])

                class _P(ast.NodeTransformer):
                    def visit_Name(self, m):
                        return _copy.deepcopy(n.args[0]) if m.id == isp_par else m
                return _P().visit(body)
            return n

        def visit_NamedExpr(self, n):
            self.generic_visit(n)
            return n.value

        def visit_Name(self, n):
            return ast.Name(id=TOK, ctx=ast.Load()) if n.id in walrus else n
    walrus = {x.target.id for x in ast.walk(lp.test) if isinstance(x, ast.NamedExpr)}
    # a local that holds the current token: every assignment of it in the function is buf.cur() / buf.next()
    for nm in {x.id for x in ast.walk(lp.test) if isinstance(x, ast.Name)}:
        asg = [a for a in iter_scope(f.node) if isinstance(a, ast.Assign) and any(
            isinstance(t_, ast.Name) and t_.id == nm for t_ in a.targets)]
        if asg and all(isinstance(a.value, ast.Call) and T_call_name(a.value) in ('cur', 'next') for a in asg) \
                and nm not in f.params:
            walrus.add(nm)
    # `while True: cur = buf.cur(); if <stop>: break; buf.next()`: a token is taken if the loop test holds and
    # no stop condition in front of next() does
    parts = [lp.test]
    for st_ in lp.body:
        if any(isinstance(c, ast.Call) and T_call_name(c) == 'next' for c in ast.walk(st_)):
            break
        if isinstance(st_, ast.Assign) and len(st_.targets) == 1 and isinstance(st_.targets[0], ast.Name) \
                and isinstance(st_.value, ast.Call) and T_call_name(st_.value) == 'cur':
            walrus.add(st_.targets[0].id)
        elif isinstance(st_, ast.If) and not st_.orelse and len(st_.body) == 1 and isinstance(st_.body[0], ast.Break):
            parts.append(ast.UnaryOp(op=ast.Not(), operand=st_.test))
        else:
            parts = None
            break
    if parts is None:
        r.undec(lp, 'space-skipping loop of expand_macro has a form that is not interpreted')
        r.instances = max(r.instances, 1)
        return r
    test = parts[0] if len(parts) == 1 else ast.BoolOp(op=ast.And(), values=parts)
    cond = _N().visit(_copy.deepcopy(test))
    ast.fix_missing_locations(cond)
    for cls in ('ParagraphToken', 'LanguageToken'):
        v = _tri_tok(cond, TOK, cls)
        if v is False:
            r.ok(lp, 'the skip condition is false for every %s' % cls, nontrivial=True)
        elif v is None and cls == 'LanguageToken':
            r.undec(lp, 'skip condition not decided for LanguageToken: %s' % unparse(lp.test)[:70])
        else:
            r.fail(lp, 'the loop that skips space behind a macro name may take a %s (its condition %s is not '
                   'false for that class): %s' % (cls, unparse(lp.test)[:70],
                                                   'a control word at the end of a paragraph that is followed by a '
                                                   'line of blanks glues two paragraphs' if cls == 'ParagraphToken'
                                                   else 'the token that closes a \\foreignlanguage argument is dropped'),
                   witness='A \\LaTeX\\n  \\nB' if cls == 'ParagraphToken'
                   else '\\foreignlanguage{german}{\\LaTeX} more english text')
    return r


# ----------------------------------------------------------------------------- SC9
def sc9(model):
    r = RuleResult('SC9', 'the scanner covers the whole text: Scanner.scan starts at position 0 (the only '
                   'assignment of self.pos in scan is the literal 0) and ends at max_pos = len(latex); no character '
                   'is skipped in front of the first token', floor=2)
    f = model.func('scanner.Scanner.scan')
    lat = f.params[1] if len(f.params) > 1 else 'latex'
    pos_as = [n for n in iter_scope(f.node) if isinstance(n, (ast.Assign, ast.AugAssign))
              and any(unparse(t) == 'self.pos' for t in (n.targets if isinstance(n, ast.Assign) else [n.target]))]
    if not pos_as:
        raise AnalysisError('anchor vanished: initialisation of self.pos in Scanner.scan')
    for n in pos_as:
        if isinstance(n, ast.Assign) and isinstance(n.value, ast.Constant) and n.value.value == 0 \
                and not isinstance(n.value.value, bool) and getattr(n, '_parent', None) is f.node:
            r.ok(n, 'scan starts at position 0', nontrivial=True)
        else:
            r.fail(n, 'Scanner.scan sets the start position to %s: characters in front of it belong to no token '
                   'and vanish from the output' % unparse(n.value)[:50], witness="'\\ufeffA' or any text")
    mx = [n for n in iter_scope(f.node) if isinstance(n, ast.Assign) and unparse(n.targets[0]) == 'self.max_pos']
    if len(mx) == 1 and unparse(mx[0].value) == 'len(%s)' % lat and getattr(mx[0], '_parent', None) is f.node:
        r.ok(mx[0], 'scan ends at len(%s)' % lat, nontrivial=True)
    else:
        r.fail(mx[0] if mx else f.node, 'Scanner.scan does not scan up to len(%s)' % lat)
    return r


# ----------------------------------------------------------------------------- CK14 / CK15
def ck14(model):
    import re._parser as sre_parse
    import re._constants as sre_c
    from .. import tok as T
    r = RuleResult('CK14', 'single-letter check marks letters only: the character class of the scan pattern is built '
                   'from the word class (\\w minus digits and _), which also holds non-ASCII digits, superscripts and '
                   'other numeric characters (str.isalnum() but not str.isalpha()); therefore the matches are filtered '
                   'with str.isalpha(), or the class consists of explicit letter ranges only', floor=1)
    f = model.func('shell.checks.create_single_letter_matches')
    lits = [n for n in ast.walk(f.node) if isinstance(n, ast.Constant) and isinstance(n.value, str)
            and n.value.startswith(r'\b') and n.value.endswith(r'\b') and '[' in n.value]
    if not lits:
        raise AnalysisError('anchor vanished: single-letter pattern in create_single_letter_matches')
    for c in lits:
        try:
            items = list(sre_parse.parse(c.value))
        except Exception as e:
            r.undec(c, 'pattern not parsed: %s' % e)
            r.instances += 1
            continue
        cls = [i for i in items if i[0] is sre_c.IN]
        if len(cls) != 1:
            r.undec(c, 'pattern is not one character class between boundaries')
            r.instances += 1
            continue
        uses_category = any(op is sre_c.CATEGORY for op, av in cls[0][1])
        negated = any(op is sre_c.NEGATE for op, av in cls[0][1])
        explicit_ok = False
        if not uses_category and not negated:
            chars = []
            for op, av in cls[0][1]:
                if op is sre_c.LITERAL:
                    chars.append(av)
                elif op is sre_c.RANGE and av[1] - av[0] < 0x3000:
                    chars += list(range(av[0], av[1] + 1))
                else:
                    chars = None
                    break
            explicit_ok = chars is not None and all(chr(x).isalpha() for x in chars)
        # filter: a condition of the selection calls .isalpha() on the matched text
        filt = False
        for n in ast.walk(f.node):
            if isinstance(n, ast.Call) and isinstance(n.func, ast.Attribute) and n.func.attr == 'isalpha' and not n.args:
                v = n.func.value
                txt = unparse(v)
                mvars = {a.target.id for a in ast.walk(f.node) if isinstance(a, (ast.For, ast.comprehension))
                         and isinstance(a.target, ast.Name) and 'finditer' in unparse(a.iter)}
                if (isinstance(v, ast.Call) and T.call_name(v) == 'group' and isinstance(v.func.value, ast.Name)
                        and v.func.value.id in mvars) \
                        or (isinstance(v, ast.Subscript) and T.is_const(v.slice, 0) and isinstance(v.value, ast.Name)
                            and v.value.id in mvars):
                    # in a condition (comprehension if / if statement / and-chain), not negated
                    p = getattr(n, '_parent', None)
                    neg = False
                    while p is not None and not isinstance(p, (ast.comprehension, ast.If, ast.stmt)):
                        if isinstance(p, ast.UnaryOp) and isinstance(p.op, ast.Not):
                            neg = not neg
                        p = getattr(p, '_parent', None)
                    # `if not m.group(0).isalpha() or ...: continue` filters as well
                    if isinstance(p, ast.If) and always_exits(p.body) and not p.orelse:
                        neg = not neg
                    if not neg:
                        filt = True
        if explicit_ok:
            r.ok(c, 'explicit letter ranges only', nontrivial=True)
        elif filt:
            r.ok(c, 'matches are filtered with str.isalpha()', nontrivial=True)
        else:
            r.fail(c, 'the class of %s holds every word character except ASCII digits and _: characters such as '
                   '², ½ or Arabic-Indic digits are reported as "single letters"; no str.isalpha() '
                   'filter is applied to the matches' % c.value,
                   witness="--single-letters '' on the text 'x ² y'")
    return r


def ck15(model):
    from .. import tok as T
    r = RuleResult('CK15', 'accepted patterns are looked up one by one: the hits that suppress a single letter come from '
                   're.finditer of each accepted pattern, not of their alternation (in a|b the first alternative '
                   'that matches wins, so an accepted pattern that starts like a shorter one never matches)', floor=1)
    f = model.func('shell.checks.create_single_letter_matches')
    calls = [n for n in ast.walk(f.node) if isinstance(n, ast.Call) and T.call_name(n) == 'finditer' and n.args]
    if not calls:
        raise AnalysisError('anchor vanished: finditer in create_single_letter_matches')
    seen = False
    for c in calls:
        pat = c.args[0]
        vals = T.resolve_local(model, pat) if isinstance(pat, ast.Name) else [pat]
        joined = [v for v in vals if isinstance(v, ast.Call) and isinstance(v.func, ast.Attribute) and v.func.attr == 'join'
                  and isinstance(v.func.value, ast.Constant) and '|' in str(v.func.value.value)]
        if joined:
            seen = True
            r.fail(c, 'the accepted patterns are joined with | and searched as one alternation: with the accept '
                   'list z.|z.\\,B. the text "z. B." is matched by the first alternative only and the B is '
                   'reported although an accepted pattern covers it',
                   witness="--single-letters 'z.|z.\\\\,B.' on 'Stutz z. B. und'")
        elif isinstance(pat, ast.Name) and any(
                isinstance(a, (ast.For, ast.comprehension)) and isinstance(a.target, ast.Name) and a.target.id == pat.id
                for a in ast.walk(f.node)):
            seen = True
            r.ok(c, 'finditer per accepted pattern', nontrivial=True)
    if not seen:
        r.undec(f.node, 'lookup of the accepted patterns not recognised')
        r.instances += 1
    return r


# ----------------------------------------------------------------------------- LN3
def ln3(model):
    from ..callgraph import callgraph
    r = RuleResult('LN3', 'add_line_numbers(text, numbers) needs one number per "<br>" + line-break row of its text; '
                   'the one place where that is arranged is the page body of generate_html, whose rows and '
                   'numbers are built side by side from the source lines.  Who may call: only that call, with the '
                   'list that grows together with the text (strings of matches contain further row breaks: '
                   'a second caller that joins them runs out of numbers)', floor=1)
    f = model.func('shell.genhtml.add_line_numbers')
    sites = callgraph(model).callers.get(f.qname, [])
    if not sites:
        raise AnalysisError('anchor vanished: call of add_line_numbers')
    for c in sites:
        fn = getattr(c, '_fn', None)
        ok = fn is not None and fn.mod.short == 'shell.genhtml' and len(c.args) == 2 and isinstance(c.args[1], ast.Name)
        if ok:
            # the number list is extended in the function that builds the rows (range(...) per region) or is a
            # parameter handed through by such a caller
            nm = c.args[1].id
            built = any(isinstance(n, (ast.AugAssign, ast.Assign)) and any(
                isinstance(t, ast.Name) and t.id == nm for t in ([n.target] if isinstance(n, ast.AugAssign) else n.targets))
                and any(isinstance(x, ast.Call) and getattr(x.func, 'id', '') == 'range' for x in ast.walk(n.value))
                for n in iter_scope(fn.node))
            ok = built or nm in fn.params
        if ok:
            r.ok(c, 'called with the number list built from the line ranges of the regions', nontrivial=True)
        else:
            r.fail(c, '%s calls add_line_numbers with numbers (%s) that are not the line ranges built with the '
                   'rows of the page: a text with more rows than numbers ends in IndexError'
                   % (fn.qname if fn else '?', unparse(c.args[1])[:50] if len(c.args) > 1 else '?'),
                   witness='two overlapping messages, one of them spanning a line break, --output html')
    return r


# ----------------------------------------------------------------------------- SB7
def sb7(model):
    from .. import tok as T
    r = RuleResult('SB7', '\\newcommand{\\x }[ 1 ]{..}: TeX ignores the blank behind a control word and around a number; '
                   'h_newcommand therefore strips the text it reads for the macro name and for the parameter count '
                   'before it uses them (else the macro is registered under "\\x " and \\x stays unknown, or the '
                   'count is taken for 0)', floor=2)
    f = model.func('handlers.h_newcommand')
    for var, what in (('name', 'macro name'), ('nargs', 'parameter count')):
        asg = [n for n in iter_scope(f.node) if isinstance(n, ast.Assign) and len(n.targets) == 1
               and isinstance(n.targets[0], ast.Name) and any(
                   isinstance(c, ast.Call) and T.call_name(c) in ('get_text_direct', 'get_text_expanded')
                   for c in ast.walk(n.value))]
        # the assignment that reads args[1] (name) resp. args[2] (count)
        idx = 1 if var == 'name' else 2
        mine = [n for n in asg if any(isinstance(s_, ast.Subscript) and T.is_const(s_.slice, idx)
                                      and isinstance(s_.value, ast.Name) and s_.value.id in f.params
                                      for s_ in ast.walk(n.value))]
        if not mine:
            r.undec(f.node, 'reading of the %s in h_newcommand not recognised' % what)
            r.instances += 1
            continue
        n = mine[0]
        v = n.value
        stripped = isinstance(v, ast.Call) and isinstance(v.func, ast.Attribute) and v.func.attr == 'strip' and not v.args
        if not stripped:
            # stripped in a following statement: x = x.strip()
            nm = n.targets[0].id
            stripped = any(isinstance(m, ast.Assign) and isinstance(m.targets[0], ast.Name) and m.targets[0].id == nm
                           and isinstance(m.value, ast.Call) and isinstance(m.value.func, ast.Attribute)
                           and m.value.func.attr == 'strip' and unparse(m.value.func.value) == nm
                           for m in iter_scope(f.node))
        if stripped:
            r.ok(n, 'the %s is stripped' % what, nontrivial=True)
        else:
            r.fail(n, 'the %s is used as read (%s), with the blanks TeX ignores: %s' % (
                what, unparse(v)[:50],
                '\\newcommand{\\foo }{x} registers "\\foo " and every later \\foo is listed as unknown'
                if var == 'name' else '\\newcommand{\\x}[ 1 ]{a#1} is taken for a macro without parameters'),
                witness='\\newcommand{\\foo }{x} \\foo' if var == 'name' else '\\newcommand{\\x}[ 1 ]{a#1}\\x{b}')
    return r
