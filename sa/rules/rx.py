"""RP1, CK1-CK5, AB4: regular-expression scans (DESIGN.md 3.8, component G)."""
import ast
import re
import re._parser as sre_parse
import re._constants as sre_c

from ..model import AnalysisError, unparse, iter_scope
from ..report import RuleResult
from ..affine import Aff
from ..symlen import SymEval, State, Int, Seq, Obj
from .. import guards
from .. import tok as T


def max_newlines(items):
    """maximal number of '\\n' in any match of a parsed (sub)pattern; None = unbounded"""
    total = 0
    for op, av in items:
        if op is sre_c.LITERAL:
            total += 1 if av == 10 else 0
        elif op is sre_c.IN:
            total += 1 if _class_matches(av, '\n') else 0
        elif op in (sre_c.MAX_REPEAT, sre_c.MIN_REPEAT):
            lo, hi, sub = av
            m = max_newlines(list(sub))
            if m is None or (m and hi is sre_c.MAXREPEAT):
                return None
            total += m * (hi if hi is not sre_c.MAXREPEAT else 0)
        elif op is sre_c.BRANCH:
            ms = [max_newlines(list(x)) for x in av[1]]
            if any(m is None for m in ms):
                return None
            total += max(ms) if ms else 0
        elif op is sre_c.SUBPATTERN:
            m = max_newlines(list(av[3]))
            if m is None:
                return None
            total += m
        elif op is sre_c.ANY:
            pass
        elif op in (sre_c.AT, sre_c.ASSERT, sre_c.ASSERT_NOT):
            pass
        elif op is sre_c.NOT_LITERAL:
            total += 1 if av != 10 else 0
        else:
            return None
    return total


def _class_matches(av, ch):
    try:
        neg = bool(av) and av[0][0] is sre_c.NEGATE
        body = av[1:] if neg else av
        hit = False
        for op, a in body:
            if op is sre_c.LITERAL and a == ord(ch):
                hit = True
            elif op is sre_c.RANGE and a[0] <= ord(ch) <= a[1]:
                hit = True
            elif op is sre_c.CATEGORY:
                if a is sre_c.CATEGORY_SPACE and ch.isspace():
                    hit = True
                if a is sre_c.CATEGORY_NOT_WORD and not (ch.isalnum() or ch == '_'):
                    hit = True
        return hit != neg
    except Exception:
        return True


def _const_str(model, e, env, depth=6):
    """partial evaluation of a string expression; env maps names to strings (holes)"""
    if depth <= 0:
        return None
    if isinstance(e, ast.Constant) and isinstance(e.value, str):
        return e.value
    if isinstance(e, ast.Name):
        if e.id in env:
            return env[e.id]
        vals = T.resolve_local(model, e)
        if len(vals) == 1 and vals[0] is not e:
            return _const_str(model, vals[0], env, depth - 1)
        return None
    if isinstance(e, ast.BinOp) and isinstance(e.op, ast.Add):
        a, b = _const_str(model, e.left, env, depth), _const_str(model, e.right, env, depth)
        return a + b if a is not None and b is not None else None
    return None


def _only_escaped_appends(f, name):
    """the local list `name` starts empty (or as a comprehension of re.escape) and grows only by
    append(re.escape(..))"""
    ok = False
    for n in iter_scope(f.node):
        if isinstance(n, ast.Assign) and any(isinstance(t, ast.Name) and t.id == name for t in n.targets):
            v = n.value
            if isinstance(v, ast.List) and not v.elts:
                ok = True
            elif isinstance(v, (ast.ListComp, ast.GeneratorExp)) and isinstance(v.elt, ast.Call) and unparse(v.elt.func) == 're.escape':
                ok = True
            else:
                return False
        if isinstance(n, ast.Call) and isinstance(n.func, ast.Attribute) and isinstance(n.func.value, ast.Name) \
                and n.func.value.id == name and n.func.attr in ('append', 'extend', 'insert'):
            a = n.args[-1] if n.args else None
            if not (n.func.attr == 'append' and isinstance(a, ast.Call) and unparse(a.func) == 're.escape'):
                return False
        if isinstance(n, ast.AugAssign) and isinstance(n.target, ast.Name) and n.target.id == name:
            return False
    return ok


def rp1(model):
    r = RuleResult('RP1', 'replace_phrases: every user word enters the pattern through re.escape; '
                   'the word separator matches at least one blank and at most one line break; \\b '
                   'is added iff the pattern itself begins / ends with a letter; an empty phrase '
                   'is skipped; # starts a comment', floor=6)
    f = model.func('utils.replace_phrases')
    sub = model.func('utils.substitute')
    calls = [n for n in iter_scope(f.node) if isinstance(n, ast.Call)
             and (model.resolve_call(n) or (0, 0))[1] is sub]
    if len(calls) != 1 or len(calls[0].args) < 4 or not isinstance(calls[0].args[2], ast.Name):
        raise AnalysisError('anchor vanished: call substitute(txt, pos, <pattern>, repl)')
    call = calls[0]
    pat = call.args[2].id
    # additions to the pattern
    for n in iter_scope(f.node):
        val = None
        if isinstance(n, ast.AugAssign) and isinstance(n.target, ast.Name) and n.target.id == pat:
            val = n.value
        elif isinstance(n, ast.Assign) and any(isinstance(t, ast.Name) and t.id == pat for t in n.targets):
            val = n.value
        if val is None:
            continue
        parts = []
        def flat(e):
            if isinstance(e, ast.BinOp) and isinstance(e.op, ast.Add):
                flat(e.left)
                flat(e.right)
            else:
                parts.append(e)
        flat(val)
        for p in parts:
            if isinstance(p, ast.Constant) and isinstance(p.value, str):
                try:
                    tree = sre_parse.parse(p.value)
                    mn = max_newlines(list(tree))
                except Exception:
                    mn = 0      # fragments that do not parse alone are parts of a larger literal
                if mn is None or mn > 1:
                    r.fail(p, 'the pattern part %r can match several line breaks: a phrase then matches '
                           'across a blank line and the replacement removes the paragraph break'
                           % p.value, witness="the rule 'Well, &' and a paragraph that starts with 'Well,'")
                else:
                    r.ok(p, 'literal pattern part %r' % p.value, sample=False)
            elif isinstance(p, ast.Name) and p.id == pat:
                pass
            elif isinstance(p, ast.Call) and unparse(p.func) == 're.escape':
                r.ok(p, 'user word enters through re.escape', nontrivial=True)
            elif isinstance(p, ast.Call) and T.call_name(p) == 'join' and p.args \
                    and isinstance(p.args[0], (ast.GeneratorExp, ast.ListComp)) \
                    and isinstance(p.args[0].elt, ast.Call) and unparse(p.args[0].elt.func) == 're.escape':
                r.ok(p, 'user words enter through re.escape, joined by the separator', nontrivial=True)
            elif isinstance(p, ast.Call) and T.call_name(p) == 'join' and p.args and isinstance(p.args[0], ast.Name) \
                    and _only_escaped_appends(f, p.args[0].id):
                r.ok(p, 'user words are collected through re.escape and joined by the separator', nontrivial=True)
            elif isinstance(p, ast.Name):
                s = _sep_literal(model, f, p.id)
                if s is None:
                    r.fail(p, 'pattern part %s is neither escaped user text nor a literal' % p.id)
            else:
                r.fail(p, 'user text enters the pattern without re.escape: %s' % unparse(p)[:40],
                       witness='a phrase containing a regex metacharacter such as "e.g." or "C++"')
    # separator
    seps = [n.value for n in iter_scope(f.node) if isinstance(n, ast.Assign)
            and isinstance(n.value, ast.Constant) and isinstance(n.value.value, str)
            and '\\n' in n.value.value]
    # the separator may also be the literal that joins the escaped words
    seps += [n.func.value for n in iter_scope(f.node) if isinstance(n, ast.Call) and T.call_name(n) == 'join'
             and isinstance(n.func, ast.Attribute) and isinstance(n.func.value, ast.Constant)
             and isinstance(n.func.value.value, str) and '\\n' in n.func.value.value]
    if not seps:
        r.fail(f.node, 'no word separator pattern with a line break', stmt='separator')
    for c in seps:
        try:
            tree = sre_parse.parse(c.value)
        except Exception as e:
            r.fail(c, 'separator pattern does not parse: %s' % e)
            continue
        mn = max_newlines(list(tree))
        lo, hi = tree.getwidth()
        # "any white space": every white-space character except the line break is accepted as (part
        # of) the separator - evaluated on the literal pattern itself
        import re as _re
        ws = [' ', '\t', '\xa0', '\u202f', '\u2009', '\r', '\f', '\v']
        try:
            rejected = [ch for ch in ws if not _re.fullmatch(c.value, ch)]
        except _re.error:
            rejected = []
        if rejected:
            r.fail(c, 'the word separator does not accept the white-space character(s) %s: a phrase whose '
                   'words are separated by a no-break space (LaTeX ~) or a thin space (\\,) in the text is not '
                   'replaced' % ', '.join('U+%04X' % ord(x) for x in rejected),
                   witness="rule 'so dass & sodass' on the LaTeX text so~dass")
        if mn == 1 and lo >= 1:
            r.ok(c, 'separator matches >= 1 character and at most one line break', nontrivial=True)
        else:
            r.fail(c, 'the word separator can match %s line breaks (min width %d): a phrase would '
                   'match across a paragraph break' % ('unboundedly many' if mn is None else mn, lo),
                   witness='the two words of a phrase separated by a blank line')
    # word boundaries
    tests = []
    for n in iter_scope(f.node):
        if isinstance(n, ast.If) and isinstance(n.test, ast.Call) and T.call_name(n.test) == 'isalpha':
            subj = n.test.func.value
            if isinstance(subj, ast.Subscript):
                idx = subj.slice
                neg = isinstance(idx, ast.UnaryOp)
                tests.append((n, subj.value, 'last' if neg else 'first'))
    for want in ('first', 'last'):
        ts = [t for t in tests if t[2] == want]
        if not ts:
            r.fail(f.node, 'no word-boundary test on the %s character of the phrase' % want,
                   stmt='boundary %s' % want)
        for n, base, w in ts:
            root = base
            while isinstance(root, ast.Subscript):
                root = root.value
            okb = isinstance(base, ast.Name) and base.id == pat
            if not okb and want == 'first' and isinstance(base, ast.Subscript) \
                    and T.is_const(base.slice, 0) and isinstance(base.value, ast.Name):
                okb = True      # first word of the line: the first phrase word
            adds_b = any(isinstance(c, ast.Constant) and c.value == r'\b' for s in n.body for c in ast.walk(s))
            if okb and adds_b:
                r.ok(n, '\\b is added iff the %s character of the pattern is a letter' % want,
                     nontrivial=True)
            else:
                r.fail(n, 'the word-boundary test for the %s character looks at %s, not at the '
                       'phrase pattern: phrases match inside words or not at all'
                       % (want, unparse(base)), witness='"form & frm." applied to "formula"')
    # empty phrase skipped
    from .em import dominating_stmts
    from ..flow import always_exits
    skip = [d for d in dominating_stmts(call) if isinstance(d, ast.If) and always_exits(d.body)
            and isinstance(d.test, ast.UnaryOp) and isinstance(d.test.op, ast.Not)
            and isinstance(d.test.operand, ast.Name) and d.test.operand.id == pat]
    if skip:
        r.ok(call, 'lines without a left-hand side are skipped', nontrivial=True)
    else:
        r.fail(call, 'substitute is called with an empty pattern for lines without left-hand side')
    def cuts_comment(n):
        # lin[:lin.find('#')] behind a test, lin.partition('#')[0], lin.split('#')[0] / split('#', 1)[0]
        if isinstance(n, ast.Call) and T.call_name(n) == 'find' and n.args and T.is_const(n.args[0], '#'):
            return True
        if isinstance(n, ast.Subscript) and T.is_const(n.slice, 0) and isinstance(n.value, ast.Call) \
                and T.call_name(n.value) in ('partition', 'split') and n.value.args and T.is_const(n.value.args[0], '#'):
            return True
        return False
    if any(cuts_comment(n) for n in iter_scope(f.node)):
        r.ok(f.node, '# starts a comment')
    else:
        r.fail(f.node, '# no longer starts a comment in the replacement file', stmt='# comment')
    return r


def _sep_literal(model, f, name):
    for n in iter_scope(f.node):
        if isinstance(n, ast.Assign) and any(isinstance(t, ast.Name) and t.id == name for t in n.targets):
            if not (isinstance(n.value, ast.Constant) and isinstance(n.value.value, str)):
                return None
    return True


def ck1(model):
    r = RuleResult('CK1', 'single-letter check: the scan pattern is \\b<one letter>\\b (width 1, '
                   'letters only, boundaries on both sides); accepted patterns are literal '
                   '(re.escape) with \\b iff they begin / end with a letter; a letter is suppressed '
                   'iff beg <= position < end for an accepted hit (strictness of every '
                   'comparison); offset and length come from the same match', floor=3)
    f = model.func('shell.checks.create_single_letter_matches')
    lits = [n for n in ast.walk(f.node) if isinstance(n, ast.Constant) and isinstance(n.value, str)
            and '[^' in n.value and n.value.startswith(r'\b')]
    if not lits:
        r.fail(f.node, 'the single-letter pattern is gone', stmt='single letter pattern')
    for c in lits:
        tree = sre_parse.parse(c.value)
        items = list(tree)
        lo, hi = tree.getwidth()
        bounds = [i for i in items if i[0] is sre_c.AT and i[1] is sre_c.AT_BOUNDARY]
        cls = [i for i in items if i[0] is sre_c.IN]
        ok = lo == hi == 1 and len(bounds) == 2 and items[0] in bounds and items[-1] in bounds and len(cls) == 1
        letters_only = ok and all(not _class_matches(cls[0][1], ch) for ch in '0123456789_ .,-\n') \
            and all(_class_matches(cls[0][1], ch) for ch in 'aZäж')
        if ok and letters_only:
            r.ok(c, 'pattern %s: width 1, letters only, \\b on both sides' % c.value, nontrivial=True)
        else:
            r.fail(c, 'the single-letter pattern %s is not \\b<one letter>\\b' % c.value)
    # accepted patterns
    esc = [n for n in ast.walk(f.node) if isinstance(n, ast.Call) and unparse(n.func) == 're.escape']
    if not esc:
        # the pattern builder may be a helper of the module that this function calls
        from ..callgraph import callgraph
        for c in ast.walk(f.node):
            if isinstance(c, ast.Call):
                for t_ in callgraph(model).targets(c):
                    if t_.mod is f.mod:
                        esc += [n for n in ast.walk(t_.node) if isinstance(n, ast.Call) and unparse(n.func) == 're.escape']
    if esc:
        r.ok(esc[0], 'accepted patterns enter through re.escape', nontrivial=True)
    else:
        r.fail(f.node, 'accepted patterns are used as regular expressions without re.escape',
               stmt='accept patterns escaped')
    # comparisons hit / position: (beg, end) come from a loop / comprehension over 2-tuples
    begs, ends, poss = set(), set(), set()
    for n in ast.walk(f.node):
        tgt = None
        if isinstance(n, ast.For):
            tgt = n.target
        elif isinstance(n, ast.comprehension):
            tgt = n.target
        if isinstance(tgt, ast.Tuple) and len(tgt.elts) == 2 and all(isinstance(x, ast.Name) for x in tgt.elts):
            begs.add(tgt.elts[0].id)
            ends.add(tgt.elts[1].id)
    for n in ast.walk(f.node):
        if isinstance(n, ast.Assign) and isinstance(n.targets[0], ast.Name) \
                and 'start' in unparse(n.value) and isinstance(n.value, ast.Call):
            poss.add(n.targets[0].id)

    def kind(e):
        t = unparse(e)
        if isinstance(e, ast.Name) and e.id in begs:
            return 'beg'
        if isinstance(e, ast.Name) and e.id in ends:
            return 'end'
        if isinstance(e, ast.Subscript) and isinstance(e.value, ast.Subscript):
            if T.is_const(e.slice, 0):
                return 'beg'
            if T.is_const(e.slice, 1):
                return 'end'
        if (isinstance(e, ast.Name) and e.id in poss) or (isinstance(e, ast.Call) and T.call_name(e) == 'start'):
            return 'pos'
        return None
    # the hit list holds (start, end) of matches of the accepted patterns
    spans = [n for n in ast.walk(f.node) if (isinstance(n, ast.Tuple) and len(n.elts) == 2
                                            and 'start' in unparse(n.elts[0]) and 'end' in unparse(n.elts[1]))
             or (isinstance(n, ast.Call) and T.call_name(n) == 'span')]
    if spans:
        r.ok(spans[0], 'accepted hits are recorded as (start, end) spans', nontrivial=True)
    else:
        r.undec(f.node, 'construction of the accepted hits not recognised')
    n_cmp = 0
    for n in ast.walk(f.node):
        if not isinstance(n, ast.Compare):
            continue
        ops = [n.left] + n.comparators
        for a, op, b in zip(ops, n.ops, ops[1:]):
            ka, kb = kind(a), kind(b)
            if {ka, kb} == {'end', 'pos'}:
                n_cmp += 1
                good = (ka == 'pos' and isinstance(op, (ast.Lt, ast.GtE))) or \
                       (ka == 'end' and isinstance(op, (ast.Gt, ast.LtE)))
                if good:
                    r.ok(n, 'hit end is exclusive: %s' % unparse(n), nontrivial=True)
                else:
                    r.fail(n, 'the comparison %s treats the end of an accepted hit as inclusive: '
                           'a letter directly behind an accepted pattern is suppressed' % unparse(n),
                           witness='accepted "i." and the text "i.e."')
            elif {ka, kb} == {'beg', 'pos'}:
                n_cmp += 1
                good = (ka == 'beg' and isinstance(op, (ast.LtE, ast.Gt))) or \
                       (ka == 'pos' and isinstance(op, (ast.GtE, ast.Lt)))
                if good:
                    r.ok(n, 'hit start is inclusive: %s' % unparse(n), nontrivial=True)
                else:
                    r.fail(n, 'the comparison %s excludes the first character of an accepted hit' % unparse(n))
    if n_cmp == 0:
        r.undec(f.node, 'no comparison between accepted hits and the letter position found')
    # create_message: offset and length from the same match
    cm = model.func('shell.checks.create_message')
    mpar = cm.params[0]
    off = [n for n in ast.walk(cm.node) if isinstance(n, ast.Assign) and unparse(n.value) == '%s.start(0)' % mpar]
    ln = [n for n in ast.walk(cm.node) if isinstance(n, ast.Assign)
          and unparse(n.value) in ('len(%s.group(0))' % mpar, '%s.end(0) - %s.start(0)' % (mpar, mpar))]
    if off and ln:
        r.ok(off[0], 'offset = m.start(0), length = len(m.group(0)) of the same match', nontrivial=True)
    else:
        r.fail(cm.node, 'offset and length of a message are not taken from the same match',
               stmt='create_message offset/length')
    return r


def ck4(model):
    r = RuleResult('CK4', 'equation-punctuation check: in the scan pattern an optional , ; : is '
                   'allowed both in front of a following placeholder (look-ahead) and in front of '
                   'a following word; a full stop or a lower-case word or another placeholder '
                   'accepts the equation', floor=3)
    f = model.func('shell.checks.create_equation_punct_messages')
    target = None
    for n in iter_scope(f.node):
        if isinstance(n, ast.Call) and unparse(n.func) == 're.finditer' and n.args:
            target = n.args[0]
    if target is None:
        raise AnalysisError('anchor vanished: re.finditer in create_equation_punct_messages')
    env = {}
    for p in f.params:
        env[p] = 'QQQ'
    for n in iter_scope(f.node):
        if isinstance(n, ast.Assign) and isinstance(n.targets[0], ast.Name) and isinstance(n.value, ast.Subscript):
            env[n.targets[0].id] = 'QQQ'        # repls = mode[k[0]]
    s = _const_str(model, target, env)
    if s is None:
        r.undec(f.node, 'scan pattern is not a constant skeleton')
        r.instances = max(r.instances, r.floor)
        return r
    try:
        tree = sre_parse.parse(s)
    except Exception as e:
        r.fail(f.node, 'scan pattern does not compile: %s' % e, stmt='equation pattern')
        return r
    def opt_punct(items):
        """optional single-character classes of punctuation in the (sub)pattern"""
        found = []
        for op, av in items:
            if op in (sre_c.MAX_REPEAT, sre_c.MIN_REPEAT):
                lo, hi, sub = av
                sub = list(sub)
                if lo == 0 and hi == 1 and len(sub) == 1 and sub[0][0] is sre_c.IN:
                    chars = {chr(a) for o, a in sub[0][1] if o is sre_c.LITERAL}
                    found.append(chars)
                found += opt_punct(sub)
            elif op is sre_c.SUBPATTERN:
                found += opt_punct(list(av[3]))
            elif op is sre_c.BRANCH:
                for x in av[1]:
                    found += opt_punct(list(x))
        return found
    def asserts(items):
        out = []
        for op, av in items:
            if op is sre_c.ASSERT:
                out.append(list(av[1]))
            elif op is sre_c.SUBPATTERN:
                out += asserts(list(av[3]))
            elif op is sre_c.BRANCH:
                for x in av[1]:
                    out += asserts(list(x))
            elif op in (sre_c.MAX_REPEAT, sre_c.MIN_REPEAT):
                out += asserts(list(av[2]))
        return out
    las = asserts(list(tree))
    if not las:
        r.fail(f.node, 'the look-ahead for a following placeholder is gone', stmt='lookahead')
    for la in las:
        ps = opt_punct(la)
        if any(p == set(',;:') for p in ps):
            r.ok(f.node, 'look-ahead allows an optional , ; : before the next placeholder', nontrivial=True)
        else:
            r.fail(f.node, 'the look-ahead "another placeholder follows" does not allow , ; : in '
                   'between: equation lists "B-B-B, C-C-C" are reported',
                   stmt='lookahead optional punctuation',
                   witness='two placeholders separated by a comma')
    allp = opt_punct(list(tree))
    outside = len([p for p in allp if p == set(',;:')])
    if outside >= 1:
        r.ok(f.node, 'an optional , ; : is allowed before a following word', nontrivial=True)
    else:
        r.fail(f.node, 'no optional , ; : before a following lower-case word', stmt='word optional punctuation')
    if '(\\.)' in s:
        r.ok(f.node, 'a full stop is captured')
    else:
        r.fail(f.node, 'a following full stop is not recognised', stmt='dot group')
    return r


def _join_arg(mod, v):
    """the list expression that is joined: `'|'.join(X)` -> X; `helper(X)` -> X if the module-level
    function helper returns a join over (an expression of) its parameter"""
    if isinstance(v, ast.Call) and isinstance(v.func, ast.Attribute) and v.func.attr == 'join' and v.args:
        return v.args[0]
    if isinstance(v, ast.Call) and isinstance(v.func, ast.Name) and len(v.args) == 1:
        for d in mod.tree.body:
            if isinstance(d, ast.FunctionDef) and d.name == v.func.id:
                rets = [x for x in ast.walk(d) if isinstance(x, ast.Return) and x.value is not None]
                if len(rets) == 1 and isinstance(rets[0].value, ast.Call) and isinstance(rets[0].value.func, ast.Attribute) \
                        and rets[0].value.func.attr == 'join':
                    return v.args[0]
    return None


def ck5(model):
    r = RuleResult('CK5', 'the alternations of equation placeholders handed to the checks are '
                   'built from the display / inline collections only and the lists they are built '
                   'from are not extended in place through an alias before use', floor=3)
    m = model.mod('shell.shell')
    obj = {}        # name -> object id
    info = {}       # object id -> dict(attrs=set, mutated=[nodes])
    counter = [0]

    def new_obj(e):
        counter[0] += 1
        attrs = {x.attr for x in ast.walk(e) if isinstance(x, ast.Attribute)}
        # inherits the content of lists referenced by name
        for x in ast.walk(e):
            if isinstance(x, ast.Name) and x.id in obj:
                attrs |= info[obj[x.id]]['attrs']
        info[counter[0]] = {'attrs': attrs, 'mutated': []}
        return counter[0]

    def walk(stmts):
        for s in stmts:
            if isinstance(s, ast.Assign) and len(s.targets) == 1 and isinstance(s.targets[0], ast.Name):
                name = s.targets[0].id
                v = s.value
                if isinstance(v, ast.Name) and v.id in obj:
                    obj[name] = obj[v.id]          # alias
                elif name.startswith('equation_replacements') and _join_arg(m, v) is not None:
                    arg = _join_arg(m, v)
                    names = [x.id for x in ast.walk(arg) if isinstance(x, ast.Name) and x.id in obj]
                    attrs = {x.attr for x in ast.walk(arg) if isinstance(x, ast.Attribute)}
                    muts = []
                    for nme in names:
                        attrs |= info[obj[nme]]['attrs']
                        muts += info[obj[nme]]['mutated']
                    extra = {a for a in attrs if 'repl' in a and not a.startswith('math_repl')}
                    if muts:
                        r.fail(muts[0], 'the list used for %s was extended in place through an alias '
                               '(%s): other placeholders get equation-punctuation messages'
                               % (name, unparse(muts[0])[:60]),
                               witness='--single-letters "..||" with --multi-language and '
                                       '--equation-punctuation all')
                    elif extra:
                        r.fail(s, '%s is built from %s, not only from the maths collections'
                               % (name, sorted(extra)))
                    else:
                        r.ok(s, '%s is built from %s only' % (name, sorted(a for a in attrs if 'repl' in a)),
                             nontrivial=True)
                else:
                    obj[name] = new_obj(v)
            elif isinstance(s, ast.AugAssign) and isinstance(s.target, ast.Name) and s.target.id in obj:
                info[obj[s.target.id]]['mutated'].append(s)
                info[obj[s.target.id]]['attrs'] |= {x.attr for x in ast.walk(s.value)
                                                    if isinstance(x, ast.Attribute)}
            elif isinstance(s, ast.Expr) and isinstance(s.value, ast.Call) \
                    and isinstance(s.value.func, ast.Attribute) \
                    and s.value.func.attr in ('append', 'extend', 'insert') \
                    and isinstance(s.value.func.value, ast.Name) and s.value.func.value.id in obj:
                info[obj[s.value.func.value.id]]['mutated'].append(s)
            elif isinstance(s, (ast.If, ast.Try, ast.With, ast.For, ast.While)):
                for field in ('body', 'orelse', 'finalbody'):
                    walk(getattr(s, field, []) or [])
                for h in getattr(s, 'handlers', []):
                    walk(h.body)
    walk(m.tree.body)
    return r


def ab4(model):
    r = RuleResult('AB4', 'context excerpt of the shell\'s own messages: the offset inside the '
                   'excerpt is (offset - start of the window + length of the literal prefix), the '
                   'two replace() calls keep the length, so the marked characters are the '
                   'flagged ones', floor=2)
    f = model.func('shell.checks.create_context')
    ev = SymEval(model, f)
    st = State()
    OFF = Aff.atom(('int', 'offset'))
    LENTXT = Aff.atom(('len', 'txt'))
    st.vars[f.params[0]] = Seq(LENTXT, 'str')
    st.vars[f.params[1]] = Int(OFF)
    st.facts = st.facts.add(OFF, LENTXT - OFF)
    LEN = None
    if len(f.params) >= 3:
        # the caller passes offset and length of one regular-expression match inside txt
        LEN = Aff.atom(('int', 'length'))
        st.vars[f.params[2]] = Int(LEN)
        st.facts = st.facts.add(LEN, LENTXT - OFF - LEN)
    ev.run(f.body, st)
    rets = [n for n in iter_scope(f.node) if isinstance(n, ast.Return) and isinstance(n.value, ast.Dict)]
    if not rets:
        raise AnalysisError('anchor vanished: create_context returns a dict')
    d = rets[0].value
    items = {k.value: v for k, v in zip(d.keys, d.values) if isinstance(k, ast.Constant)}
    rst = [s for n, v, s in ev.ret_states if n is rets[0]]
    if not rst or 'text' not in items or 'offset' not in items:
        r.fail(rets[0], 'create_context does not return text and offset')
        return r
    rst = rst[0]
    # literal prefix of the text
    te = items['text']
    left = te
    while isinstance(left, ast.BinOp):
        left = left.left
    plen = len(left.value) if isinstance(left, ast.Constant) and isinstance(left.value, str) else None
    middle = None
    if isinstance(te, ast.BinOp) and isinstance(te.left, ast.BinOp):
        middle = te.left.right
    offv = ev.as_int(ev.ev(items['offset'], rst), rst)
    # window start: the lower bound of the slice the excerpt is taken from
    win = None
    for node, base, lo, hi, sst in ev.slices:
        if isinstance(node.value, ast.Name) and node.value.id == f.params[0]:
            win = (lo, hi, sst)
    if plen is None or win is None or offv is None:
        r.fail(rets[0], 'excerpt is not <literal> + text[window] + <literal>')
        return r
    if rst.facts.prove_eq(offv, OFF - win[0] + plen):
        r.ok(rets[0], 'excerpt offset = offset - window start + %d (length of the prefix)' % plen,
             nontrivial=True)
    else:
        r.fail(rets[0], 'the offset inside the excerpt is %r, expected offset - window start + %d: '
               'the excerpt marks other characters than the message' % (offv, plen),
               witness='any own message')
    if middle is not None:
        mv = ev.ev(middle, rst)
        ml = ev.length(mv, rst)
        want = ev.slice_len(LENTXT, win[0], win[1], win[2])
        if ml is not None and rst.facts.prove_eq(ml, want):
            r.ok(rets[0], 'the replace() calls keep the length of the excerpt', nontrivial=True)
        else:
            r.fail(rets[0], 'the excerpt text does not have the length of the window: replaced '
                   'characters change the length')
    # (d) the window starts at or before the flagged characters
    if rst.facts.prove_ge0(OFF - win[0]):
        r.ok(rets[0], 'the window starts at or before the offset', nontrivial=True)
    else:
        r.fail(rets[0], 'the window starts at %r, which is not provably at or before the offset: the offset '
               'inside the excerpt can be negative and the excerpt marks other characters' % win[0],
               witness='a match more than 45 characters into a text without blanks in front of it')
    # (c) the marked characters lie inside the excerpt: offset + length <= end of the window
    if LEN is not None and 'length' in items:
        lv = ev.as_int(ev.ev(items['length'], rst), rst)
        hi = win[1] if win[1] is not None else LENTXT
        if lv is not None and rst.facts.prove_ge0(hi - OFF - lv):
            r.ok(rets[0], 'the marked range ends inside the window (offset + length <= end of the window)',
                 nontrivial=True)
        else:
            r.fail(rets[0], 'the window ends at %r but the marked range ends at offset + %r: for a match '
                   'that is longer than the part of the window behind the offset the excerpt marks '
                   'characters that it does not contain' % (hi, lv),
                   witness="--equation-punctuation all on 'See U-U-U' + 50 line breaks + 'Word'")
    return r
