"""TH1, TH2 (with LS2 for the HTML report): escaping exactly once, each match once,
source tiled without gap or overlap (DESIGN.md 3.4, 3.2)."""
import ast

from ..model import AnalysisError, unparse, iter_scope
from ..report import RuleResult
from ..flow import Flow
from ..callgraph import callgraph
from ..affine import Aff
from ..symlen import SymEval, Seq, Tup, Int, Obj, State
from .. import tok as T
from .tj import _is_json_get

CLEAN, RAW, SAFE, MIXED = None, 'raw', 'safe', 'mixed'
SOURCE_KEYS = {'message', 'value', 'text', 'id', 'subId'}
MARKUP_HINTS = ('<a ', '<span', '</', '<H', '<br>', '<tr', '<td', '<table', '<li', '<ul', '<hr',
                '">', '&nbsp;', '&ensp;', '<html', '<body', '<head', '<meta', '="')


def _lit_kind(s):
    return SAFE if any(h in s for h in MARKUP_HINTS) else CLEAN


RAWURL = 'rawurl'      # the rule URL of the answer: raw text, but not a source C16 names


def _plus(a, b):
    if a == RAWURL or b == RAWURL:
        o = b if a == RAWURL else a
        return RAWURL if o in (CLEAN, RAWURL) else (RAW if o == RAW else MIXED)
    if a is CLEAN:
        return b
    if b is CLEAN:
        return a
    if a == b:
        return a
    return MIXED


def _join(a, b):
    if a == b:
        return a
    if {a, b} == {RAW, RAWURL}:
        return RAW
    if a is CLEAN:
        return b
    if b is CLEAN:
        return a
    return MIXED


class HCtx:
    def __init__(self, model):
        self.model = model
        self.cg = callgraph(model)
        self.param = {}
        self.ret = {}
        self.changed = False
        self.findings = {}
        self.goods = {}
        self.bycatch = {}


class Html(Flow):
    def __init__(self, ctx, func, report, outer_state=None):
        super().__init__()
        self.ctx, self.model, self.func, self.report = ctx, ctx.model, func, report
        st = dict(outer_state or {})
        for i, p in enumerate(func.params):
            k = ctx.param.get((func.qname, i))
            st[p] = k
        self.final = {}
        self.run(func.body, st)

    def join(self, a, b):
        return {k: _join(a.get(k), b.get(k)) for k in set(a) | set(b)}

    def bad(self, node, msg):
        if self.report:
            self.ctx.findings[(id(node), msg)] = (node, msg)

    def good(self, node, how):
        if self.report:
            self.ctx.goods[id(node)] = (node, how)

    def kind(self, e, st):
        if e is None:
            return CLEAN
        if isinstance(e, ast.Constant):
            return _lit_kind(e.value) if isinstance(e.value, str) else CLEAN
        if isinstance(e, ast.Name):
            return st.get(e.id)
        if isinstance(e, ast.JoinedStr):
            k = CLEAN
            for v in e.values:
                k = _plus(k, self.kind(v.value if isinstance(v, ast.FormattedValue) else v, st))
            return k
        if isinstance(e, ast.BinOp) and isinstance(e.op, ast.Add):
            a, b = self.kind(e.left, st), self.kind(e.right, st)
            if RAWURL in (a, b) and (a if b == RAWURL else b) in (SAFE, MIXED):
                # the raw URL meets markup: by-catch for C16 (TH1), a finding for C15 (TH10)
                if self.report:
                    self.ctx.bycatch[id(e)] = e
                return a if b == RAWURL else b
            k = _plus(a, b)
            if k == MIXED and MIXED not in (a, b):
                self.bad(e, 'unescaped content is concatenated with markup / escaped text: '
                         + unparse(e)[:70])
            return k
        if isinstance(e, ast.BinOp):
            self.kind(e.left, st)
            self.kind(e.right, st)
            return self.kind(e.left, st) if isinstance(e.op, ast.Mult) else CLEAN
        if isinstance(e, ast.IfExp):
            return _join(self.kind(e.body, st), self.kind(e.orelse, st))
        if isinstance(e, ast.Subscript):
            base = self.kind(e.value, st)
            if isinstance(base, tuple):
                if isinstance(e.slice, ast.Constant) and isinstance(e.slice.value, int) \
                        and e.slice.value < len(base):
                    return base[e.slice.value]
                k = CLEAN
                for x in base:
                    k = _join(k, x)
                return k
            return base
        if isinstance(e, ast.Tuple):
            return tuple(self.kind(x, st) for x in e.elts)
        if isinstance(e, ast.List):
            k = CLEAN
            for x in e.elts:
                k = _join(k, _flat(self.kind(x, st)))
            return k
        if isinstance(e, (ast.GeneratorExp, ast.ListComp)):
            inner = dict(st)
            for g in e.generators:
                ik = self.kind(g.iter, inner)
                self._bind(g.target, ik, inner)
            return _flat(self.kind(e.elt, inner))
        if isinstance(e, ast.Attribute):
            self.kind(e.value, st)
            return CLEAN
        if isinstance(e, ast.Call):
            return self.call(e, st)
        return CLEAN

    def call(self, e, st):
        f = e.func
        name = f.attr if isinstance(f, ast.Attribute) else getattr(f, 'id', '')
        aks = [self.kind(a, st) for a in e.args]
        if _is_json_get(self.model, e):
            key = e.args[1].value if len(e.args) > 1 and isinstance(e.args[1], ast.Constant) else None
            typ = unparse(e.args[2]) if len(e.args) > 2 else ''
            if typ == 'str' and key in SOURCE_KEYS:
                # by-catch: values of the rule's URL list are not a source the property names
                src = e.args[0]
                if isinstance(src, ast.Subscript) and isinstance(src.value, ast.Name) \
                        and 'url' in src.value.id:
                    return RAWURL
                return RAW
            return CLEAN
        r = self.model.resolve_call(e)
        if r and r[0] == 'func' and r[1].name == 'protect_html':
            k = aks[0] if aks else CLEAN
            if k in (SAFE, MIXED):
                self.bad(e, 'protect_html is applied to text that is already escaped / contains '
                         'markup: entities would be shown literally')
            else:
                self.good(e, 'protect_html(%s) on %s content' % (unparse(e.args[0])[:40], k or 'plain'))
            return SAFE
        targets = [t for t in self.ctx.cg.targets(e) if t.mod.short == 'shell.genhtml']
        if targets:
            out = CLEAN
            for t in targets:
                for i, k in enumerate(aks):
                    kk = _flat(k)
                    if kk is not CLEAN:
                        old = self.ctx.param.get((t.qname, i))
                        new = _join(old, kk)
                        if new != old:
                            self.ctx.param[(t.qname, i)] = new
                            self.ctx.changed = True
                rk = self.ctx.ret.get(t.qname)
                out = rk if out is CLEAN else out
            return out
        if name == 'join' and isinstance(f, ast.Attribute):
            return _plus(self.kind(f.value, st), _flat(aks[0]) if aks else CLEAN)
        if name == 'sub' and len(e.args) >= 3:
            # re.sub(pattern, repl, s): pieces of s plus what the replacement contributes
            k = _flat(aks[2])
            rep = e.args[1]
            if isinstance(rep, ast.Name):
                for t in self.ctx.cg.func_value(rep):
                    k = _plus_same(k, self.ctx.ret.get(t.qname))
            else:
                k = _plus_same(k, _flat(aks[1]))
            return k
        if name == 'group' and isinstance(f, ast.Attribute):
            return self.kind(f.value, st)
        if name in ('str', 'len', 'int', 'max', 'min', 'abs', 'range', 'list', 'count', 'rfind',
                    'isalpha', 'search', 'correct_mark_macroname', 'get_line_starts', 'Aux'):
            return CLEAN
        if name in ('replace', 'strip', 'lower', 'upper') and isinstance(f, ast.Attribute):
            return self.kind(f.value, st)
        if name == 'write':
            k = _flat(aks[0]) if aks else CLEAN
            if k in (RAW, MIXED):
                self.bad(e, 'unescaped source / proofreader text is written into the HTML report')
            else:
                self.good(e, 'written text is markup / escaped')
            return CLEAN
        if name == 'append' and isinstance(f, ast.Attribute) and isinstance(f.value, ast.Name):
            v = f.value.id
            k = aks[0] if aks else CLEAN
            old = st.get(v)
            if isinstance(k, tuple) and (old is CLEAN or isinstance(old, tuple) and len(old) == len(k)):
                st[v] = tuple(_join(a, b) for a, b in zip(old or (CLEAN,) * len(k), k))
            else:
                st[v] = _join(_flat(old), _flat(k))
            return CLEAN
        return CLEAN

    def _bind(self, target, k, st):
        if isinstance(target, ast.Name):
            st[target.id] = k
        elif isinstance(target, (ast.Tuple, ast.List)):
            if isinstance(k, tuple) and len(k) == len(target.elts):
                for t, kk in zip(target.elts, k):
                    self._bind(t, kk, st)
            else:
                for t in target.elts:
                    self._bind(t, _flat(k), st)

    def transfer(self, s, st):
        if isinstance(s, ast.Assign):
            k = self.kind(s.value, st)
            for t in s.targets:
                self._bind(t, k, st)
        elif isinstance(s, ast.AugAssign):
            if isinstance(s.target, ast.Name):
                a = st.get(s.target.id)
                b = self.kind(s.value, st)
                fa, fb = _flat(a), _flat(b)
                k = _plus(fa, fb)
                if k == MIXED and MIXED not in (fa, fb):
                    self.bad(s, 'unescaped content is appended to markup / escaped text: '
                             + unparse(s)[:70])
                st[s.target.id] = k
            else:
                self.kind(s.value, st)
        elif isinstance(s, ast.Expr):
            self.kind(s.value, st)
        return st

    def cond(self, t, st, branch):
        self.kind(t, st)
        return st

    def bind_for(self, s, st):
        k = self.kind(s.iter, st)
        if isinstance(s.iter, ast.Call) and getattr(s.iter.func, 'id', '') == 'enumerate':
            k = (CLEAN, self.kind(s.iter.args[0], st))
        self._bind(s.target, k, st)
        return st

    def nested_def(self, s, st):
        f = self.model.func_of_node.get(id(s))
        if f is not None:
            sub = Html(self.ctx, f, self.report, outer_state=st)
        return st

    def on_return(self, node, st):
        if node is not None and node.value is not None:
            k = self.kind(node.value, st)
            old = self.ctx.ret.get(self.func.qname)
            new = k if old is None else (_join(_flat(old), _flat(k)) if not (isinstance(old, tuple) and isinstance(k, tuple) and len(old) == len(k)) else tuple(_join(a, b) for a, b in zip(old, k)))
            if new != old:
                self.ctx.ret[self.func.qname] = new
                self.ctx.changed = True
            if _flat(k) in (RAW, MIXED) and self.func.name != 'protect_html':
                self.bad(node, 'a value containing unescaped source / proofreader text is '
                         'returned into the HTML report')


def _flat(k):
    if isinstance(k, tuple):
        out = CLEAN
        for x in k:
            out = _join(out, _flat(x))
        return out
    return k


def _plus_same(a, b):
    b = _flat(b)
    if a is CLEAN:
        return b
    if b is CLEAN or a == b:
        return a
    return MIXED


def _html_ctx(model):
    c = getattr(model, '_html_ctx_cache', None)
    if c is not None:
        return c
    ctx = HCtx(model)
    gh = model.func('shell.genhtml.generate_html')
    # source: the text of the LaTeX file (first parameter of generate_html)
    ctx.param[(gh.qname, 0)] = RAW
    funcs = [f for f in model.mod('shell.genhtml').funcs.values()]
    for rounds in range(10):
        ctx.changed = False
        for f in funcs:
            if f.name == 'protect_html':
                continue
            Html(ctx, f, report=False)
        if not ctx.changed:
            break
    for f in funcs:
        if f.name == 'protect_html':
            continue
        Html(ctx, f, report=True)
    model._html_ctx_cache = ctx
    return ctx


def th1(model):
    r = RuleResult('TH1', 'every string taken from the LaTeX source (slices of tex) or from the '
                   'proofreader (message, replacement value, context text, rule id / subId) '
                   'reaches the HTML report through protect_html exactly once on every path; '
                   'protect_html replaces & " < > by entities, & first', floor=10)
    ctx = _html_ctx(model)
    for node, how in ctx.goods.values():
        r.ok(node, how, nontrivial=True)
    for (nid, msg), (node, msg) in sorted(ctx.findings.items(), key=lambda kv: kv[1][0].lineno):
        r.fail(node, msg, witness='source text or a proofreader message containing < > & "')
    for e in ctx.bycatch.values():
        r.undec(e, 'by-catch: rule URL enters an href attribute unescaped (not a source named by C16)')
    # protect_html itself
    ph = model.func('shell.genhtml.protect_html')
    _check_protect(model, ph, r)
    return r


def _check_protect(model, ph, r):
    body = ph.node.body
    var = ph.params[0]
    order = []
    for s in body:
        if isinstance(s, ast.Return):
            if not (isinstance(s.value, ast.Name) and s.value.id == var) and s is not body[-1]:
                r.fail(s, 'protect_html returns early without escaping')
            continue
        if isinstance(s, ast.Assign) and isinstance(s.value, ast.Call):
            c = s.value
            rc = model.resolve_call(c)
            name = rc[1] if rc and rc[0] == 'ext' else ''
            if name == 're.sub' and len(c.args) == 3 and isinstance(c.args[0], ast.Constant) \
                    and isinstance(c.args[1], ast.Constant) and unparse(c.args[2]) == var:
                order.append((c.args[0].value, c.args[1].value, s))
            elif isinstance(c.func, ast.Attribute) and c.func.attr == 'replace' \
                    and unparse(c.func.value) == var and len(c.args) == 2 \
                    and all(isinstance(a, ast.Constant) for a in c.args):
                order.append((c.args[0].value, c.args[1].value, s))
            elif name == 'html.escape':
                q = [k for k in c.keywords if k.arg == 'quote']
                if not q or T.is_const(q[0].value, True):
                    order += [('&', '&amp;', s), ('<', '&lt;', s), ('>', '&gt;', s), ('"', '&quot;', s)]
        elif isinstance(s, ast.For) and isinstance(s.target, ast.Tuple) and len(s.target.elts) == 2 \
                and all(isinstance(x, ast.Name) for x in s.target.elts) and len(s.body) == 1 \
                and isinstance(s.body[0], ast.Assign) and isinstance(s.body[0].value, ast.Call):
            # table-driven form: for (char, protected) in TABLE: s = s.replace(char, protected)
            a, b = s.target.elts[0].id, s.target.elts[1].id
            c = s.body[0].value
            args = [unparse(x) for x in c.args]
            is_repl = isinstance(c.func, ast.Attribute) and c.func.attr == 'replace' and unparse(c.func.value) == var \
                and args == [a, b]
            rc = model.resolve_call(c)
            is_sub = rc and rc[0] == 'ext' and rc[1] == 're.sub' and args == [a, b, var]
            tab = s.iter
            if isinstance(tab, ast.Name):
                g = ph.mod.globals.get(tab.id)
                tab = g[0] if g else None
                if tab is None:
                    vals = T.resolve_local(model, s.iter)
                    tab = vals[0] if len(vals) == 1 else None
            if (is_repl or is_sub) and isinstance(tab, (ast.Tuple, ast.List)):
                for el in tab.elts:
                    if isinstance(el, (ast.Tuple, ast.List)) and len(el.elts) == 2 and isinstance(el.elts[0], ast.Constant):
                        rep = el.elts[1].value if isinstance(el.elts[1], ast.Constant) else unparse(el.elts[1])
                        order.append((el.elts[0].value, rep, s))
        elif isinstance(s, ast.If):
            # a conditional path that returns skips the replacements below it
            for n in ast.walk(s):
                if isinstance(n, ast.Return):
                    r.fail(n, 'protect_html has an early return: characters that the condition '
                           'does not look at (e.g. ") stay unescaped',
                           witness='a one-word suggestion containing " and no other special character')
    want = {'&': '&amp;', '"': '&quot;', '<': '&lt;', '>': '&gt;'}
    seen = {}
    for i, (pat, rep, s) in enumerate(order):
        if pat in want and pat not in seen:
            seen[pat] = (i, rep, s)
    for ch, ent in want.items():
        if ch not in seen:
            r.fail(ph.node, 'protect_html does not escape %r' % ch, stmt='protect_html escapes %r' % ch)
        elif seen[ch][1] != ent:
            r.fail(seen[ch][2], '%r is replaced by %r, expected the entity %r' % (ch, seen[ch][1], ent))
        else:
            r.ok(seen[ch][2], '%r -> %s' % (ch, ent))
    if '&' in seen:
        amp_i = seen['&'][0]
        late = [p for i, (p, rep, s) in enumerate(order) if i < amp_i and '&' in rep]
        if late:
            r.fail(seen['&'][2], '& is escaped after a replacement that introduces an & '
                   '(double escaping of %r)' % late[0])
        else:
            r.ok(seen['&'][2], '& is escaped before every replacement that introduces an &',
                 nontrivial=True)
    if not isinstance(body[-1], ast.Return):
        r.fail(ph.node, 'protect_html does not return the escaped text')


# ------------------------------------------------------------------------------ TH2 / LS2
def html_phases(model):
    """the three phases of genhtml.generate_html, found by what they do, not by their position:
       collect - the loop over the matches that fills the highlight records (X.beglin = ...), in
                 generate_html itself or in a helper of the module that generate_html calls
       group   - the loop of generate_html that reads .beglin / .endlin to form regions
       emit    - the last loop of generate_html
    each entry is (Func, For node) or None"""
    f = model.func('shell.genhtml.generate_html')

    def loops_of(fn):
        return [s for s in fn.node.body if isinstance(s, ast.For)]

    def fills(lp):
        # the loop that reads the offset of every match and fills the records
        return any(isinstance(x, ast.Attribute) and x.attr == 'beglin' and isinstance(x.ctx, ast.Store)
                   for x in ast.walk(lp)) and any(
            isinstance(x, ast.Constant) and x.value == 'offset' for x in ast.walk(lp))
    out = {'collect': None, 'group': None, 'emit': None, 'root': f}
    mine = loops_of(f)
    for lp in mine:
        if fills(lp) and out['collect'] is None:
            out['collect'] = (f, lp)
    if out['collect'] is None:
        for c in ast.walk(f.node):
            if isinstance(c, ast.Call):
                rc = model.resolve_call(c)
                if rc and rc[0] == 'func' and rc[1].mod is f.mod and isinstance(rc[1].node.body, list):
                    for lp in loops_of(rc[1]):
                        if fills(lp) and out['collect'] is None:
                            out['collect'] = (rc[1], lp)
    rest = [lp for lp in mine if not (out['collect'] and lp is out['collect'][1])]
    for lp in rest:
        if out['group'] is None and any(isinstance(x, ast.Attribute) and x.attr in ('beglin', 'endlin')
                                         and isinstance(x.ctx, ast.Load) for x in ast.walk(lp)) \
                and any(isinstance(x, ast.Call) and T.call_name(x) == 'append' for x in ast.walk(lp)):
            out['group'] = (f, lp)
    rest = [lp for lp in rest if not (out['group'] and lp is out['group'][1])]
    if rest:
        out['emit'] = (f, rest[-1])
    return out


def th2(model):
    r = RuleResult('TH2', 'generate_html: every match yields one highlight entry, every entry is '
                   'put into exactly one region, and in the region loop every path emits the '
                   'highlight exactly once - in place (then the cursor moves to the end of the '
                   'highlighted slice) or into the overlap list (then the cursor stays); the '
                   'source between highlights is copied from the cursor without gap (LS2)',
                   floor=3)
    f = model.func('shell.genhtml.generate_html')
    tex = f.params[0]
    body = f.node.body
    ph = html_phases(model)
    if not (ph['collect'] and ph['group'] and ph['emit']):
        raise AnalysisError('anchor vanished: the three phases (collect, group, emit) of generate_html')
    first, second, third = ph['collect'][1], ph['group'][1], ph['emit'][1]
    # (1) every match -> one entry
    coll = None
    for n in ast.walk(first):
        if isinstance(n, ast.Call) and isinstance(n.func, ast.Attribute) and n.func.attr == 'append':
            coll = n
    conts = [n for n in ast.walk(first) if isinstance(n, ast.Continue)]
    last_stmt = first.body[-1]
    yields = [n for n in ast.walk(first) if isinstance(n, ast.Yield)]
    if coll is None and len(yields) == 1 and isinstance(last_stmt, ast.Expr) and last_stmt.value is yields[0] \
            and not conts:
        r.ok(first, 'the generator over the matches ends with one unconditional yield and never skips',
             nontrivial=True)
    elif coll is not None and isinstance(last_stmt, ast.Expr) and last_stmt.value is coll and not conts:
        r.ok(first, 'the loop over the matches ends with one unconditional append and never skips',
             nontrivial=True)
    else:
        r.fail(first, 'a match can be dropped or recorded twice: the loop over the matches does '
               'not end with a single unconditional append')
    # (2) every entry -> exactly one region
    apps = {}
    def count_appends(stmts):
        n = 0
        for s in stmts:
            for c in ast.walk(s):
                if isinstance(c, ast.Call) and isinstance(c.func, ast.Attribute) and c.func.attr == 'append':
                    n += 1
        return n
    ifs = [s for s in second.body if isinstance(s, ast.If)]
    ok2 = False
    for s in ifs:
        if count_appends(s.body) == 1 and count_appends(s.orelse) == 1:
            ok2 = True
    if ok2 and not any(isinstance(n, ast.Continue) for n in ast.walk(second)):
        r.ok(second, 'both branches of the grouping put the entry into exactly one region',
             nontrivial=True)
    else:
        r.fail(second, 'an entry may be put into no region or into two')
    # (3) region loop: path-sensitive
    inner = [s for s in third.body if isinstance(s, ast.For)]
    if not inner:
        raise AnalysisError('anchor vanished: loop over the highlights of a region')
    inner = inner[0]
    after = third.body[third.body.index(inner) + 1:]
    cursor = None
    for s in after:
        for n in ast.walk(s):
            if isinstance(n, ast.Subscript) and isinstance(n.slice, ast.Slice) \
                    and isinstance(n.value, ast.Name) and n.value.id == tex \
                    and isinstance(n.slice.lower, ast.Name):
                cursor = n.slice.lower.id
        if cursor:
            break
    if cursor is None:
        r.fail(third, 'the source after the last highlight of a region is not copied from a cursor')
        return r
    ev = SymEval(model, f)
    st = State()
    st.vars[tex] = Seq(Aff.atom(('len', 'tex')), 'str')
    paths = []

    def hook(lp, bst):
        if lp is inner:
            paths.append((ev.loop_heads[id(lp)], bst))
    ev.backedge_hooks.append(hook)
    ev.run(f.body, st)
    head = ev.loop_heads.get(id(inner))
    hcur = ev.as_int(head.vars.get(cursor), head) if head is not None and cursor in head.vars else None
    if hcur is None:
        r.fail(inner, 'cursor %s is not an integer at the head of the highlight loop' % cursor)
        return r
    # slices of tex evaluated inside the inner loop (last pass)
    sl = {}
    for node, base, lo, hi, sst in ev.slices:
        if isinstance(node.value, ast.Name) and node.value.id == tex and _inside(node, inner):
            sl[id(node)] = (node, lo, hi, sst)
    gap = [x for x in sl.values() if x[4 - 1].facts.prove_eq(x[1], hcur)]
    hl = [x for x in sl.values() if not x[3].facts.prove_eq(x[1], hcur)]
    if len(gap) == 1 and len(hl) == 1:
        g, h = gap[0], hl[0]
        if g[3].facts.prove_eq(g[2], h[1]):
            r.ok(g[0], 'gap piece is [cursor : start of the highlight]', nontrivial=True)
        else:
            r.fail(g[0], 'the piece copied before a highlight does not end where the highlight starts')
        hi_end = h[2]
    else:
        r.fail(inner, 'cannot identify the gap piece and the highlighted piece of the source '
               '(%d slices start at the cursor, %d elsewhere)' % (len(gap), len(hl)))
        return r
    accs = set()
    for n in ast.walk(inner):
        if isinstance(n, ast.AugAssign) and isinstance(n.target, ast.Name):
            accs.add(n.target.id)
        elif isinstance(n, ast.Call) and isinstance(n.func, ast.Attribute) \
                and n.func.attr in ('append', 'extend') and isinstance(n.func.value, ast.Name):
            accs.add(n.func.value.id)
    lists = [k for k, v in head.vars.items() if k in accs and isinstance(v, (Seq, Tup))]
    n_in, n_over = 0, 0
    for hd, bst in paths:
        if hd is not head:
            continue
        cva = ev.as_int(bst.vars.get(cursor), bst) if cursor in bst.vars else None
        if cva is None:
            r.fail(inner, 'cursor lost on a path through the highlight loop')
            continue
        changed = []
        for k in lists:
            a, b = ev.length(head.vars[k], head), ev.length(bst.vars.get(k, head.vars[k]), bst)
            if b is None or not bst.facts.prove_eq(a, b):
                changed.append((k, b - a if b is not None else None))
        unchanged_cursor = bst.facts.prove_eq(cva, hcur)
        moved = bst.facts.prove_eq(cva, hi_end)
        grew_by_one = [k for k, d in changed if d is not None and d == Aff.const(1)]
        grew_text = [k for k, d in changed if d is not None and not d.is_const()]
        if len(changed) == 1 and grew_by_one and unchanged_cursor:
            n_over += 1
        elif len(changed) == 1 and grew_text and moved:
            n_in += 1
        else:
            r.fail(inner, 'on one path through the highlight loop the highlight is emitted '
                   '%s and the cursor %s: source text is duplicated or dropped around '
                   'overlapping matches' % (
                       'into ' + ', '.join(k for k, d in changed) if changed else 'nowhere',
                       'stays' if unchanged_cursor else ('moves to the end of the highlight'
                                                         if moved else 'is set to something else')),
                   witness='two overlapping matches with different end positions')
    if n_in:
        r.ok(inner, 'in-place path: output extended, cursor = end of the highlighted slice',
             nontrivial=True)
    if n_over:
        r.ok(inner, 'overlap path: one entry in the overlap list, cursor unchanged', nontrivial=True)
    if not (n_in and n_over) and not r.findings:
        r.fail(inner, 'the highlight loop no longer has both an in-place and an overlap path')
    return r


def _inside(node, anc):
    p = node
    while p is not None:
        if p is anc:
            return True
        p = getattr(p, '_parent', None)
    return False


def th10(model):
    r = RuleResult('TH10', 'no string of the proofreader answer reaches the HTML page raw, the rule URL included: '
                   'the page is cut into table rows at every "<br>" + line break, so a raw string that '
                   'contains one adds rows for which add_line_numbers has no line number (IndexError), and '
                   'a raw quote ends the attribute it stands in', floor=1)
    ctx = _html_ctx(model)
    r.instances += len(ctx.goods)
    r.nontrivial += len(ctx.goods)
    for e in ctx.bycatch.values():
        r.fail(e, 'the value %s of the answer enters the page without protect_html' % unparse(e)[:60],
               witness='--output html --link, answer with rule.urls[0].value = "http://x/<br>\\n<br>\\n"')
    return r
