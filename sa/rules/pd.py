"""PD1-PD5: position discipline of tokens (DESIGN.md 3.1)."""
import ast

from ..model import AnalysisError, unparse, iter_scope, enclosing_stmt
from ..report import RuleResult
from ..rdefs import reachdefs
from ..own import Summaries
from .. import tok as T
from .. import guards

WITNESS_BODY = ('put the construct into the body of \\newcommand{\\x}{...} (or behind #1 in '
                '\\newcommand{\\x}[1]{#1...}) and end the file with \\x: a non-pinned token with '
                'more than one character is spread over positions beyond the macro call / the text')


# --------------------------------------------------------------------------- helpers
def _is_str_expr(model, e, depth=3):
    """expression known to be a str"""
    if isinstance(e, ast.Constant) and isinstance(e.value, str):
        return True
    if isinstance(e, ast.Attribute) and e.attr == 'txt':
        return True
    if isinstance(e, ast.Call):
        n = T.call_name(e)
        if n in ('strip', 'lstrip', 'rstrip', 'upper', 'lower', 'join', 'get_text_direct',
                 'get_text_expanded', 'replace', 'str'):
            return True
    if isinstance(e, ast.Name) and depth > 0:
        vals = T.resolve_local(model, e)
        return all(v is not e and _is_str_expr(model, v, depth - 1) for v in vals)
    if isinstance(e, ast.Subscript) and isinstance(e.slice, ast.Slice):
        return _is_str_expr(model, e.value, depth)
    return False


def len_le1(model, e, depth=4):
    """is the text expression provably of length <= 1?"""
    if depth <= 0 or e is None:
        return False
    if isinstance(e, ast.Constant):
        return isinstance(e.value, str) and len(e.value) <= 1
    if isinstance(e, ast.Subscript) and not isinstance(e.slice, ast.Slice):
        return _is_str_expr(model, e.value)
    if isinstance(e, ast.IfExp):
        return len_le1(model, e.body, depth - 1) and len_le1(model, e.orelse, depth - 1)
    if isinstance(e, ast.Call):
        r = model.resolve_call(e)
        if r and r[0] == 'ext' and r[1] == 'unicodedata.lookup':
            return True
        if r and r[0] == 'builtin' and r[1] == 'chr':
            return True
        if r and r[0] == 'func':
            rets = T.func_returns(r[1])
            return bool(rets) and all(len_le1(model, x, depth - 1) for x in rets)
        if isinstance(e.func, ast.Attribute) and e.func.attr in ('upper', 'lower') and False:
            return False
        return False
    if isinstance(e, ast.Name):
        vals = T.resolve_local(model, e)
        if any(v is e for v in vals):
            return False
        return all(len_le1(model, v, depth - 1) for v in vals)
    return False


def _recv(e):
    """receiver text of X.attr"""
    return unparse(e.value) if isinstance(e, ast.Attribute) else None


def _copy_form(model, args):
    """TextToken(X.pos, X.txt | TABLE[X.txt], pos_fix=X.pos_fix): returns (X, table?) or None"""
    p, t, f = args.get('pos'), args.get('txt'), args.get('pos_fix')
    if not (isinstance(p, ast.Attribute) and p.attr == 'pos'):
        return None
    x = _recv(p)
    if not (isinstance(f, ast.Attribute) and f.attr == 'pos_fix' and _recv(f) == x):
        return None
    cands = T.resolve_local(model, t) if isinstance(t, ast.Name) else [t]
    table = None
    for c in cands:
        if isinstance(c, ast.Attribute) and c.attr == 'txt' and _recv(c) == x:
            continue
        if (isinstance(c, ast.Subscript) and isinstance(c.slice, ast.Attribute)
                and c.slice.attr == 'txt' and _recv(c.slice) == x
                and isinstance(c.value, ast.Attribute) and c.value.attr == 'special_tokens'):
            table = 'special_tokens'
            continue
        return None
    return (x, table)


def _env_name_token(call):
    """the named exception of PD1: TextToken(.., <literal>) standing between SpecialToken '{'
    and '}' directly after a Begin/End token inside one list display (an environment name
    that get_environment_name consumes)"""
    p = getattr(call, '_parent', None)
    if not isinstance(p, ast.List):
        return False
    i = p.elts.index(call)
    if i < 2 or i + 1 >= len(p.elts):
        return False
    def lit(e, txt):
        return (isinstance(e, ast.Call) and len(e.args) >= 2 and isinstance(e.args[1], ast.Constant)
                and e.args[1].value == txt and T.call_name(e) == 'SpecialToken')
    def begend(e):
        return isinstance(e, ast.Call) and T.call_name(e) in ('BeginToken', 'EndToken')
    return lit(p.elts[i - 1], '{') and lit(p.elts[i + 1], '}') and begend(p.elts[i - 2])


# --------------------------------------------------------------------------- PD1
def pd1(model):
    r = RuleResult('PD1', 'every TextToken/SpaceToken/ParagraphToken constructed outside the '
                   'scanner is pinned (pos_fix=True), has provably at most one character, or is '
                   'a faithful copy of another token incl. its pos_fix', floor=45)
    for call, cls in T.all_ctor_calls(model, skip_mods=('defs', 'scanner')):
        if cls.qname not in T.OUTPUT_CLASSES:
            continue
        a = T.ctor_args(model, call, cls)
        f = a.get('pos_fix')
        if f is not None and T.is_const(f, True):
            r.ok(call, 'pos_fix=True')
            continue
        txt = a.get('txt')
        if f is None or T.is_const(f, False):
            if len_le1(model, txt):
                r.ok(call, 'text provably of length <= 1: ' + unparse(txt)[:40],
                     nontrivial=not isinstance(txt, ast.Constant))
                continue
            if _env_name_token(call):
                r.ok(call, 'named exception: environment name between synthesised { } after '
                     'Begin/EndToken, consumed by get_environment_name', nontrivial=True)
                r.exception('env-name token in ' + call._fn.qname,
                            'never reaches the output: consumed as environment name')
                continue
            r.fail(call, 'token with text %s is neither pinned nor provably a single character'
                   % unparse(txt)[:50], witness=WITNESS_BODY)
            continue
        cf = _copy_form(model, a)
        if cf:
            r.ok(call, 'copy of %s incl. pos_fix%s' % (cf[0], ' (table value, SP3)' if cf[1] else ''),
                 nontrivial=True)
            continue
        if len_le1(model, txt):
            r.ok(call, 'text provably of length <= 1', nontrivial=True)
            continue
        r.fail(call, 'pos_fix=%s is not True and the token is not a faithful copy'
               % unparse(f)[:40], witness=WITNESS_BODY)
    return r


# --------------------------------------------------------------------------- PD2
def _sibling_sets_posfix(store_stmt, recv):
    """is `recv.pos_fix = True` a statement of the same block?"""
    p = getattr(store_stmt, '_parent', None)
    for field in ('body', 'orelse', 'finalbody'):
        seq = getattr(p, field, None)
        if isinstance(seq, list) and store_stmt in seq:
            for s in seq:
                if isinstance(s, ast.Assign) and T.is_const(s.value, True):
                    for t in s.targets:
                        if isinstance(t, ast.Attribute) and t.attr == 'pos_fix' \
                                and unparse(t.value) == recv:
                            return True
    return False


def _pos_stores(model):
    for m in model.mods.values():
        if m.short == 'defs':
            continue
        for n in ast.walk(m.tree):
            if isinstance(n, ast.Assign):
                for t in n.targets:
                    if isinstance(t, ast.Attribute) and t.attr == 'pos' \
                            and not (isinstance(t.value, ast.Name) and t.value.id == 'self'):
                        yield n, t


def _safe_restamp_source(model, e, seen=None):
    """does expression e (a token list that is restamped without pinning) only contain
    pinned or text-less tokens?  Verified on: [] / latex_error(...) / lists of
    LanguageToken / inject_tokens of every InitModule / calls of functions returning such"""
    seen = seen or set()
    if isinstance(e, ast.List):
        return all(_safe_tok(model, x) for x in e.elts)
    if isinstance(e, ast.IfExp):
        return _safe_restamp_source(model, e.body, seen) and _safe_restamp_source(model, e.orelse, seen)
    if isinstance(e, ast.BinOp) and isinstance(e.op, ast.Add):
        return _safe_restamp_source(model, e.left, seen) and _safe_restamp_source(model, e.right, seen)
    if isinstance(e, ast.Name):
        vals = T.resolve_local(model, e)
        if any(v is e for v in vals):
            # accumulated list: every `name += X` / `name = X` must be safe
            fn = e._fn
            ok = True
            found = False
            for n in iter_scope(fn.node):
                if isinstance(n, ast.AugAssign) and isinstance(n.target, ast.Name) and n.target.id == e.id:
                    found = True
                    ok = ok and _safe_restamp_source(model, n.value, seen)
                elif isinstance(n, ast.Assign) and any(isinstance(t, ast.Name) and t.id == e.id for t in n.targets):
                    found = True
                    ok = ok and _safe_restamp_source(model, n.value, seen)
                elif isinstance(n, ast.Call) and isinstance(n.func, ast.Attribute) \
                        and isinstance(n.func.value, ast.Name) and n.func.value.id == e.id \
                        and n.func.attr in ('append', 'extend', 'insert'):
                    return False
            return ok and found
        return all(_safe_restamp_source(model, v, seen) for v in vals)
    if isinstance(e, ast.Attribute) and e.attr == 'inject_tokens':
        return _all_inject_tokens_safe(model, seen)
    if isinstance(e, ast.Call):
        r = model.resolve_call(e)
        if r and r[0] == 'func':
            f = r[1]
            if f.qname in seen:
                return True
            seen.add(f.qname)
            if f.qname == 'utils.latex_error':
                return _latex_error_pinned(model)
            rets = T.func_returns(f)
            return bool(rets) and all(x is not None and _safe_restamp_source(model, x, seen) for x in rets)
    return False


def _safe_tok(model, e):
    if isinstance(e, ast.Call):
        c = T.token_ctor(model, e)
        if c is None:
            return False
        if c.qname in T.TEXTLESS_CLASSES:
            return True
        a = T.ctor_args(model, e, c)
        return a.get('pos_fix') is not None and T.is_const(a['pos_fix'], True)
    return False


def _latex_error_pinned(model):
    f = model.func('utils.latex_error')
    n = 0
    for c in ast.walk(f.node):
        if isinstance(c, ast.Call) and T.token_ctor(model, c) is not None:
            n += 1
            if not _safe_tok(model, c):
                return False
    return n > 0


def _all_inject_tokens_safe(model, seen):
    ok = True
    n = 0
    for m in model.mods.values():
        for c in ast.walk(m.tree):
            if isinstance(c, ast.Call):
                r = model.resolve_call(c)
                if r and r[0] == 'class' and r[1].qname == 'defs.InitModule':
                    for k in c.keywords:
                        if k.arg == 'inject_tokens':
                            n += 1
                            ok = ok and _safe_restamp_source(model, k.value, seen)
    return ok


def pd2(model):
    r = RuleResult('PD2', 'a store T.pos = e that moves a token pins it (T.pos_fix = True in '
                   'the same block), unless T can only be text-less or already pinned', floor=4)
    for st, t in _pos_stores(model):
        recv = unparse(t.value)
        # derived from the token's own position -> PD3/PD4
        if any(isinstance(x, ast.Attribute) and x.attr == 'pos' and unparse(x.value) == recv
               for x in ast.walk(st.value)):
            continue
        if _sibling_sets_posfix(st, recv):
            r.ok(st, '%s.pos_fix = True in the same block' % recv)
            continue
        fn = st._fn
        if fn is not None and _class_filter_ok(model, fn, r, st):
            continue
        r.fail(st, 'token %s is moved to another position without being pinned' % recv,
               witness='a replacement text with a run of blanks or a \\verb longer than the '
                       'construct, used at the end of the file')
    # AugAssign on .pos are PD3
    return r


def _class_filter_ok(model, fn, r, st):
    """the filter_set_toks idiom: the restamped token t comes from a comprehension /
    function whose elements are filtered by `tok_typ is None or type(t) is tok_typ`; then
    every call site must pass a text-less class, or None together with a safe source"""
    outer = fn.outer if fn.outer is not None else fn
    filt_param = None
    for n in ast.walk(outer.node):
        if isinstance(n, ast.Compare) and len(n.ops) == 1 and isinstance(n.ops[0], (ast.Is, ast.IsNot)) \
                and isinstance(n.left, ast.Call) and T.call_name(n.left) == 'type' \
                and isinstance(n.comparators[0], ast.Name) and n.comparators[0].id in outer.params:
            # `type(t) is tok_typ` keeps, `type(t) is not tok_typ: continue` skips: the restamp
            # must stand on the side where the class matches
            keep_side = isinstance(n.ops[0], ast.Is)
            facts = [(e, t) for e, t in guards.facts(st) if e is n or unparse(e) == unparse(n)]
            if facts and all(t != keep_side for e, t in facts) :
                continue
            filt_param = n.comparators[0].id
    if filt_param is None:
        return False
    idx = outer.params.index(filt_param)
    sites = [c for m in model.mods.values() for c in ast.walk(m.tree)
             if isinstance(c, ast.Call) and (model.resolve_call(c) or (None, None))[1] is outer]
    if not sites:
        return False
    for c in sites:
        arg = c.args[idx] if idx < len(c.args) else None
        if arg is None:
            r.fail(c, 'call of %s without class filter' % outer.name)
            return True
        if T.is_const(arg) and arg.value is None:
            src = c.args[0]
            if _safe_restamp_source(model, src):
                r.ok(c, 'unfiltered restamp of a list holding only pinned / text-less tokens '
                     '(inject_tokens of all modules verified)', nontrivial=True)
            else:
                r.fail(c, 'unfiltered restamp (tok_typ=None) of a list that may hold unpinned '
                       'text tokens: ' + unparse(src))
            continue
        cls = model.class_of_expr(c._mod, c._fn, arg)
        if cls is not None and cls.qname in T.TEXTLESS_CLASSES:
            r.ok(c, 'restamp restricted to text-less class ' + cls.name, nontrivial=True)
        else:
            r.fail(c, 'restamp filter %s is not a text-less token class' % unparse(arg))
    return True


# --------------------------------------------------------------------------- PD3
def _numeric(model, e, depth=3):
    if isinstance(e, ast.Constant):
        return isinstance(e.value, int) and not isinstance(e.value, bool)
    if isinstance(e, ast.Call):
        return T.call_name(e) in ('len', 'find', 'rfind', 'index', 'count', 'int', 'min', 'max', 'abs')
    if isinstance(e, ast.BinOp):
        return _numeric(model, e.left, depth) and _numeric(model, e.right, depth)
    if isinstance(e, ast.Name) and depth > 0:
        vals = T.resolve_local(model, e)
        return all(v is not e and _numeric(model, v, depth - 1) for v in vals)
    if isinstance(e, ast.UnaryOp):
        return _numeric(model, e.operand, depth)
    return False


def _listy(model, e, depth=3):
    if isinstance(e, (ast.List, ast.ListComp)):
        return True
    if isinstance(e, ast.Attribute) and e.attr == 'pos':
        return True      # X.pos + Y.pos: concatenation of position lists (LanguageSection)
    if isinstance(e, ast.BinOp):
        return _listy(model, e.left, depth) or _listy(model, e.right, depth)
    if isinstance(e, ast.Subscript) and isinstance(e.slice, ast.Slice):
        return True
    if isinstance(e, ast.Call) and T.call_name(e) in ('list',):
        return True
    if isinstance(e, ast.Name) and depth > 0:
        vals = T.resolve_local(model, e)
        return all(v is not e and _listy(model, v, depth - 1) for v in vals)
    return False


def _not_posfix_guard(node, recv):
    def pred(e, truth):
        return (not truth and isinstance(e, ast.Attribute) and e.attr == 'pos_fix'
                and unparse(e.value) == recv)
    return guards.has_fact(node, pred)


def pd3(model):
    r = RuleResult('PD3', 'arithmetic on a token position (X.pos + n, X.pos += n, '
                   'range(X.pos, ..)) outside the scanner happens only under the guard '
                   '"not X.pos_fix" (get_txt_pos checks it, so every other spreader must)',
                   floor=3)
    for m in model.mods.values():
        if m.short in ('scanner', 'defs') or m.short.startswith('shell'):
            continue
        for n in ast.walk(m.tree):
            site = None
            if isinstance(n, ast.BinOp) and isinstance(n.op, (ast.Add, ast.Sub)):
                for side, other in ((n.left, n.right), (n.right, n.left)):
                    if isinstance(side, ast.Attribute) and side.attr == 'pos' \
                            and not (isinstance(side.value, ast.Name) and side.value.id == 'self'):
                        if _listy(model, other):
                            continue
                        if _numeric(model, other):
                            site = (n, side)
                        else:
                            r.undec(n, 'operand of X.pos arithmetic not classified')
            elif isinstance(n, ast.AugAssign) and isinstance(n.op, (ast.Add, ast.Sub)) \
                    and isinstance(n.target, ast.Attribute) and n.target.attr == 'pos' \
                    and not (isinstance(n.target.value, ast.Name) and n.target.value.id == 'self'):
                if _listy(model, n.value):
                    continue
                if _numeric(model, n.value):
                    site = (n, n.target)
                else:
                    r.undec(n, 'operand of X.pos += .. not classified')
            if site is None:
                continue
            node, attr = site
            # skip the inner BinOp of a larger arithmetic expression already reported
            recv = unparse(attr.value)
            if _not_posfix_guard(node, recv):
                r.ok(node, 'dominated by the guard "not %s.pos_fix"' % recv, nontrivial=True)
            else:
                r.fail(node, 'position of %s is shifted/spread without the guard '
                       '"not %s.pos_fix"' % (recv, recv), witness=WITNESS_BODY)
    return r


# --------------------------------------------------------------------------- PD4
def _prefix_trim(value, recv_txt_names):
    """E[k:] with k != 0 -> k node"""
    if isinstance(value, ast.Subscript) and isinstance(value.slice, ast.Slice):
        sl = value.slice
        if sl.lower is not None and sl.upper is None and not T.is_const(sl.lower, 0):
            return sl.lower
    return None


def pd4(model):
    r = RuleResult('PD4', 'a store T.txt = E[k:] that removes a prefix (or the sibling branch '
                   "T.txt = '') is paired in the same branch with T.pos += k under the guard "
                   '"not T.pos_fix"', floor=2)
    for m in model.mods.values():
        if m.short.startswith('shell') or m.short == 'defs':
            continue
        for n in ast.walk(m.tree):
            if not isinstance(n, ast.Assign):
                continue
            for t in n.targets:
                if not (isinstance(t, ast.Attribute) and t.attr == 'txt'):
                    continue
                if isinstance(t.value, ast.Name) and t.value.id == 'self':
                    continue
                recv = unparse(t.value)
                k = _prefix_trim(n.value, None)
                empty_sibling = False
                if k is None and T.is_const(n.value, ''):
                    # '' in the branch whose sibling is a prefix trim of the same T
                    p = n._parent
                    if isinstance(p, ast.If):
                        other = p.orelse if n in p.body else p.body
                        for s in other:
                            if isinstance(s, ast.Assign) and any(
                                    isinstance(x, ast.Attribute) and x.attr == 'txt'
                                    and unparse(x.value) == recv for x in s.targets) \
                                    and _prefix_trim(s.value, None) is not None:
                                empty_sibling = True
                if k is None and not empty_sibling:
                    continue
                # find the pairing T.pos += .. in the same block (possibly inside `if not T.pos_fix`)
                blk = _block_of(n)
                paired = None
                for s in blk:
                    for a in ast.walk(s):
                        if isinstance(a, ast.AugAssign) and isinstance(a.op, ast.Add) \
                                and isinstance(a.target, ast.Attribute) and a.target.attr == 'pos' \
                                and unparse(a.target.value) == recv:
                            paired = a
                if paired is None:
                    r.fail(n, 'prefix of %s.txt is removed but %s.pos is not advanced: every '
                           'remaining character maps too early' % (recv, recv),
                           witness='a multi-character unpinned token (\\verb?ab?) in this place')
                    continue
                if not _not_posfix_guard(paired, recv):
                    r.fail(paired, 'position advanced without the guard "not %s.pos_fix"' % recv)
                    continue
                # amount: k for the slice form, len(old text) for the '' form
                amount_ok = True
                if k is not None:
                    amount_ok = unparse(paired.value) == unparse(k)
                else:
                    amount_ok = isinstance(paired.value, ast.Call) and T.call_name(paired.value) == 'len'
                if amount_ok:
                    r.ok(n, 'paired with guarded %s' % unparse(paired), nontrivial=True)
                else:
                    r.fail(paired, 'position advanced by %s, but %s characters were removed'
                           % (unparse(paired.value), unparse(k) if k is not None else 'len(text)'))
    _pd4_amounts(model, r)
    return r


class _TrimEval(object):
    pass


def _pd4_amounts(model, r):
    """wherever a block changes T.txt and advances T.pos, the advance equals the number of
    characters removed: symbolic lengths (slices, find, partition, len)"""
    from ..symlen import SymEval, State, Int, Seq
    from ..affine import Aff

    funcs = {}
    for m in model.mods.values():
        if m.short.startswith('shell') or m.short in ('defs', 'scanner'):
            continue
        for n in ast.walk(m.tree):
            if isinstance(n, ast.AugAssign) and isinstance(n.target, ast.Attribute) \
                    and n.target.attr == 'pos' and n._fn is not None \
                    and not (isinstance(n.target.value, ast.Name) and n.target.value.id == 'self') \
                    and not _listy(model, n.value):
                funcs[n._fn.qname] = n._fn
    results = {}

    class Ev(SymEval):
        def transfer(self, s, st):
            if isinstance(s, ast.Assign) and isinstance(s.value, ast.Call) and len(s.value.args) == 1 \
                    and unparse(s.value.func) in ('copy.copy', 'copy.deepcopy') \
                    and all(isinstance(t, (ast.Name, ast.Subscript)) for t in s.targets):
                # X = copy.copy(Y): the copy has the text of the original (also for chained targets)
                import copy as _c
                src = s.value.args[0]
                ld = ast.Attribute(value=_c.deepcopy(src), attr='txt', ctx=ast.Load())
                ast.copy_location(ld, s)
                ast.fix_missing_locations(ld)
                for x in ast.walk(ld):
                    x._parent = getattr(s, '_parent', None)
                    x._fn = getattr(s, '_fn', None)
                    x._mod = getattr(s, '_mod', None)
                val = self.ev(ld, st)
                st = super().transfer(s, st)
                for t in s.targets:
                    st.vars[unparse(t) + '.txt'] = val
                return st
            if isinstance(s, ast.Assign):
                tg = [x for t in s.targets for x in ast.walk(t)
                      if isinstance(x, ast.Attribute) and x.attr == 'txt'
                      and isinstance(x.ctx, ast.Store)
                      and not (isinstance(x.value, ast.Name) and x.value.id == 'self')]
                if tg:
                    import copy as _c
                    olds = {}
                    for t in tg:
                        ld = _c.copy(t)
                        ld.ctx = ast.Load()
                        olds[unparse(t.value)] = (self.length(self.ev(ld, st), st), ld)
                    st = super().transfer(s, st)
                    for recv, (old, ld) in olds.items():
                        new = self.length(self.ev(ld, st), st)
                        st.vars['#trim:' + recv] = (old, new, s)
                    return st
            if isinstance(s, ast.AugAssign) and isinstance(s.target, ast.Attribute) \
                    and s.target.attr == 'pos' and isinstance(s.op, ast.Add):
                recv = unparse(s.target.value)
                d = self.as_int(self.ev(s.value, st), st)
                tr = st.vars.get('#trim:' + recv)
                if tr is not None and not isinstance(tr, (Int, Seq)):
                    old, new, node = tr
                    ok = d is not None and old is not None and new is not None \
                        and st.facts.prove_eq(d, old - new)
                    key = id(s)
                    results[key] = (s, ok and results.get(key, (None, True))[1], d, old, new)
                return super().transfer(s, st)
            return super().transfer(s, st)

        def join_val(self, a, b):
            if isinstance(a, tuple) or isinstance(b, tuple):
                return a if a == b else None
            return super().join_val(a, b)

    for q, fn in sorted(funcs.items()):
        ev = Ev(model, fn)
        try:
            ev.run(fn.body, State())
        except AnalysisError:
            raise
    for s, ok, d, old, new in results.values():
        if ok:
            r.ok(s, 'advance %r equals the number of characters removed (%r - %r)' % (d, old, new),
                 nontrivial=True)
        else:
            r.fail(s, 'the position is advanced by %r, but %s characters were removed from the '
                   'front of the text' % (d, '%r' % (old - new) if old is not None and new is not None else 'an unknown number of'),
                   witness='a multi-character token with text behind the first line break '
                           '(verbatim content) after a removed line')


def _block_of(stmt):
    p = stmt._parent
    for field in ('body', 'orelse', 'finalbody'):
        seq = getattr(p, field, None)
        if isinstance(seq, list) and stmt in seq:
            return seq
    return [stmt]


# --------------------------------------------------------------------------- PD5
SCRATCH = ('is_blank', 'can_start', 'can_end')


def pd5(model):
    r = RuleResult('PD5', 'a store to a semantic field (pos, pos_fix, txt, arg, environ, lang, '
                   'back, hard, brk, toks) of a non-self object happens only on an object owned '
                   'by the function: created by a constructor or copy.copy here, element of a '
                   'list of such, or result of a function with a verified fresh summary; a '
                   'function that writes to a parameter moves the obligation to its call sites',
                   floor=15)
    summ = Summaries(model)
    param_mut = {}      # func qname -> set of param indexes mutated
    stores = []
    for m in model.mods.values():
        if m.short.startswith('shell') and m.short != 'shell.addpacks':
            continue
        for n in ast.walk(m.tree):
            tg = None
            if isinstance(n, ast.Assign):
                tg = n.targets
            elif isinstance(n, ast.AugAssign):
                tg = [n.target]
            if not tg or n._fn is None:
                continue
            for t in tg:
                if isinstance(t, ast.Attribute) and t.attr in T.SEMANTIC_FIELDS \
                        and not (isinstance(t.value, ast.Name) and t.value.id == 'self'):
                    stores.append((n, t))
    for n, t in stores:
        fn = n._fn
        if isinstance(fn.node, ast.Lambda):
            r.fail(n, 'store in lambda')
            continue
        fl = summ.flow(fn)
        if fl.owned(t.value, n):
            r.ok(n, '%s is owned here (constructor / copy.copy / element of a fresh list)'
                 % unparse(t.value), nontrivial=True)
            continue
        # a parameter that is never re-bound: obligation moves to the call sites
        if isinstance(t.value, ast.Name) and t.value.id in fn.params:
            rd = reachdefs(fn)
            ds = rd.state_at(n).get(t.value.id, frozenset())
            if all(rd.deftab[i][0] == 'param' for i in ds):
                param_mut.setdefault(fn.qname, set()).add(fn.params.index(t.value.id))
                r.ok(n, 'parameter %s: ownership required at every call site' % t.value.id,
                     nontrivial=True, sample=False)
                continue
        r.fail(n, 'field %s of %s is written, but the object may be shared (macro body, '
               'glossary entry, argument token, default value): copy it first'
               % (t.attr, unparse(t.value)),
               witness='use the same macro / glossary entry / argument twice: the second use '
                       'changes what the first one produced')
    # call sites of parameter-mutating functions
    for q, idxs in sorted(param_mut.items()):
        f = model.func(q)
        off = 1 if f.cls is not None and f.params and f.params[0] == 'self' else 0
        sites = [c for m in model.mods.values() for c in ast.walk(m.tree)
                 if isinstance(c, ast.Call) and (model.resolve_call(c) or (None, None))[1] is f]
        if not sites:
            r.undec(f.node, 'function writes to a parameter but has no resolved call site')
        for c in sites:
            for i in idxs:
                ai = i - off
                if ai < 0 or ai >= len(c.args):
                    r.undec(c, 'argument %d not positional' % i)
                    continue
                arg = c.args[ai]
                cf = c._fn
                if cf is not None and not isinstance(cf.node, ast.Lambda) \
                        and summ.flow(cf).owned(arg, c):
                    r.ok(c, 'argument %s passed to %s is owned at the call' % (unparse(arg), f.name),
                         nontrivial=True)
                else:
                    r.fail(c, '%s writes to its parameter %s, but the argument %s may be shared'
                           % (f.name, f.params[i], unparse(arg)))
    return r


# --------------------------------------------------------------------------- PD8
LENGTHENING = {'upper', 'lower', 'title', 'capitalize', 'casefold', 'swapcase', 'expandtabs',
               'format', 'center', 'ljust', 'rjust', 'zfill'}


def _in_slice(x, stop):
    p = x
    while p is not None and p is not stop:
        q = getattr(p, '_parent', None)
        if isinstance(q, ast.Subscript) and q.slice is p:
            return True
        if isinstance(q, ast.Slice):
            return True
        p = q
    return False


def pd8(model):
    r = RuleResult('PD8', 'a store T.txt = E whose new text may be longer than the old one (Unicode '
                   'case mapping: "ß".upper() == "SS"; concatenation; padding) pins the token '
                   '(T.pos_fix = True in the same block) - otherwise the surplus characters are '
                   'spread over the following source positions', floor=2)
    for m in model.mods.values():
        if m.short.startswith('shell') or m.short in ('defs',):
            continue
        for n in ast.walk(m.tree):
            if not isinstance(n, ast.Assign):
                continue
            for t in n.targets:
                if not (isinstance(t, ast.Attribute) and t.attr == 'txt'):
                    continue
                if isinstance(t.value, ast.Name) and t.value.id == 'self':
                    continue
                v = n.value
                longer = None
                for x in ast.walk(v):
                    if isinstance(x, ast.Call) and isinstance(x.func, ast.Attribute) \
                            and x.func.attr in LENGTHENING:
                        longer = '.%s() can change the length of the text' % x.func.attr
                    if isinstance(x, ast.BinOp) and isinstance(x.op, (ast.Add, ast.Mult)) \
                            and not _in_slice(x, v):
                        longer = 'concatenation'
                    if isinstance(x, ast.Call) and T.call_name(x) == 'replace' and len(x.args) == 2 \
                            and all(isinstance(a, ast.Constant) for a in x.args) \
                            and len(x.args[1].value) > len(x.args[0].value):
                        longer = 'replace() by a longer string'
                if longer is None:
                    r.ok(n, 'new text is a part of the old text', sample=False)
                    continue
                recv = unparse(t.value)
                if _sibling_sets_posfix(n, recv):
                    r.ok(n, '%s: the token is pinned in the same block' % longer, nontrivial=True)
                else:
                    r.fail(n, 'the text of %s may get longer (%s) and the token is not pinned'
                           % (recv, longer),
                           witness='"ß" as the first / last character: upper() gives "SS"')
    return r
