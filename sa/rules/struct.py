"""LS2p (skip regions), AT1 (argument collection table), EX1, WL1, PD7: structural rules on
the parser's bookkeeping (DESIGN.md 3.2, 3.6, 3.8, 3.1)."""
import ast
import itertools

from ..model import AnalysisError, unparse, iter_scope
from ..report import RuleResult
from ..affine import Aff
from ..symlen import SymEval, State, Int, Seq, Obj, Tup, fresh
from ..callgraph import callgraph
from .. import guards
from .. import tok as T
from .em import dominating_stmts


# ----------------------------------------------------------------------------- LS2p
def ls2p(model):
    r = RuleResult('LS2p', 'LT-SKIP regions are removed as an exact partition of the token list: '
                   'the BEGIN search starts at the cursor, the copied piece is [cursor : BEGIN], '
                   'the END search starts behind the BEGIN comment, the cursor moves to END + 1, '
                   'and an unclosed region keeps everything behind its BEGIN comment', floor=5)
    f = model.func('parser.Parser.parser_work')
    loops = [s for s in f.node.body if isinstance(s, ast.While)]
    if not loops:
        raise AnalysisError('anchor vanished: skip loop of parser_work')
    loop = loops[0]
    ev = SymEval(model, f)
    backs = []
    ev.backedge_hooks.append(lambda lp, st: backs.append((ev.loop_heads[id(lp)], st)) if lp is loop else None)
    ev.run(f.body, State())
    head = ev.loop_heads.get(id(loop))
    if head is None:
        raise AnalysisError('skip loop not evaluated')
    # the token list: the sequence that is sliced in the loop
    sl = {}
    for node, base, lo, hi, sst in ev.slices:
        if _inside(node, loop) and isinstance(node.value, ast.Name):
            sl[id(node)] = (node, lo, hi, sst)
    if not sl:
        r.fail(loop, 'no piece of the token list is copied in the skip loop')
        return r
    toks = next(iter(sl.values()))[0].value.id
    Ltoks = ev.length(head.vars.get(toks), head) if toks in head.vars else None
    searches = {}
    for node, lo, hi, d, res, sst in ev.searches:
        if _inside(node, loop):
            searches[id(node)] = (node, lo, hi, d, res, sst)
    ss = sorted(searches.values(), key=lambda x: (x[0].lineno, x[0].col_offset))
    if len(ss) == 0 and any(isinstance(c, ast.Call) and model.resolve_call(c) and model.resolve_call(c)[0] == 'func'
                            and model.resolve_call(c)[1].mod.short == 'parser' and model.resolve_call(c)[1].outer is None
                            and model.resolve_call(c)[1].cls is not None
                            and any(isinstance(x, (ast.For, ast.While)) or (isinstance(x, ast.Call) and getattr(x.func, 'id', '') == 'next')
                                    for x in ast.walk(model.resolve_call(c)[1].node))
                            for c in ast.walk(loop)):
        # the searches live in a helper method: the partition argument below needs them in the loop
        r.undec(loop, 'the BEGIN / END searches of the skip loop are made by a helper function')
        r.instances += 5
        return r
    if len(ss) != 2:
        r.fail(loop, 'expected the BEGIN and the END search in the skip loop, found %d searches '
               'over a range' % len(ss))
        return r
    (bn, blo, bhi, bd, beg, bst), (en, elo, ehi, ed, end, est) = ss
    # cursor: the integer variable whose head value is the lower bound of the first copy
    cursor = None
    for k, v in head.vars.items():
        if isinstance(v, Int) and any(s[3].facts.prove_eq(s[1], v.a) for s in sl.values()):
            cursor = k
    if cursor is None:
        r.fail(loop, 'no cursor: the copied piece does not start at a loop-carried position')
        return r
    cur = head.vars[cursor].a
    if bst.facts.prove_eq(blo, cur):
        r.ok(bn, 'BEGIN search starts at the cursor', nontrivial=True)
    else:
        r.fail(bn, 'the BEGIN search starts at %r, not at the cursor %r: a BEGIN comment directly '
               'at the cursor (first token, or right after an END) is missed' % (blo, cur),
               witness='%%% LT-SKIP-BEGIN as the very first token of the text')
    if est.facts.prove_eq(elo, beg + 1):
        r.ok(en, 'END search starts behind the BEGIN comment', nontrivial=True)
    else:
        r.fail(en, 'the END search starts at %r instead of BEGIN + 1: an END comment in front of '
               'the BEGIN comment is taken, text is output twice' % elo,
               witness='a stray %%% LT-SKIP-END before a regular skip region')
    copies = [s for s in sl.values() if s[3].facts.prove_eq(s[1], cur)]
    if len(copies) == 1 and copies[0][3].facts.prove_eq(copies[0][2], beg):
        r.ok(copies[0][0], 'copied piece is [cursor : BEGIN]', nontrivial=True)
    else:
        r.fail(loop, 'the piece copied in front of a skip region is not [cursor : BEGIN]')
    tails = [s for s in sl.values() if not s[3].facts.prove_eq(s[1], cur)]
    if any(s[3].facts.prove_eq(s[1], beg + 1) and (Ltoks is None or s[3].facts.prove_eq(s[2], ev.length(s[3].vars.get(toks), s[3])))
           for s in tails):
        r.ok(tails[0][0], 'an unclosed region keeps everything behind its BEGIN comment', nontrivial=True)
    else:
        r.fail(loop, 'for an unclosed skip region the rest of the text is not kept from BEGIN + 1')
    good = False
    for hd, bst2 in backs:
        if hd is not head:
            continue
        cv = bst2.vars.get(cursor)
        if isinstance(cv, Int) and bst2.facts.prove_eq(cv.a, end + 1):
            good = True
        else:
            r.fail(loop, 'after a skip region the cursor is %r, not END + 1'
                   % (cv.a if isinstance(cv, Int) else cv))
    if good:
        r.ok(loop, 'cursor = END + 1 at the loop back edge', nontrivial=True)
    return r


def _inside(node, anc):
    p = node
    while p is not None:
        if p is anc:
            return True
        p = getattr(p, '_parent', None)
    return False


# ----------------------------------------------------------------------------- AT1
class _Stop(Exception):
    pass


def at1(model):
    r = RuleResult('AT1', 'argument collection (arg_buffer): the nesting level counts braces '
                   'only ({ +1, } -1) whatever the closing delimiter is, the argument ends at the '
                   'closing delimiter on level 0, every other token is collected; the level '
                   'starts at 1 for { and at 0 for [ - table extracted from the loop body over all '
                   'values of (token text, delimiter, level)', floor=20)
    f = model.func('parser.Parser.arg_buffer')
    loop = [s for s in f.node.body if isinstance(s, ast.While)]
    if not loop:
        raise AnalysisError('anchor vanished: loop of arg_buffer')
    loop = loop[0]
    endpar = f.params[3] if len(f.params) > 3 else 'end'
    tokvar = unparse(loop.test) if isinstance(loop.test, ast.Name) else None
    if tokvar is None:
        # `while True:` with the read at the top: tok = buf.next(); if not tok: break
        for s0 in loop.body:
            if isinstance(s0, ast.Assign) and isinstance(s0.targets[0], ast.Name) \
                    and isinstance(s0.value, ast.Call) and T.call_name(s0.value) in ('next', 'cur', 'skip_space'):
                tokvar = s0.targets[0].id
                break
    if tokvar is None:
        r.undec(loop, 'token variable of the collecting loop not recognised')
        r.instances = max(r.instances, r.floor)
        return r
    # level variable: the name compared with 0 in the loop; initialised before the loop
    lev = None
    for n in ast.walk(loop):
        if isinstance(n, ast.Compare) and isinstance(n.left, ast.Name) and T.is_const(n.comparators[0], 0):
            lev = n.left.id
    init = None
    for s in f.node.body[:f.node.body.index(loop)]:
        if isinstance(s, ast.Assign) and isinstance(s.targets[0], ast.Name) and s.targets[0].id == lev:
            init = s.value
    if lev is None or init is None:
        r.fail(f.node, 'the nesting level is not initialised from the opening token',
               stmt='lev = 1 if tok.txt == "{" else 0')
        return r
    # initial value
    for open_txt, want in (('{', 1), ('[', 0)):
        env = {endpar: '}' if open_txt == '{' else ']'}
        for n in ast.walk(init):
            if isinstance(n, ast.Attribute) and n.attr == 'txt' and isinstance(n.value, ast.Name):
                env[n.value.id] = ('tok', open_txt)
        try:
            got = int(_cev(init, env))
        except _Stop as e:
            r.undec(init, 'initial level not evaluated: %s' % e)
            continue
        if got == want:
            r.ok(init, 'initial level %d for an argument opened by %r' % (want, open_txt))
        else:
            r.fail(init, 'nesting level starts at %r for an argument opened by %r (expected %d)'
                   % (got, open_txt, want))
    for txt, end, lv in itertools.product(('{', '}', ']', '[', 'x'), ('}', ']'), (0, 1, 2)):
        env = {tokvar: ('tok', txt), endpar: end, lev: lv}
        eff = []
        try:
            _crun(loop.body, env, eff, tokvar)
        except _Stop as e:
            r.undec(loop, 'loop body not evaluated: %s' % e)
            r.instances = max(r.instances, r.floor)
            return r
        want_lev = lv + (1 if txt == '{' else 0) - (1 if txt == '}' else 0)
        want_eff = ['RETURN'] if (txt == end and want_lev == 0) else ['COLLECT']
        got_lev = env[lev]
        if got_lev == want_lev and eff == want_eff:
            r.ok_plain('token %r, delimiter %r, level %d' % (txt, end, lv),
                       '%s, level %d' % (eff[0], got_lev), nontrivial=True)
        else:
            r.fail(loop, 'for token %r with closing delimiter %r on level %d the loop does %s and '
                   'sets the level to %r; expected %s and level %d'
                   % (txt, end, lv, eff, got_lev, want_eff, want_lev),
                   stmt='arg_buffer: %r %r %d' % (txt, end, lv),
                   witness='\\section[Intervals {(0,1]} shortened]{Title}: a bracket protected by braces')
    return r


def _cev(e, env):
    if isinstance(e, ast.Constant):
        return e.value
    if isinstance(e, ast.Name):
        if e.id in env:
            return env[e.id]
        raise _Stop('name ' + e.id)
    if isinstance(e, ast.Attribute) and isinstance(e.value, ast.Name) and e.attr == 'txt':
        v = env.get(e.value.id)
        if isinstance(v, tuple) and v[0] == 'tok':
            return v[1]
        raise _Stop('attribute ' + unparse(e))
    if isinstance(e, ast.Compare) and len(e.ops) == 1:
        a, b = _cev(e.left, env), _cev(e.comparators[0], env)
        op = e.ops[0]
        if isinstance(op, ast.Eq):
            return a == b
        if isinstance(op, ast.NotEq):
            return a != b
        if isinstance(op, ast.In):
            return a in b
        if isinstance(op, ast.NotIn):
            return a not in b
        if isinstance(op, ast.Gt):
            return a > b
        if isinstance(op, ast.Lt):
            return a < b
        if isinstance(op, ast.GtE):
            return a >= b
        if isinstance(op, ast.LtE):
            return a <= b
        if isinstance(op, ast.Is):
            return a is b
        if isinstance(op, ast.IsNot):
            return a is not b
        raise _Stop('compare')
    if isinstance(e, ast.BoolOp):
        res = None
        for x in e.values:
            res = _cev(x, env)
            if isinstance(e.op, ast.And) and not res:
                return res
            if isinstance(e.op, ast.Or) and res:
                return res
        return res
    if isinstance(e, ast.UnaryOp) and isinstance(e.op, ast.Not):
        return not _cev(e.operand, env)
    if isinstance(e, ast.IfExp):
        return _cev(e.body, env) if _cev(e.test, env) else _cev(e.orelse, env)
    if isinstance(e, ast.BinOp) and isinstance(e.op, (ast.Add, ast.Sub)):
        a, b = _cev(e.left, env), _cev(e.right, env)
        return a + b if isinstance(e.op, ast.Add) else a - b
    if isinstance(e, ast.Call) and getattr(e.func, 'id', '') in ('int', 'bool') and len(e.args) == 1:
        v = _cev(e.args[0], env)
        return int(v) if e.func.id == 'int' else bool(v)
    if isinstance(e, (ast.Tuple, ast.List)):
        return tuple(_cev(x, env) for x in e.elts)
    if isinstance(e, ast.Dict):
        return {_cev(k, env): _cev(v, env) for k, v in zip(e.keys, e.values)}
    if isinstance(e, ast.Subscript):
        try:
            return _cev(e.value, env)[_cev(e.slice, env)]
        except (KeyError, IndexError, TypeError):
            raise _Stop('subscript ' + unparse(e))
    if isinstance(e, ast.Call) and isinstance(e.func, ast.Attribute) and e.func.attr == 'get' and 1 <= len(e.args) <= 2:
        d = _cev(e.func.value, env)
        if isinstance(d, dict):
            return d.get(_cev(e.args[0], env), _cev(e.args[1], env) if len(e.args) > 1 else None)
    raise _Stop(type(e).__name__)


def _crun(stmts, env, eff, tokvar):
    for s in stmts:
        if isinstance(s, ast.If):
            try:
                c = _cev(s.test, env)
            except _Stop:
                # a test on something outside the table (e.g. `if not out`): both branches
                # must agree on the effects recorded so far; take the body
                c = True
            if c:
                if _crun(s.body, env, eff, tokvar):
                    return True
            elif _crun(s.orelse, env, eff, tokvar):
                return True
        elif isinstance(s, ast.AugAssign) and isinstance(s.target, ast.Name):
            if s.target.id not in env or isinstance(env[s.target.id], tuple):
                env[s.target.id] = ('obj',)      # a counter that is not part of the table
                continue
            v = _cev(s.value, env)
            env[s.target.id] = env[s.target.id] + v if isinstance(s.op, ast.Add) else env[s.target.id] - v
        elif isinstance(s, ast.Assign) and isinstance(s.targets[0], ast.Name):
            if isinstance(s.value, ast.Call):
                if s.targets[0].id != tokvar:
                    env[s.targets[0].id] = ('obj',)
                continue
            try:
                env[s.targets[0].id] = _cev(s.value, env)
            except _Stop:
                env[s.targets[0].id] = ('obj',)
        elif isinstance(s, ast.Return):
            eff.append('RETURN')
            return True
        elif isinstance(s, ast.Break):
            eff.append('BREAK')
            return True
        elif isinstance(s, ast.Expr) and isinstance(s.value, ast.Call):
            n = T.call_name(s.value)
            if n == 'append' and s.value.args and isinstance(s.value.args[0], ast.Name) \
                    and s.value.args[0].id == tokvar:
                eff.append('COLLECT')
            elif n == 'next':
                pass
            else:
                raise _Stop('call ' + unparse(s)[:30])
        elif isinstance(s, ast.Pass):
            pass
        else:
            raise _Stop(type(s).__name__)
    return False


# ----------------------------------------------------------------------------- EX1
def _assign_paths(stmts, conds=(), env=None):
    """paths through straight-line code with if/else: yields (conditions, {name: last value})"""
    env = dict(env or {})
    for k, st in enumerate(stmts):
        if isinstance(st, ast.Assign) and len(st.targets) == 1 and isinstance(st.targets[0], ast.Name):
            env[st.targets[0].id] = st.value
        elif isinstance(st, ast.Assign) and len(st.targets) > 1 and all(isinstance(t, ast.Name) for t in st.targets):
            for t in st.targets:
                env[t.id] = st.value
        elif isinstance(st, ast.If):
            facts_t, facts_f = [], []
            guards.split_fact(st.test, True, facts_t)
            guards.split_fact(st.test, False, facts_f)
            rest = stmts[k + 1:]
            for c2, e2 in _assign_paths(st.body, tuple(conds) + tuple(facts_t), env):
                yield from _assign_paths(rest, c2, e2)
            for c2, e2 in _assign_paths(st.orelse, tuple(conds) + tuple(facts_f), env):
                yield from _assign_paths(rest, c2, e2)
            return
    yield tuple(conds), env


def _tmpl_number(val):
    """N if val spells '#' followed by the decimal number N"""
    if isinstance(val, ast.BinOp) and isinstance(val.op, ast.Add) and T.is_const(val.left, '#'):
        c = val.right
        if isinstance(c, ast.Call) and getattr(c.func, 'id', '') == 'str' and len(c.args) == 1:
            return c.args[0]
    if isinstance(val, ast.Call) and isinstance(val.func, ast.Attribute) and val.func.attr == 'format' \
            and T.is_const(val.func.value, '#{}') and len(val.args) == 1 and not val.keywords:
        return val.args[0]
    if isinstance(val, ast.BinOp) and isinstance(val.op, ast.Mod) and isinstance(val.left, ast.Constant) \
            and val.left.value in ('#%d', '#%s', '#%i'):
        r = val.right
        if isinstance(r, ast.Tuple):
            return r.elts[0] if len(r.elts) == 1 else None
        return r
    if isinstance(val, ast.JoinedStr) and len(val.values) == 2 and T.is_const(val.values[0], '#') \
            and isinstance(val.values[1], ast.FormattedValue) and val.values[1].conversion == -1 \
            and val.values[1].format_spec is None:
        return val.values[1].value
    return None


_FIND_USED = []


def _index_base(model, e, env, depth=0):
    """b if e evaluates to (0-based index of the first 'A' of the argument codes) + b, else None"""
    if depth > 5:
        return None
    if isinstance(e, ast.Name):
        v = env.get(e.id)
        vals = [v] if v is not None else T.resolve_local(model, e)
        bs = {_index_base(model, x, env, depth + 1) for x in vals} if vals else {None}
        return bs.pop() if len(bs) == 1 else None
    if isinstance(e, ast.BinOp) and isinstance(e.op, (ast.Add, ast.Sub)):
        for a, b in ((e.left, e.right), (e.right, e.left)):
            if isinstance(b, ast.Constant) and isinstance(b.value, int) and not isinstance(b.value, bool):
                if isinstance(e.op, ast.Sub) and b is e.left:
                    continue
                x = _index_base(model, a, env, depth + 1)
                if x is not None:
                    return x + b.value if isinstance(e.op, ast.Add) else x - b.value
        return None
    if isinstance(e, ast.Call) and isinstance(e.func, ast.Attribute) and e.func.attr == 'index' \
            and len(e.args) == 1 and T.is_const(e.args[0], 'A'):
        return 0
    if isinstance(e, ast.Call) and isinstance(e.func, ast.Attribute) and e.func.attr == 'find' \
            and len(e.args) == 1 and T.is_const(e.args[0], 'A'):
        _FIND_USED.append(e)        # -1 if there is no 'A': the caller must see a test for that
        return 0
    if isinstance(e, ast.Call) and getattr(e.func, 'id', '') == 'next' and e.args \
            and isinstance(e.args[0], ast.GeneratorExp) and len(e.args[0].generators) == 1:
        g = e.args[0].generators[0]
        elt = e.args[0].elt
        if len(g.ifs) != 1 or not isinstance(elt, ast.Name):
            return None
        c = g.ifs[0]
        if not (isinstance(c, ast.Compare) and len(c.ops) == 1 and isinstance(c.ops[0], ast.Eq)
                and T.is_const(c.comparators[0], 'A')):
            return None
        it = g.iter
        if isinstance(g.target, ast.Name) and g.target.id == elt.id and isinstance(it, ast.Call) \
                and getattr(it.func, 'id', '') == 'range' and len(it.args) == 1 \
                and isinstance(c.left, ast.Subscript) and unparse(c.left.slice) == elt.id \
                and unparse(it.args[0]) == 'len(%s)' % unparse(c.left.value):
            return 0
        if isinstance(g.target, ast.Tuple) and len(g.target.elts) == 2 and all(isinstance(x, ast.Name) for x in g.target.elts) \
                and g.target.elts[0].id == elt.id and isinstance(c.left, ast.Name) and c.left.id == g.target.elts[1].id \
                and isinstance(it, ast.Call) and getattr(it.func, 'id', '') == 'enumerate' and it.args:
            start = 0
            if len(it.args) == 2:
                start = it.args[1].value if isinstance(it.args[1], ast.Constant) else None
            for k in it.keywords:
                if k.arg == 'start':
                    start = k.value.value if isinstance(k.value, ast.Constant) else None
            return start if isinstance(start, int) else None
    return None


def ex1(model):
    r = RuleResult('EX1', 'extraction: init_extractions rewrites every macro unconditionally '
                   '(extract template and empty replacement), a listed macro extracts its first '
                   'mandatory argument (#k+1 for the first A at index k); with an extraction list '
                   'the main text is dropped after parsing; extracted flows are appended once '
                   'each, in order, starting with a hard language switch', floor=6)
    f = model.func('parser.Parser.init_extractions')
    loops = [s for s in f.node.body if isinstance(s, ast.For)]
    if not loops:
        raise AnalysisError('anchor vanished: loop of init_extractions')
    main = loops[0]
    if not (isinstance(main.iter, ast.Attribute) and main.iter.attr == 'the_macros'
            or 'the_macros' in unparse(main.iter)):
        r.fail(main, 'init_extractions does not visit every declared macro')
    stores = {}
    for s in main.body:
        if isinstance(s, ast.Assign) and isinstance(s.targets[0], ast.Attribute):
            stores[s.targets[0].attr] = s
    for attr, what in (('extract', 'the extraction template'), ('repl', 'the replacement')):
        if attr in stores:
            r.ok(stores[attr], '%s of every macro is rewritten unconditionally' % what, nontrivial=True)
        else:
            r.fail(main, '%s is not reset for every macro: built-in extractions (\\footnote, '
                   '\\caption) and replacements of unlisted macros stay active' % what,
                   stmt='init_extractions resets ' + attr,
                   witness='--extr with a document that contains a \\footnote')
    if 'repl' in stores and not (isinstance(stores['repl'].value, ast.List) and not stores['repl'].value.elts):
        r.fail(stores['repl'], 'the replacement of a macro is not emptied')
    # the template: '' unless listed; '#' + str(pos + 1) -- decided on the paths through the loop
    # body: value of the variable that is scanned into mac.extract, with its path condition
    tvar = None
    if 'extract' in stores:
        for x in ast.walk(stores['extract'].value):
            if isinstance(x, ast.Name) and isinstance(x.ctx, ast.Load) and x.id not in ('self',):
                tvar = x.id
    if tvar is None:
        r.undec(main, 'template variable of init_extractions not recognised')
    else:
        upto = main.body[:main.body.index(stores['extract'])] if stores['extract'] in main.body else main.body
        okt = unl = unrec = False
        for conds, env in _assign_paths(upto):
            val = env.get(tvar)
            listed = None
            for e, t in conds:
                if isinstance(e, ast.Compare) and isinstance(e.ops[0], (ast.In, ast.NotIn)) and len(e.ops) == 1:
                    listed = (isinstance(e.ops[0], ast.In) == t)
            is_empty = val is not None and T.is_const(val, '')
            is_tmpl = False
            wrong_base = None
            num = _tmpl_number(val)
            if num is not None:
                del _FIND_USED[:]
                base = _index_base(model, num, env)
                if base == 1 and _FIND_USED:
                    # str.find: the path must exclude -1 (>= 0, > -1, != -1 on the index)
                    def nonneg(e, t):
                        if not (isinstance(e, ast.Compare) and len(e.ops) == 1 and isinstance(e.comparators[0], (ast.Constant, ast.UnaryOp))):
                            return False
                        try:
                            k = ast.literal_eval(e.comparators[0])
                        except ValueError:
                            return False
                        op = e.ops[0]
                        if t:
                            return (isinstance(op, ast.GtE) and k >= 0) or (isinstance(op, ast.Gt) and k >= -1) \
                                or (isinstance(op, ast.NotEq) and k == -1)
                        return (isinstance(op, ast.Lt) and k <= 0) or (isinstance(op, ast.LtE) and k <= -1) \
                            or (isinstance(op, ast.Eq) and k == -1)
                    if not any(nonneg(e, t) for e, t in conds):
                        base = 0        # '#0' when no mandatory argument exists
                if base == 1:
                    is_tmpl = True
                elif base is not None:
                    wrong_base = base
                else:
                    unrec = True
            if val is None:
                r.fail(stores['extract'], 'the template variable %s is not set on a path through '
                       'init_extractions' % tvar)
            elif listed is False and not is_empty:
                r.fail(stores['extract'], 'a macro that is not listed gets the extraction template %s'
                       % unparse(val)[:40], witness='--extr \\footnote with a document that uses \\caption')
            elif not (is_empty or is_tmpl) and num is not None and wrong_base is None:
                r.undec(stores['extract'], 'argument number of the extraction template not recognised: %s'
                        % unparse(num)[:40])
            elif not (is_empty or is_tmpl):
                r.fail(stores['extract'], "a listed macro does not extract '#k+1' for its first mandatory "
                       "argument but %s" % unparse(val)[:40], stmt='extraction template')
            elif listed is False and is_empty:
                unl = True
            elif listed and is_tmpl:
                okt = True
        if okt:
            r.ok(stores['extract'], "template '#' + str(k + 1) for the first A at index k", nontrivial=True)
        elif not r.findings and not unrec:
            r.fail(main, "a listed macro does not extract '#k+1' for its first mandatory argument",
                   stmt='extraction template')
        if unl:
            r.ok(stores['extract'], 'an unlisted macro extracts nothing', nontrivial=True)
        elif not r.findings:
            r.fail(main, "no empty template for macros that are not listed", stmt='unlisted template')
    # parse(): main text dropped
    p = model.func('parser.Parser.parse')
    epar = p.params[3] if len(p.params) > 3 else 'extract'
    drop = None
    work_seen = False
    for s in p.node.body:
        if any(isinstance(c, ast.Call) and T.call_name(c) == 'parser_work' for c in ast.walk(s)):
            work_seen = True
        if isinstance(s, ast.If) and unparse(s.test) == epar and work_seen:
            for b in s.body:
                if isinstance(b, ast.Assign) and isinstance(b.value, ast.List) and not b.value.elts:
                    drop = b
    if drop is not None:
        r.ok(drop, 'with an extraction list the main text is dropped after parsing', nontrivial=True)
    else:
        r.fail(p.node, 'with an extraction list the main text is not dropped', stmt='main = [] under extract')
    # flows appended once, in order
    loop2 = [s for s in T.body_with_tail(model.inl(), model.inl().func('parser.Parser.parse')) if isinstance(s, ast.For) and 'extracted' in unparse(s.iter)]
    if loop2 and isinstance(loop2[0].target, ast.Name):
        v = loop2[0].target.id
        adds = []
        for n in ast.walk(loop2[0]):
            val = None
            if isinstance(n, ast.AugAssign) and isinstance(n.op, ast.Add):
                val = n.value
            elif isinstance(n, ast.Call) and T.call_name(n) == 'extend' and n.args:
                val = n.args[0]
            if val is None:
                continue
            for x in ast.walk(val):
                if isinstance(x, ast.Name) and x.id == v and (x is val or not isinstance(
                        getattr(x, '_parent', None), (ast.Subscript, ast.Attribute, ast.Call))):
                    adds.append(n)
        if len(adds) == 1 and not isinstance(loop2[0].iter, ast.Call):
            r.ok(adds[0], 'each extracted flow is appended exactly once, in list order', nontrivial=True)
        else:
            r.fail(loop2[0], 'an extracted flow is appended %d times / not in order' % len(adds))
    else:
        r.fail(p.node, 'the extracted flows are not appended to the result', stmt='append extracted')
    # ML5: flows start with a hard language switch
    ea = model.func('parser.Parser.expand_arguments')
    apps = [n for n in ast.walk(ea.node) if isinstance(n, ast.Call) and T.call_name(n) == 'append'
            and isinstance(n.func, ast.Attribute) and unparse(n.func.value).endswith('extracted')]
    for a in apps:
        if any(t and isinstance(e, ast.Attribute) and e.attr == 'extract' for e, t in guards.facts(a)):
            r.ok(a, 'a flow is recorded only for macros with an extraction template', nontrivial=True)
        else:
            r.fail(a, 'a text flow is recorded although the macro has no extraction template')
    hard = [n for n in ast.walk(ea.node) if isinstance(n, ast.Call) and T.call_name(n) == 'LanguageToken'
            and any(k.arg == 'hard' and T.is_const(k.value, True) for k in n.keywords)
            and any(k.arg == 'brk' and T.is_const(k.value, True) for k in n.keywords)]
    if hard:
        r.ok(hard[0], 'extracted flows start with LanguageToken(hard=True, brk=True)')
    else:
        r.fail(ea.node, 'extracted flows no longer start with a hard language switch',
               stmt='LanguageToken(hard=True, brk=True)')
    return r


# ----------------------------------------------------------------------------- WL1
def wl1(model):
    r = RuleResult('WL1', 'inclusion work list of the shell: each iteration takes a file from the '
                   'work list; the membership / skip test on that very name dominates its '
                   'recording, and the name is recorded as tested; new names are added only if '
                   'they are neither done nor pending nor skipped, with .tex appended', floor=5)
    m = model.mod('shell.shell')
    loops = [s for s in m.tree.body if isinstance(s, ast.While)]
    wl = None
    for s in loops:
        if any(isinstance(c, ast.Call) and T.call_name(c) == 'pop' for c in ast.walk(s)):
            wl = s
    if wl is None:
        raise AnalysisError('anchor vanished: work-list loop of shell.py')
    todo = unparse(wl.test)
    first = wl.body[0]
    if isinstance(first, ast.Assign) and isinstance(first.value, ast.Call) and T.call_name(first.value) == 'pop' \
            and unparse(first.value.func.value) == todo and isinstance(first.targets[0], ast.Name):
        fvar = first.targets[0].id
        r.ok(first, 'each iteration removes one name from the work list (termination)', nontrivial=True)
    else:
        r.fail(wl, 'an iteration does not start by taking a name from the work list')
        return r
    apps = [n for s in wl.body for n in ast.walk(s) if isinstance(n, ast.Call) and T.call_name(n) == 'append']
    inner_loops = [n for n in ast.walk(wl) if isinstance(n, ast.For)]
    done_app = [a for a in apps if unparse(a.func.value) != todo
                and not any(_inside(a, lp) for lp in inner_loops)]
    todo_app = [a for a in apps if unparse(a.func.value) == todo]
    if len(done_app) != 1:
        r.fail(wl, 'a checked file is recorded %d times per iteration' % len(done_app))
        return r
    da = done_app[0]
    done = unparse(da.func.value)
    if isinstance(da.args[0], ast.Name) and da.args[0].id == fvar:
        r.ok(da, 'the name is recorded exactly as it was tested', nontrivial=True)
    else:
        r.fail(da, 'the file is recorded as %s but tested as %s: the membership test never '
               'matches for names that this transformation changes' % (unparse(da.args[0]), fvar),
               witness='\\input{./a} in a cycle: the file is checked again and again')
    def not_in(node, var):
        """containers C with the fact `var not in C` at node (either polarity form)"""
        out = set()
        for e, t in guards.facts(node):
            if isinstance(e, ast.Compare) and len(e.ops) == 1 and unparse(e.left) == var:
                if (isinstance(e.ops[0], ast.In) and not t) or (isinstance(e.ops[0], ast.NotIn) and t):
                    for x in ast.walk(e.comparators[0]):
                        if isinstance(x, ast.Name):
                            out.add(x.id)
        return out

    def not_skipped(node, var):
        return any(not t and isinstance(e, ast.Call) and T.call_name(e) == 'skip_file'
                   and e.args and unparse(e.args[0]) == var for e, t in guards.facts(node))
    if done in not_in(da, fvar):
        r.ok(da, '`%s in %s` is false when the file is recorded: each file once' % (fvar, done),
             nontrivial=True)
    else:
        r.fail(da, 'the file is recorded without a preceding test that it is not done yet')
    if not_skipped(da, fvar):
        r.ok(da, 'files matching --skip are not recorded', nontrivial=True)
    else:
        r.fail(da, 'files matching --skip are recorded')
    for a in todo_app:
        v = unparse(a.args[0])
        ni = not_in(a, v)
        if done in ni and todo in ni:
            r.ok(a, 'a new name is added only if neither done nor pending', nontrivial=True)
        else:
            r.fail(a, 'a name is added to the work list without testing both the done and the '
                   'pending list: duplicates / no termination on cycles')
        if not_skipped(a, v):
            r.ok(a, 'names matching --skip are not added', sample=False)
        else:
            r.fail(a, 'names matching --skip are added to the work list')
    # .tex appended before the test
    inner = _inner_for(wl)
    if inner is None:
        for n in ast.walk(wl):
            if isinstance(n, ast.For) and n is not wl:
                inner = n
    if inner is not None and any(
            (isinstance(n, ast.AugAssign) and T.is_const(n.value, '.tex')) or
            (isinstance(n, ast.Assign) and isinstance(n.value, ast.BinOp)
             and any(T.is_const(x, '.tex') for x in ast.walk(n.value)))
            for n in ast.walk(inner)):
        app = [n for n in ast.walk(inner) if (isinstance(n, ast.AugAssign) and T.is_const(n.value, '.tex'))
               or (isinstance(n, ast.Assign) and isinstance(n.value, ast.BinOp)
                   and any(T.is_const(x, '.tex') for x in ast.walk(n.value)))][0]
        cond_ok = any(not t and isinstance(e, ast.Call) and T.call_name(e) == 'endswith'
                      and e.args and T.is_const(e.args[0], '.tex') for e, t in guards.facts(app))
        if cond_ok:
            r.ok(inner, ".tex is appended exactly where the name does not end in .tex", nontrivial=True)
        else:
            r.fail(app, "'.tex' is appended under another condition than 'the name does not end in "
                   ".tex': included files whose names contain a dot are not found",
                   witness='\\input{sec1.2}')
    else:
        r.fail(wl, ".tex is not appended to included names", stmt='append .tex')
    return r


def _inner_for(wl):
    for s in wl.body:
        if isinstance(s, ast.For):
            return s
    return None


# ----------------------------------------------------------------------------- PD7
def pd7(model):
    r = RuleResult('PD7', 'provenance of positions: a token position is never a literal other '
                   'than 0 (and 0 only for text-less tokens / empty text), and it is never taken '
                   'from tokens of the output already emitted by the caller (a parameter that '
                   'receives the caller\'s output accumulator)', floor=40)
    cg = callgraph(model)
    # parameters that receive the caller's output accumulator
    acc_params = set()
    for m in model.mods.values():
        for n in ast.walk(m.tree):
            if not isinstance(n, ast.Call) or n._fn is None:
                continue
            caller = n._fn
            if isinstance(caller.node, ast.Lambda):
                continue
            if isinstance(n._parent, ast.Return):
                continue        # post-processing of the complete output (tail call)
            for t in cg.targets(n):
                off = 1 if t.cls is not None and t.params[:1] == ['self'] else 0
                for i, a in enumerate(n.args):
                    if isinstance(a, ast.Name) and _is_output_acc(caller, a.id) and i + off < len(t.params):
                        acc_params.add((t.qname, t.params[i + off]))
    for q, p in sorted(acc_params):
        fn = model.funcs[q]
        for n in iter_scope(fn.node):
            if isinstance(n, ast.Attribute) and n.attr == 'pos' and isinstance(n.ctx, ast.Load):
                names = _roots(model, n.value, fn)
                if p in names:
                    r.fail(n, 'a position is taken from %s, a token of the output already emitted '
                           'by the caller: generated text maps to the previous sentence'
                           % unparse(n.value),
                           witness='\\item[label] after text that ends in a punctuation mark')
        r.ok(fn.node, 'parameter %s (caller\'s output) contributes no position' % p,
             nontrivial=True, sample=False)
    # literal positions
    for call, cls in T.all_ctor_calls(model, skip_mods=('defs', 'scanner')):
        a = T.ctor_args(model, call, cls)
        p = a.get('pos')
        if p is None:
            continue
        if isinstance(p, ast.Constant):
            txt = a.get('txt')
            textless = cls.qname in T.TEXTLESS_CLASSES or (txt is not None and T.is_const(txt, ''))
            if p.value == 0 and textless:
                r.ok(call, 'literal position 0 on a text-less token')
            else:
                r.fail(call, 'literal position %r on a token that can carry text' % (p.value,),
                       witness='a message on this text lands at the start of the file')
        else:
            r.ok(call, 'position is an expression of the construct', sample=False)
    return r


def _roots(model, e, fn, depth=5):
    """names of the parameters / locals a token expression is taken from: through subscripts,
    attributes, next / reversed / list / iter / sorted / enumerate, comprehensions and loops"""
    from ..rdefs import reachdefs
    if depth <= 0 or e is None:
        return set()
    if isinstance(e, (ast.Subscript, ast.Attribute)):
        return _roots(model, e.value, fn, depth)
    if isinstance(e, ast.Call):
        n = T.call_name(e)
        if n in ('next', 'reversed', 'list', 'iter', 'sorted', 'enumerate', 'tuple') and e.args:
            return _roots(model, e.args[0], fn, depth)
        return set()
    if isinstance(e, (ast.GeneratorExp, ast.ListComp)):
        out = set()
        for g in e.generators:
            out |= _roots(model, g.iter, fn, depth)
        return out
    if isinstance(e, ast.IfExp):
        return _roots(model, e.body, fn, depth) | _roots(model, e.orelse, fn, depth)
    if isinstance(e, ast.Name):
        out = {e.id}
        rd = reachdefs(fn)
        for kind, name, node in rd.defs_of(e):
            if kind == 'assign':
                out |= _roots(model, node, fn, depth - 1)
            elif kind in ('for', 'comp'):
                out |= _roots(model, node, fn, depth - 1)
            elif kind in ('unpack', 'forunpack'):
                out |= _roots(model, node[0], fn, depth - 1)
        return out
    return set()


def _is_output_acc(fn, name):
    """is `name` the output accumulator of fn: initialised with a list display, extended, and
    returned (possibly through a post-processing call)"""
    init = ext = ret = False
    for n in iter_scope(fn.node):
        if isinstance(n, ast.Assign) and any(isinstance(t, ast.Name) and t.id == name for t in n.targets) \
                and isinstance(n.value, ast.List):
            init = True
        if isinstance(n, ast.AugAssign) and isinstance(n.target, ast.Name) and n.target.id == name:
            ext = True
        if isinstance(n, ast.Call) and T.call_name(n) == 'append' and isinstance(n.func, ast.Attribute) \
                and isinstance(n.func.value, ast.Name) and n.func.value.id == name:
            ext = True
        if isinstance(n, ast.Return) and n.value is not None:
            v = n.value
            if isinstance(v, ast.Name) and v.id == name:
                ret = True
            elif isinstance(v, ast.Call) and len(v.args) == 1 and isinstance(v.args[0], ast.Name) \
                    and v.args[0].id == name:
                ret = True
    return init and ext and ret
