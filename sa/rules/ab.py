"""AB1-AB4, LS2/LS3 for substitute: affine bounds (DESIGN.md 3.2)."""
import ast

from ..model import AnalysisError, unparse, iter_scope
from ..report import RuleResult
from ..affine import Aff, Facts
from ..symlen import SymEval, Seq, Tup, Int, Obj, State, Match, fresh
from .. import tok as T
from .em import latex_error_calls, dominating_stmts
from .ls import PairEval


def _param_state(func, facts_fn):
    st = State()
    return st


def ab1(model):
    r = RuleResult('AB1', 'latex_error: every token with non-empty text is placed at a position '
                   'in [0, len(latex)-1] (preconditions 0 <= pos <= len(latex), len(latex) >= 1); '
                   'every caller passes the text its position refers to; Parser.parser_work '
                   'restores self.latex on every exit', floor=20)
    f = model.func('utils.latex_error')
    if len(f.params) < 3:
        raise AnalysisError('anchor vanished: signature of latex_error')
    ev = SymEval(model, f)
    st = State()
    p_pos, p_latex = f.params[1], f.params[2]
    pos = Aff.atom(('int', 'pos'))
    L = Aff.atom(('len', 'latex'))
    st.vars[p_pos] = Int(pos)
    st.vars[p_latex] = Seq(L, 'str')
    st.facts = st.facts.add(pos, L - pos, L - 1)
    ev.run(f.body, st)
    n = 0
    for call, rr, args, kws, cst in ev.call_log:
        cls = T.token_ctor(model, call)
        if cls is None or cls.qname not in T.OUTPUT_CLASSES:
            continue
        a = T.ctor_args(model, call, cls)
        pv = ev.as_int(ev.ev(a['pos'], cst), cst)
        tv = ev.length(ev.ev(a['txt'], cst), cst)
        n += 1
        if pv is None or tv is None:
            r.fail(call, 'position or text length of the mark token is not an affine term')
            continue
        facts = cst.facts.add(tv - 1)       # the text is non-empty
        lo = facts.prove_ge0(pv)
        hi = facts.prove_ge0(L - 1 - pv)
        if lo and hi:
            r.ok(call, 'text non-empty (len = %r) implies 0 <= %r <= len(latex)-1' % (tv, pv),
                 nontrivial=True)
        else:
            r.fail(call, 'mark token with text of length %r at position %r may lie %s the text'
                   % (tv, pv, 'before' if not lo else 'beyond'),
                   witness='a fault in the last len(mark) characters of the text')
    if n == 0:
        raise AnalysisError('anchor vanished: latex_error builds no tokens')
    # the complete mark is emitted: the text slices tile the mark
    # callers: third argument is the current text
    for c in latex_error_calls(model):
        if len(c.args) < 3:
            r.undec(c, 'latex_error called with keywords')
            continue
        a = c.args[2]
        if _is_latex_expr(model, a, c._fn, set()):
            r.ok(c, 'passes the text the position refers to (%s)' % unparse(a),
                 nontrivial=not isinstance(a, ast.Attribute))
        else:
            r.fail(c, 'third argument %s is not the text the position refers to' % unparse(a))
    # save / restore of self.latex
    pw = model.func('parser.Parser.parser_work')
    save = None
    for s in pw.node.body:
        if isinstance(s, ast.Assign) and isinstance(s.value, ast.Attribute) \
                and unparse(s.value) == 'self.latex' and isinstance(s.targets[0], ast.Name):
            save = s.targets[0].id
    if save is None:
        r.fail(pw.node, 'parser_work no longer saves self.latex for nested calls')
    else:
        for n2 in iter_scope(pw.node):
            if isinstance(n2, ast.Return):
                doms = dominating_stmts(n2)
                if any(isinstance(d, ast.Assign) and unparse(d.targets[0]) == 'self.latex'
                       and isinstance(d.value, ast.Name) and d.value.id == save for d in doms):
                    r.ok(n2, 'self.latex is restored before the return', nontrivial=True)
                else:
                    # returns before the save statement are fine
                    before_save = not any(isinstance(d, ast.Assign) and isinstance(d.targets[0], ast.Name)
                                          and d.targets[0].id == save for d in doms)
                    if before_save:
                        r.ok(n2, 'return before self.latex is changed')
                    else:
                        r.fail(n2, 'parser_work returns without restoring self.latex: later '
                               'diagnostics and marks are computed against the wrong text',
                               witness='\\LTinput of an empty file, then a fault later in the document')
    return r


def _is_latex_expr(model, a, fn, seen):
    """does the expression denote the text currently being parsed / scanned: X.latex, a local
    alias of it, a name that the function also stores into self.latex, or a parameter that
    receives such a value at every call site"""
    from ..callgraph import callgraph
    if isinstance(a, ast.Attribute) and a.attr == 'latex':
        return True
    if not isinstance(a, ast.Name) or fn is None:
        return False
    g = fn
    while g is not None and a.id not in g.local_names():
        g = g.outer
    if g is None:
        return False
    if (g.qname, a.id) in seen:
        return True
    seen.add((g.qname, a.id))
    # stored into self.latex in the same function: it is the current text
    for n in iter_scope(g.node):
        if isinstance(n, ast.Assign) and any(isinstance(t, ast.Attribute) and t.attr == 'latex'
                                             for t in n.targets) \
                and isinstance(n.value, ast.Name) and n.value.id == a.id:
            return True
    if a.id in g.params:
        cg = callgraph(model)
        idx = g.params.index(a.id)
        off = 1 if g.cls is not None and g.params[:1] == ['self'] else 0
        sites = cg.callers.get(g.qname, [])
        if not sites:
            return False
        for c in sites:
            ai = idx - off
            if ai < 0 or ai >= len(c.args) or not _is_latex_expr(model, c.args[ai], c._fn, seen):
                return False
        return True
    vals = [n.value for n in iter_scope(g.node) if isinstance(n, ast.Assign)
            and any(isinstance(t, ast.Name) and t.id == a.id for t in n.targets)]
    return bool(vals) and all(_is_latex_expr(model, v, g, seen) for v in vals)


def ab2(model):
    r = RuleResult('AB2', 'reported locations are clamped into the character map: every index '
                   'used on charmap in map_match_position lies in [0, len(charmap)-1] (for a '
                   'non-empty map); run_proofreader_options and generate_html reject '
                   'out-of-range offsets before indexing', floor=4)
    f = model.func('shell.utils.map_match_position')
    if len(f.params) < 3:
        raise AnalysisError('anchor vanished: signature of map_match_position')
    ev = SymEval(model, f)
    st = State()
    L = Aff.atom(('len', 'charmap'))
    st.vars[f.params[2]] = Seq(L, 'list')
    st.facts = st.facts.add(L - 1)
    ev.run(f.body, st)
    n = 0
    for node, Ln, idx, ist in ev.indexes.values():
        if not (isinstance(node.value, ast.Name) and node.value.id == f.params[2]):
            continue
        n += 1
        if ist.facts.prove_ge0(idx) and ist.facts.prove_ge0(Ln - 1 - idx):
            r.ok(node, 'index %r proved inside [0, len(charmap)-1] (min/max clamp, case split)' % idx,
                 nontrivial=True)
        else:
            r.fail(node, 'index %s into the character map is not clamped to [0, len-1]' % unparse(node.slice),
                   witness='a match at the last character / with an offset outside the text')
    if n == 0:
        raise AnalysisError('anchor vanished: map_match_position no longer indexes the map')
    # range checks before indexing (abort idiom)
    from .ok import sort_key_function
    kf = sort_key_function(model)
    outer = model.func('shell.proofreader.run_proofreader_options')
    accmap = None
    for n in iter_scope(outer.node):
        if isinstance(n, ast.Return) and isinstance(n.value, ast.Tuple) and len(n.value.elts) == 4 \
                and isinstance(n.value.elts[2], ast.Name):
            accmap = n.value.elts[2].id
    gh = model.func('shell.genhtml.generate_html')
    targets = [(gh, gh.params[1])]
    if kf is not None and accmap:
        targets.insert(0, (kf, accmap))
    else:
        r.undec(outer.node, 'sort key function of the result not found')
    for g, mapname in targets:
        ev = SymEval(model, g)
        st = State()
        Lm = Aff.atom(('len', mapname))
        st.vars[mapname] = Seq(Lm, 'list')
        ev.run(g.body, st)
        k = 0
        for node, Ln, idx, ist in ev.indexes.values():
            if not (isinstance(node.value, ast.Name) and node.value.id == mapname):
                continue
            k += 1
            if ist.facts.prove_ge0(idx) and ist.facts.prove_ge0(Ln - 1 - idx):
                r.ok(node, 'index %r guarded by the range check that ends in fatal()' % idx,
                     nontrivial=True)
            else:
                r.fail(node, 'index %s into %s is not protected by a range check'
                       % (unparse(node.slice), mapname),
                       witness='an answer with an offset outside the submitted text')
        if k == 0:
            r.undec(g.node, 'no index into ' + mapname)
    return r


def ab3(model):
    r = RuleResult('AB3', 'substitute: every character outside a match is copied by twin slices '
                   'of text and positions with identical bounds (LS3), the pieces tile the input '
                   'from the cursor without gap or overlap (LS2), and every position of an '
                   'inserted replacement is taken from inside the replaced phrase '
                   '[start, end-1] (AB3)', floor=6)
    f = model.func('utils.substitute')
    ev = PairEval(model, f, param_pairs=[(0, 1)])
    ev.run(f.body, ev.initial())
    ptxt, ppos = f.params[0], f.params[1]
    loop = None
    for s in f.node.body:
        if isinstance(s, ast.For):
            loop = s
    if loop is None:
        raise AnalysisError('anchor vanished: matching loop of substitute')
    # the match object of the loop (last pass)
    tslices, pslices, pidx = [], [], []
    for node, base, lo, hi, sst in ev.slices:
        if isinstance(node.value, ast.Name) and node.value.id == ptxt:
            tslices.append((node, lo, hi, sst))
        elif isinstance(node.value, ast.Name) and node.value.id == ppos:
            pslices.append((node, lo, hi, sst))
    # keep only the slices of the final pass: dedupe by node id (last wins)
    tsl = {id(n): (n, lo, hi, s) for n, lo, hi, s in tslices}
    psl = {id(n): (n, lo, hi, s) for n, lo, hi, s in pslices}
    def match_of(sst):
        for v in sst.vars.values():
            if isinstance(v, Match):
                return v
        return None
    used = set()
    for n, lo, hi, sst in tsl.values():
        twin = None
        for k, (pn, plo, phi, pst) in psl.items():
            if k not in used and sst.facts.prove_eq(plo, lo) and sst.facts.prove_eq(phi, hi):
                twin = k
                break
        if twin is None:
            # one slice of the position list may cover the copied piece and, directly behind it, the first
            # positions of the phrase: [lo : hi + k] with hi = match start and hi + k <= match end
            m = match_of(sst)
            for k, (pn, plo, phi, pst) in psl.items():
                if k not in used and m is not None and pst.facts.prove_eq(plo, lo) and pst.facts.prove_eq(hi, m.s) \
                        and pst.facts.prove_ge0(phi - hi) and pst.facts.prove_ge0(m.e - phi):
                    twin = k
                    r.ok(pn, 'positions [%r:%r] = twin of the copied piece + positions inside the replaced '
                         'phrase' % (plo, phi), nontrivial=True)
                    break
        if twin is None:
            r.fail(n, 'text slice %s has no slice of the position list with the same bounds: '
                   'characters outside a phrase lose their position' % unparse(n))
        else:
            used.add(twin)
            r.ok(n, 'twin slice of the position list with identical bounds [%r:%r]' % (lo, hi),
                 nontrivial=True)
    for k, (pn, plo, phi, pst) in psl.items():
        if k in used:
            continue
        m = match_of(pst)
        if m is None:
            r.fail(pn, 'slice %s of the position list is neither a twin of a text slice nor '
                   'inside a match' % unparse(pn))
            continue
        if pst.facts.prove_ge0(plo - m.s) and pst.facts.prove_ge0(m.e - phi) \
                and pst.facts.prove_ge0(phi - plo):
            r.ok(pn, 'inserted positions [%r:%r] lie inside the replaced phrase' % (plo, phi),
                 nontrivial=True)
        else:
            r.fail(pn, 'positions %s of an inserted replacement are not taken from the phrase '
                   'it replaces' % unparse(pn))
    for node, Ln, idx, ist in ev.indexes.values():
        if isinstance(node.value, ast.Name) and node.value.id == ppos:
            m = match_of(ist)
            if m is not None and ist.facts.prove_ge0(idx - m.s) and ist.facts.prove_ge0(m.e - 1 - idx):
                r.ok(node, 'padding position index %r lies in [start, end-1] of the phrase' % idx,
                     nontrivial=True)
            else:
                r.fail(node, 'padding position %s is not the last position of the replaced '
                       'phrase (IndexError when the match ends the text)' % unparse(node),
                       witness='a replacement longer than its phrase, matching at the end of the text')
    # LS2: cursor
    cursor = None
    for node, val, rst in ev.ret_states:
        if node is not None and isinstance(node.value, ast.Tuple):
            e0 = node.value.elts[0]
            for sub in ast.walk(e0):
                if isinstance(sub, ast.Subscript) and isinstance(sub.slice, ast.Slice) \
                        and sub.slice.upper is None and isinstance(sub.slice.lower, ast.Name) \
                        and isinstance(sub.value, ast.Name) and sub.value.id == ptxt:
                    cursor = sub.slice.lower.id
    if cursor is None:
        r.fail(f.node, 'the text after the last match is not copied from a cursor position')
        return r
    head = ev.loop_heads.get(id(loop))
    hv = head.vars.get(cursor) if head else None
    if not isinstance(hv, Int):
        r.fail(loop, 'cursor %s is not an integer at the loop head' % cursor)
        return r
    # copied slice starts at the cursor and ends at the match start
    for n, lo, hi, sst in tsl.values():
        m = match_of(sst)
        if m is None:
            continue
        if sst.facts.prove_eq(lo, hv.a) and sst.facts.prove_eq(hi, m.s):
            r.ok(n, 'copied piece is [cursor : match start]', nontrivial=True)
        else:
            r.fail(n, 'copied piece %s is not [cursor : match start]: gap or overlap' % unparse(n))

    checked = []

    def hook(lp, bst):
        if lp is not loop:
            return
        cv = bst.vars.get(cursor)
        m = match_of(bst)
        hcur = ev.loop_heads[id(lp)].vars.get(cursor)
        if not isinstance(cv, Int) or m is None or not isinstance(hcur, Int):
            checked.append((False, 'cursor lost'))
            return
        unchanged = bst.facts.prove_eq(cv.a, hcur.a)
        advanced = bst.facts.prove_eq(cv.a, m.e)
        # the skip path (empty match) leaves everything unchanged
        checked.append((unchanged or advanced,
                        'cursor = match end' if advanced else 'cursor unchanged (skipped match)'))
    ev2 = PairEval(model, f, param_pairs=[(0, 1)])
    # re-run with the hook on the final invariants
    ev.backedge_hooks.append(hook)
    ev.ret_states.clear()
    ev.run(f.body, ev.initial())
    head2 = ev.loop_heads.get(id(loop))
    for ok, how in checked[-4:]:
        if ok:
            r.ok(loop, 'at the loop back edge: ' + how, nontrivial=True)
        else:
            r.fail(loop, 'after a replacement the cursor is not set to the end of the match')
    return r
