"""OK1-OK3: offsets, lines and columns of a reported match (DESIGN.md 3.3).

The formatters are evaluated symbolically; tex.count('\\n', 0, x) and tex.rfind('\\n', 0, x)
become the atoms NL(x) and RF(x), so every reported number gets an affine normal form that
is compared with the documented convention:
    text report, diagnostics   line = NL(o)+1          column = o - RF(o)          (1-based)
    json, xml                  fromy = NL(b)  fromx = b-RF(b)-1  toy = NL(e)  tox = e-RF(e)
                               with e = b + length - 1   (0-based, tox exclusive)
    xml-b                      as xml with byte lengths of the same slices
"""
import ast

from ..model import AnalysisError, unparse, iter_scope
from ..report import RuleResult
from ..affine import Aff
from ..symlen import SymEval, State, Int, Seq, Obj, Tup, fresh
from .. import tok as T
from .tj import _is_json_get
from .em import dominating_stmts

OFF = Aff.atom(('int', 'match.offset'))
LEN = Aff.atom(('int', 'match.length'))


def NL(x):
    return Aff.atom(('count', 'NL', x.key()))


def RF(x):
    return Aff.atom(('RF', x.key()))


def BYTES(lo, hi):
    return Aff.atom(('len', 'bytes', lo.key(), hi.key()))


class LineEval(SymEval):
    inline_closures = True

    def __init__(self, model, func, texname):
        super().__init__(model, func)
        self.texname = texname
        self.records = {}       # label -> list of (Aff | None, node, state)

    def run(self, body, st):
        for out in self.paths(list(body), st):
            self.returns.append((None, out))
            self.on_return(None, out)

    def rec(self, label, val, node, st):
        self.records.setdefault(label, []).append((val, node, st))

    def ev_Subscript(self, e, st):
        # m['offset'] / m['length'] read directly (validated at the source, rule TJ1) denote
        # the same numbers as json_get(m, 'offset', int)
        if isinstance(e.ctx, ast.Load) and isinstance(e.slice, ast.Constant) and e.slice.value in ('offset', 'length') \
                and isinstance(e.value, ast.Name) and 'cont' not in e.value.id and unparse(e) not in st.vars:
            return Int(OFF if e.slice.value == 'offset' else LEN)
        return super().ev_Subscript(e, st)

    def ev_Call(self, e, st):
        if _is_json_get(self.model, e) and len(e.args) >= 3 and isinstance(e.args[1], ast.Constant):
            self.ev(e.args[0], st)
            key = e.args[1].value
            # offset / length of the match itself (not of its context)
            src = unparse(e.args[0])
            if key == 'offset' and 'cont' not in src:
                return Int(OFF)
            if key == 'length' and 'cont' not in src:
                return Int(LEN)
            return Obj(fresh('json'))
        f = e.func
        if isinstance(f, ast.Attribute) and isinstance(f.value, ast.Name) and f.value.id == self.texname \
                and f.attr in ('count', 'rfind') and len(e.args) == 3 \
                and T.is_const(e.args[0], '\n') and T.is_const(e.args[1], 0):
            x = self.as_int(self.ev(e.args[2], st), st)
            if x is not None:
                return Int(NL(x) if f.attr == 'count' else RF(x))
        if isinstance(f, ast.Attribute) and f.attr in ('count', 'rfind') and len(e.args) == 1 \
                and T.is_const(e.args[0], '\n'):
            v = self.ev(f.value, st)
            d = getattr(v, 'desc', None)
            if d and d[0] == 'slice' and d[3] == self.texname and d[1] == Aff.const(0):
                return Int(NL(d[2]) if f.attr == 'count' else RF(d[2]))
        if isinstance(f, ast.Attribute) and f.attr == 'encode' and not e.args:
            v = self.ev(f.value, st)
            d = getattr(v, 'desc', None)
            if d and d[0] == 'slice' and d[3] == self.texname:
                return Seq(BYTES(d[1], d[2]), 'bytes')
            return Seq(Aff.atom(('len', fresh('enc'))), 'bytes')
        if isinstance(f, ast.Attribute) and f.attr == 'format' and isinstance(f.value, ast.Constant) \
                and isinstance(f.value.value, str):
            import re as _re
            parts = _re.split(r'\{[^{}]*\}', f.value.value)
            vals = [self.ev(a, st) for a in e.args]
            for i, a in enumerate(e.args):
                if i < len(parts) - 1:
                    lab = _word_label(parts[i])
                    if lab:
                        self.rec(lab, self.as_int(vals[i], st), a, st)
            return Seq(Aff.atom(('len', fresh('fmt'))), 'str')
        if isinstance(f, ast.Name) and f.id == 'str' and len(e.args) == 1:
            v = self.ev(e.args[0], st)
            a = self.as_int(v, st)
            label = _label_before(e)
            if label:
                self.rec(label, a, e, st)
            return Seq(Aff.atom(('len', fresh('str'))), 'str')
        return super().ev_Call(e, st)

    def ev_JoinedStr(self, e, st):
        prev = ''
        for v in e.values:
            if isinstance(v, ast.Constant):
                prev = v.value
            elif isinstance(v, ast.FormattedValue):
                val = self.ev(v.value, st)
                lab = _word_label(prev)
                if lab:
                    self.rec(lab, self.as_int(val, st), v, st)
                prev = ''
        return Seq(Aff.atom(('len', fresh('fstr'))), 'str')

    def store(self, target, val, st):
        if isinstance(target, ast.Subscript) and isinstance(target.slice, ast.Constant) \
                and target.slice.value in ('fromy', 'fromx', 'toy', 'tox'):
            self.rec(target.slice.value, self.as_int(val, st), target, st)
        super().store(target, val, st)

    def ev_Dict(self, e, st):
        for k, v in zip(e.keys, e.values):
            val = self.ev(v, st)
            if isinstance(k, ast.Constant) and k.value in ('fromy', 'fromx', 'toy', 'tox') \
                    and isinstance(v, ast.Call) and getattr(v.func, 'id', '') == 'str':
                inner = self.as_int(self.ev(v.args[0], st), st)
                self.rec(k.value, inner, v, st)
        return Obj(fresh('dict'))


def _word_label(text):
    s = (text or '').lower().rstrip()
    if s.endswith('line'):
        return 'line'
    if s.endswith('column'):
        return 'column'
    return None


def _label_before(call):
    """'line' / 'column' if the str(..) call directly follows a literal ending in that word"""
    p = call._parent
    if not (isinstance(p, ast.BinOp) and isinstance(p.op, ast.Add)):
        return None
    left = p.left if p.right is call else None
    if left is None:
        return None
    while isinstance(left, ast.BinOp):
        left = left.right
    if isinstance(left, ast.Constant) and isinstance(left.value, str):
        s = left.value.lower().rstrip()
        if s.endswith('line'):
            return 'line'
        if s.endswith('column'):
            return 'column'
    return None


def _expect(r, ev, label, want, what):
    recs = ev.records.get(label, [])
    if not recs:
        r.fail(ev.func.node, '%s: no %s is reported any more' % (what, label),
               stmt='%s %s' % (what, label))
        return
    for val, node, st in recs:
        if val is not None and st.facts.prove_eq(val, want):
            r.ok(node, '%s %s = %r' % (what, label, want), nontrivial=True)
        else:
            r.fail(node, '%s: %s is computed as %r, the convention is %r' % (what, label, val, want),
                   witness='a match in the second line of the file / at a multi-byte character')


def ok1(model):
    r = RuleResult('OK1', 'line / column arithmetic of every report format in affine normal form '
                   'over NL(x) = tex.count("\\n",0,x) and RF(x) = tex.rfind("\\n",0,x): text report '
                   'and diagnostics 1-based, json / xml 0-based with exclusive tox, xml-b the byte '
                   'lengths of the same slices (sibling agreement OK3)', floor=14)
    end = OFF + LEN - 1
    # text report
    f = model.func('shell.gentext.output_text_report')
    ev = LineEval(model, f, f.params[0])
    ev.run(f.body, State())
    _expect(r, ev, 'line', NL(OFF) + 1, 'text report')
    _expect(r, ev, 'column', OFF - RF(OFF), 'text report')
    # diagnostics of the filter
    f = model.func('utils.latex_error')
    ev = LineEval(model, f, f.params[2])
    st = State()
    st.vars[f.params[1]] = Int(OFF)
    ev.run(f.body, st)
    _expect(r, ev, 'line', NL(OFF) + 1, 'LaTeX diagnostic')
    _expect(r, ev, 'column', OFF - RF(OFF), 'LaTeX diagnostic')
    # json
    f = model.func('shell.genjson.output_json.f')
    outer = model.func('shell.genjson.output_json')
    ev = LineEval(model, f, outer.params[0])
    ev.run(f.body, State())
    for label, want in (('fromy', NL(OFF)), ('fromx', OFF - RF(OFF) - 1),
                        ('toy', NL(end)), ('tox', end - RF(end))):
        _expect(r, ev, label, want, 'json')
    # xml, character and byte mode
    f = model.func('shell.genxml.output_xml_report')
    bpar = f.params[4]
    for mode, bval in (('xml', 0), ('xml-b', 1)):
        ev = LineEval(model, f, f.params[0])
        st = State()
        st.vars[bpar] = Int(bval)
        ev.run(f.body, st)
        if mode == 'xml':
            wants = (('fromy', NL(OFF)), ('fromx', OFF - RF(OFF) - 1),
                     ('toy', NL(end)), ('tox', end - RF(end)))
        else:
            wants = (('fromy', NL(OFF)), ('fromx', BYTES(RF(OFF) + 1, OFF)),
                     ('toy', NL(end)), ('tox', BYTES(RF(end) + 1, end + 1)))
        for label, want in wants:
            _expect(r, ev, label, want, mode)
    return r


def _stmt_of(n):
    while not isinstance(n, ast.stmt):
        n = n._parent
    return n


def sort_key_function(model):
    """the function given as key= where run_proofreader_options sorts its result"""
    f = model.func('shell.proofreader.run_proofreader_options')
    for n in iter_scope(f.node):
        if isinstance(n, ast.Call) and (T.call_name(n) in ('sort', 'sorted')):
            for k in n.keywords:
                if k.arg == 'key' and isinstance(k.value, ast.Name) and k.value.id in f.nested:
                    return f.nested[k.value.id]
    return None


def _block(stmt):
    p = stmt._parent
    for field in ('body', 'orelse', 'finalbody'):
        seq = getattr(p, field, None)
        if isinstance(seq, list) and stmt in seq:
            return seq
    return [stmt]


def ok2(model):
    r = RuleResult('OK2', 'per-part offsets: every match of a part (proofreader and own checks) '
                   'is shifted exactly once by the length of the text accumulated before the part, '
                   'before the part is appended; the result is sorted by LaTeX position on every '
                   'path; map_match_position is applied exactly once per match and format',
                   floor=8)
    f = model.func('shell.proofreader.run_proofreader_options')
    acc = accmap = None
    for n in iter_scope(f.node):
        if isinstance(n, ast.Return) and isinstance(n.value, ast.Tuple) and len(n.value.elts) == 4:
            e = n.value.elts
            if isinstance(e[3], ast.Name) and isinstance(e[2], ast.Name):
                acc, accmap, acctxt = e[3].id, e[2].id, unparse(e[1])
    if acc is None:
        raise AnalysisError('anchor vanished: 4-tuple result of run_proofreader_options')
    ext = []
    for n in iter_scope(f.node):
        if isinstance(n, ast.AugAssign) and isinstance(n.target, ast.Name) and n.target.id == acc:
            ext.append((_stmt_of(n), n.value))
        elif isinstance(n, ast.Call) and isinstance(n.func, ast.Attribute) and n.func.attr == 'extend' \
                and isinstance(n.func.value, ast.Name) and n.func.value.id == acc and n.args:
            ext.append((_stmt_of(n), n.args[0]))
    if not ext:
        raise AnalysisError('anchor vanished: accumulation of matches')
    for n, src in ext:
        if not isinstance(src, ast.Name):
            r.fail(n, 'matches are accumulated from an expression, not from the shifted list')
            continue
        blk = _block(n)
        i = blk.index(n)
        shift = None
        for k, s in enumerate(blk[:i]):
            if isinstance(s, ast.For) and isinstance(s.iter, ast.Name) and s.iter.id == src.id:
                for b in s.body:
                    if isinstance(b, ast.Assign) and isinstance(b.targets[0], ast.Subscript) \
                            and T.is_const(b.targets[0].slice, 'offset'):
                        shift = (k, s, b)
        if shift is None:
            r.fail(n, 'the matches of a part are added to the result without the offset shift',
                   witness='multi-language mode with two parts: matches of the second part')
            continue
        k, loop, store = shift
        # nothing extends the list between the shift loop and the accumulation
        late = []
        for s in blk[k + 1:i]:
            for x in ast.walk(s):
                if isinstance(x, ast.AugAssign) and isinstance(x.target, ast.Name) and x.target.id == src.id:
                    late.append(x)
                elif isinstance(x, ast.Call) and isinstance(x.func, ast.Attribute) \
                        and x.func.attr in ('append', 'extend', 'insert') \
                        and isinstance(x.func.value, ast.Name) and x.func.value.id == src.id:
                    late.append(x)
                elif isinstance(x, ast.Assign) and any(isinstance(t, ast.Name) and t.id == src.id for t in x.targets):
                    late.append(x)
        if late:
            r.fail(late[0], 'matches are added to the list of the part after its offsets have been '
                   'shifted: they keep part-local offsets and are reported inside the first part',
                   witness='--single-letters with multi-language mode: a hit in the second part')
        else:
            r.ok(loop, 'every match of the part passes the shift loop before accumulation',
                 nontrivial=True)
        # the accumulators of text and map are extended after the shift
        def _extends(x, names):
            if isinstance(x, ast.AugAssign) and isinstance(x.target, ast.Name) and x.target.id in names:
                return True
            return isinstance(x, ast.Call) and isinstance(x.func, ast.Attribute) \
                and x.func.attr in ('extend', 'append') and isinstance(x.func.value, ast.Name) \
                and x.func.value.id in names
        later_ext = [s for s in blk[k + 1:] for x in ast.walk(s) if _extends(x, (accmap,))]
        early_ext = [s for s in blk[:k] for x in ast.walk(s) if _extends(x, (accmap, acctxt))]
        if later_ext and not early_ext:
            r.ok(store, 'text and map of the part are appended after the shift', nontrivial=True)
        else:
            r.fail(store, 'the accumulated text / map is extended before the offsets of the part '
                   'are shifted: the shift includes the part itself')
        # amount: + len(accumulated text or map)
        v = store.value
        amount_ok = False
        if isinstance(v, ast.BinOp) and isinstance(v.op, ast.Add):
            for a, b in ((v.left, v.right), (v.right, v.left)):
                bs = T.resolve_local(model, b) if isinstance(b, ast.Name) else [b]
                if isinstance(a, ast.Call) and _is_json_get(model, a) and bs and all(
                        isinstance(x, ast.Call) and getattr(x.func, 'id', '') == 'len'
                        and unparse(x.args[0]) in (acctxt, accmap) for x in bs):
                    # a hoisted len() must be taken before the part is appended
                    if isinstance(b, ast.Name):
                        hoist = [d for d in iter_scope(f.node) if isinstance(d, ast.Assign)
                                 and any(isinstance(t, ast.Name) and t.id == b.id for t in d.targets)]
                        if hoist and _block(hoist[0]) is blk and blk.index(hoist[0]) < i \
                                and not any(_extends(x, (accmap, acctxt)) for s2 in blk[blk.index(hoist[0]):k]
                                            for x in ast.walk(s2)):
                            amount_ok = True
                    else:
                        amount_ok = True
        if amount_ok:
            r.ok(store, 'shift = part offset + len(%s)' % acctxt, nontrivial=True)
        else:
            r.fail(store, 'the shifted offset is not (offset in the part) + len(text accumulated before)')
    # sort on every path
    rets = [n for n in iter_scope(f.node) if isinstance(n, ast.Return) and isinstance(n.value, ast.Tuple)
            and len(n.value.elts) == 4 and unparse(n.value.elts[3]) == acc]
    for n in rets:
        doms = dominating_stmts(n)
        srt = [d for d in doms if isinstance(d, ast.Expr) and isinstance(d.value, ast.Call)
               and isinstance(d.value.func, ast.Attribute) and d.value.func.attr == 'sort'
               and unparse(d.value.func.value) == acc]
        srt += [d for d in doms if isinstance(d, ast.Assign) and isinstance(d.value, ast.Call)
                and getattr(d.value.func, 'id', '') == 'sorted' and unparse(d.targets[0]) == acc]
        if srt:
            key = [k.value for k in srt[-1].value.keywords if k.arg == 'key']
            r.ok(srt[-1], 'the result is sorted unconditionally before it is returned', nontrivial=True)
            if not key:
                r.fail(srt[-1], 'matches are sorted without the LaTeX-position key')
        else:
            r.fail(n, 'the matches are not sorted by LaTeX position on every path to this return',
                   witness='a match inside a \\footnote (moved to the end of the plain text) '
                           'followed by a later match')
    # sort key: abs(map[offset])
    kf = sort_key_function(model)
    if kf is not None:
        rets2 = T.func_returns(kf)
        if rets2 and all(isinstance(x, ast.Call) and getattr(x.func, 'id', '') == 'abs'
                         and isinstance(x.args[0], ast.Subscript)
                         and unparse(x.args[0].value) == accmap for x in rets2):
            r.ok(kf.node, 'sort key is the LaTeX position abs(map[offset])', nontrivial=True)
        else:
            r.fail(kf.node, 'the sort key is not the LaTeX position of the match',
                   stmt='sort key')
    # map_match_position exactly once per format
    mm = model.func('shell.utils.map_match_position')
    from ..callgraph import callgraph
    sites = callgraph(model).callers.get(mm.qname, [])
    by_fn = {}
    for c in sites:
        by_fn.setdefault(c._fn.qname if c._fn else '?', []).append(c)
    for q in ('shell.gentext.output_text_report', 'shell.genjson.output_json.f',
              'shell.genxml.output_xml_report', 'shell.server.Handler.create_message'):
        cs = by_fn.get(q, [])
        if len(cs) == 1:
            r.ok(cs[0], 'map_match_position applied once in ' + q.split('.')[-1], nontrivial=True)
        else:
            fn = model.func(q)
            r.fail(fn.node, 'map_match_position is applied %d times in %s (must be exactly once '
                   'per match)' % (len(cs), q), stmt='map_match_position in ' + q)
    for c in by_fn.get('shell.genhtml.generate_html', []):
        r.fail(c, 'generate_html maps through the character map itself; map_match_position would '
               'map twice')
    return r


class BiasFlow(object):
    pass


def ok4(model):
    r = RuleResult('OK4', 'base conversions happen exactly once: tex2txt returns 1-based '
                   'positions on every path (0-based map + 1, also for the --unkn dummy and for '
                   'every multi-language part); the shell converts a map entry back with - 1 '
                   'and computes lengths as last - first + 1', floor=4)
    f = model.inl().func('tex2txt.tex2txt')
    # single-language path: the returned position list is `[n + 1 for n in X]` where X has base 0
    from ..rdefs import reachdefs
    rd = reachdefs(f)

    def bias(e, depth=6):
        """base of a position-list expression: 0, 1, ... or None if unknown"""
        if depth <= 0:
            return None
        if isinstance(e, ast.Name):
            ds = rd.defs_of(e)
            out = set()
            for kind, name, node in ds:
                if kind == 'assign':
                    out.add(bias(node, depth - 1))
                elif kind == 'unpack':
                    val, idx = node
                    if isinstance(val, ast.Call):
                        rc = model.resolve_call(val)
                        if rc and rc[0] == 'func' and rc[1].qname == 'utils.get_txt_pos':
                            out.add(0)
                        elif rc and rc[0] == 'func' and rc[1].qname == 'utils.replace_phrases':
                            out.add(bias(val.args[1], depth - 1) if len(val.args) > 1 else None)
                        else:
                            out.add(None)
                    else:
                        out.add(None)
                else:
                    out.add(None)
            return out.pop() if len(out) == 1 else None
        if isinstance(e, (ast.ListComp, ast.GeneratorExp)) and len(e.generators) == 1:
            g = e.generators[0]
            el = e.elt
            if isinstance(el, ast.Constant) and isinstance(el.value, int):
                return el.value
            if isinstance(g.target, ast.Name):
                v = g.target.id
                src = bias(g.iter, depth - 1)
                if isinstance(el, ast.Name) and el.id == v:
                    return src
                if isinstance(el, ast.BinOp) and isinstance(el.op, (ast.Add, ast.Sub)) \
                        and isinstance(el.left, ast.Name) and el.left.id == v \
                        and isinstance(el.right, ast.Constant) and src is not None:
                    return src + (el.right.value if isinstance(el.op, ast.Add) else -el.right.value)
            return None
        if isinstance(e, ast.Call) and getattr(e.func, 'id', '') in ('list', 'tuple') and e.args:
            return bias(e.args[0], depth - 1)
        if isinstance(e, ast.BinOp) and isinstance(e.op, ast.Mult):
            for lst in (e.left, e.right):
                if isinstance(lst, ast.List) and len(lst.elts) == 1 and isinstance(lst.elts[0], ast.Constant) \
                        and isinstance(lst.elts[0].value, int):
                    return lst.elts[0].value        # [c] * n: every entry is c
        if isinstance(e, ast.Subscript):
            return 'part'
        return None
    n_ret = 0
    for n in iter_scope(f.node):
        if isinstance(n, ast.Return) and isinstance(n.value, ast.Tuple) and len(n.value.elts) == 2:
            n_ret += 1
            b = bias(n.value.elts[1])
            if b == 1:
                r.ok(n, 'returned positions are 1-based on every reaching definition', nontrivial=True)
            else:
                r.fail(n, 'the returned position list has base %s, not 1: every reported position '
                       'is off by one' % b, witness='any input')
    if n_ret == 0:
        raise AnalysisError('anchor vanished: tex2txt returns (text, positions)')
    # multi-language parts: a loop over all parts adds 1 to part[1]
    ml_ok = False
    for n in iter_scope(f.node):
        if isinstance(n, ast.Assign) and isinstance(n.targets[0], ast.Subscript) \
                and T.is_const(n.targets[0].slice, 1):
            v = n.value
            inner = v.args[0] if isinstance(v, ast.Call) and v.args else v
            if isinstance(inner, (ast.ListComp, ast.GeneratorExp)):
                el = inner.elt
                src = inner.generators[0].iter
                if isinstance(el, ast.BinOp) and isinstance(el.op, ast.Add) and T.is_const(el.right, 1) \
                        and unparse(src) == unparse(n.targets[0]):
                    # unconditional inside loops over all languages and parts
                    p = n._parent
                    loops = 0
                    cond = False
                    while p is not None and p is not f.node:
                        if isinstance(p, ast.For):
                            loops += 1
                            if any(isinstance(x, ast.Slice) for x in ast.walk(p.iter)) \
                                    or any(isinstance(x, ast.Call) and not (
                                        isinstance(x.func, ast.Attribute) and x.func.attr in ('values', 'items')
                                        and not x.args) for x in ast.walk(p.iter)):
                                cond = True     # only a part of the collection is visited
                        if isinstance(p, ast.If):
                            t_ = p.test.operand if isinstance(p.test, ast.UnaryOp) and isinstance(p.test.op, ast.Not) \
                                else p.test
                            # the mode switch itself (a parameter of tex2txt) is not a condition on the parts
                            if not (isinstance(t_, ast.Name) and t_.id in f.params):
                                cond = True
                        p = p._parent
                    if loops == 2 and not cond:
                        ml_ok = True
                        r.ok(n, 'every part of every language gets + 1 exactly once', nontrivial=True)
    if not ml_ok:
        r.fail(f.node, 'multi-language parts are not converted to 1-based positions '
               'unconditionally', stmt='ml parts + 1')
    # shell: map entry - 1, length = last - first + 1
    g = model.func('shell.utils.map_match_position')
    cm = g.params[2]

    class Ev(SymEval):
        def ev_Call(self, e, st):
            if isinstance(e.func, ast.Name) and e.func.id == 'abs' and len(e.args) == 1 \
                    and isinstance(e.args[0], ast.Subscript) and unparse(e.args[0].value) == cm:
                i = self.as_int(self.ev(e.args[0].slice, st), st)
                if i is not None:
                    idxs.append(i)
                    return Int(Aff.atom(('nn', 'MAP', i.key())))
            return super().ev_Call(e, st)
    idxs = []
    ev = Ev(model, g)
    ev.run(g.body, State())
    uniq = []
    for i in idxs:
        if not any(i == u for u in uniq):
            uniq.append(i)
    if len(uniq) == 2:
        b, e_ = uniq
        MAPb, MAPe = Aff.atom(('nn', 'MAP', b.key())), Aff.atom(('nn', 'MAP', e_.key()))
        want_off, want_len = MAPb - 1, MAPe - MAPb + 1
        for call, rr, args, kws, cst in ev.call_log:
            if rr and rr[0] == 'func' and rr[1].name == 'correct_mark_macroname' and len(args) >= 2:
                a0, a1 = ev.as_int(args[0], cst), ev.as_int(args[1], cst)
                if a0 is not None and a0 == want_off:
                    r.ok(call, 'LaTeX offset = map[first] - 1', nontrivial=True)
                else:
                    r.fail(call, 'LaTeX offset is %r, expected map[first] - 1' % a0)
                if a1 is not None and a1 == want_len:
                    r.ok(call, 'LaTeX length = map[last] - map[first] + 1', nontrivial=True)
                else:
                    r.fail(call, 'LaTeX length is %r, expected map[last] - map[first] + 1' % a1)
        # the stored offset
        st_final = [s for n, v, s in ev.ret_states]
        for s in st_final:
            v = s.vars.get("%s['offset']" % g.params[0])
            if isinstance(v, Int) and v.a == want_off:
                r.ok(g.node, "m['offset'] = map[first] - 1", nontrivial=True, sample=False)
            else:
                r.fail(g.node, "the mapped offset stored in the match is not map[first] - 1",
                       stmt="m['offset'] store")
        # last index = first + length - 1 before clamping
    else:
        r.fail(g.node, 'map_match_position does not read exactly two map entries (first, last)',
               stmt='map reads')
    return r
