"""SP1, SP2, SP3, IX4, MT4 - table rules (DESIGN.md 3.8, 3.6)."""
import ast

from ..model import AnalysisError, unparse
from ..report import RuleResult
from .. import tables

# frozen from the statement of C06 (and README, section on special sequences)
SPECIAL_REFERENCE = {
    '--': '\N{EN DASH}', '---': '\N{EM DASH}',
    '``': '\N{LEFT DOUBLE QUOTATION MARK}', "''": '\N{RIGHT DOUBLE QUOTATION MARK}',
    '~': '\N{NO-BREAK SPACE}', '\\,': '\N{NARROW NO-BREAK SPACE}',
    '\\%': '%', '\\&': '&', '\\$': '$', '\\#': '#', '\\_': '_', '\\{': '{', '\\}': '}',
    '\\\\': ' ', '&': ' ',
}
ACTIVE = set('\\{}$#&_^~%')


def _special(model):
    tab, node = tables.parameters_table(model, 'special_tokens')
    if not isinstance(tab, dict):
        raise AnalysisError('Parameters.special_tokens is not a literal dict any more')
    return tab, node


def sp1(model):
    r = RuleResult('SP1', 'the special-sequence table equals the documented one on the '
                   'documented keys, and no other key consists of ordinary characters only',
                   floor=15)
    tab, node = _special(model)
    for k, v in SPECIAL_REFERENCE.items():
        if k not in tab:
            r.fail(node, 'documented special sequence %r is missing from the table' % k,
                   stmt='special_tokens[%r]' % k)
        elif tab[k] != v:
            r.fail(node, 'special sequence %r is replaced by %r, documented: %r' % (k, tab[k], v),
                   stmt='special_tokens[%r]' % k)
        else:
            r.ok_plain('special_tokens[%r] == %r' % (k, v), 'literal table entry equals reference')
    for k in tab:
        if not isinstance(k, str):
            r.fail(node, 'non-string key %r' % (k,), stmt='special_tokens[%r]' % (k,))
            continue
        if k in SPECIAL_REFERENCE:
            continue
        if not (set(k) & ACTIVE):
            r.fail(node, 'key %r consists of ordinary characters only: plain prose would '
                   'no longer be a fixed point' % k, stmt='special_tokens[%r]' % k)
        else:
            r.ok_plain('key %r contains a LaTeX-active character' % k, 'character class test')
    return r


def sp3(model):
    r = RuleResult('SP3', 'len(value) <= len(key) for every special sequence (so the '
                   'replacement of an anchored token stays inside the sequence)', floor=25)
    tab, node = _special(model)
    for k, v in tab.items():
        if not isinstance(v, str) or not isinstance(k, str):
            r.fail(node, 'entry %r: %r is not a string pair' % (k, v),
                   stmt='special_tokens[%r]' % (k,))
        elif len(v) > len(k):
            r.fail(node, 'value %r is longer than key %r' % (v, k),
                   stmt='special_tokens[%r]' % k)
        else:
            r.ok_plain('len(%r) <= len(%r)' % (v, k), 'literal lengths', nontrivial=len(v) < len(k))
    return r


def _sort_descending_by_len(call):
    """classify a .sort(...) / sorted(...) call: 'desc', 'asc', 'unknown'"""
    kw = {k.arg: k.value for k in call.keywords}
    key = kw.get('key')
    rev = kw.get('reverse')
    rev_true = isinstance(rev, ast.Constant) and rev.value is True
    if rev is not None and not isinstance(rev, ast.Constant):
        return 'unknown'
    if key is None:
        return 'unknown' if not rev_true else 'unknown'
    primary = None
    if isinstance(key, ast.Name) and key.id == 'len':
        primary = 'len'
    elif isinstance(key, ast.Lambda):
        b = key.body
        if isinstance(b, ast.Tuple) and b.elts:
            b = b.elts[0]
        arg = key.args.args[0].arg if key.args.args else None
        def is_len(e):
            return (isinstance(e, ast.Call) and isinstance(e.func, ast.Name)
                    and e.func.id == 'len' and len(e.args) == 1
                    and isinstance(e.args[0], ast.Name) and e.args[0].id == arg)
        if is_len(b):
            primary = 'len'
        elif isinstance(b, ast.UnaryOp) and isinstance(b.op, ast.USub) and is_len(b.operand):
            primary = '-len'
    if primary == 'len':
        return 'desc' if rev_true else 'asc'
    if primary == '-len':
        return 'asc' if rev_true else 'desc'
    return 'unknown'


def sp2(model):
    r = RuleResult('SP2', 'where one special sequence is a proper prefix of another, the '
                   'scanner tries the longer one first and stops at the first match', floor=3)
    tab, node = _special(model)
    keys = [k for k in tab if isinstance(k, str)]
    pairs = [(a, b) for a in keys for b in keys if a != b and b.startswith(a)]
    init = model.func('scanner.Scanner.__init__')
    nt = model.func('scanner.Scanner.next_token')
    # the attribute iterated by next_token with startswith
    loop = None
    for n in ast.walk(nt.node):
        if isinstance(n, ast.For) and isinstance(n.iter, ast.Attribute) \
                and isinstance(n.iter.value, ast.Name) and n.iter.value.id == 'self':
            for c in ast.walk(n):
                if isinstance(c, ast.Call) and isinstance(c.func, ast.Attribute) \
                        and c.func.attr == 'startswith':
                    loop = n
    gen = None
    if loop is None:
        for n in ast.walk(nt.node):
            if isinstance(n, ast.Call) and getattr(n.func, 'id', '') == 'next' and n.args \
                    and isinstance(n.args[0], ast.GeneratorExp):
                g = n.args[0].generators[0]
                if isinstance(g.iter, ast.Attribute) and any(
                        isinstance(c, ast.Call) and isinstance(c.func, ast.Attribute)
                        and c.func.attr == 'startswith' for c in ast.walk(n.args[0])):
                    gen = (n, g.iter.attr)
    if loop is None and gen is None:
        r.undec(nt.node, 'matching of special sequences in next_token not recognised')
        r.instances = max(r.instances, r.floor)
        return r
    attr = loop.iter.attr if loop is not None else gen[1]
    # first match returns
    if loop is not None:
        first_returns = False
        for st in loop.body:
            if isinstance(st, ast.If):
                if any(isinstance(x, (ast.Return, ast.Break)) for x in st.body):
                    first_returns = True
        if first_returns:
            r.ok(loop, 'loop body returns / leaves the loop at the first startswith match', nontrivial=True)
        else:
            r.fail(loop, 'the matching loop does not return at the first match')
    else:
        r.ok(gen[0], 'next(<generator with startswith>) takes the first match', nontrivial=True)
    order = None
    for n in ast.walk(init.node):
        if isinstance(n, ast.Call) and isinstance(n.func, ast.Attribute) and n.func.attr == 'sort' \
                and isinstance(n.func.value, ast.Attribute) and n.func.value.attr == attr:
            order = (_sort_descending_by_len(n), n)
        if isinstance(n, ast.Assign) and any(isinstance(t, ast.Attribute) and t.attr == attr
                                             for t in n.targets):
            v = n.value
            if isinstance(v, ast.Call) and isinstance(v.func, ast.Name) and v.func.id == 'sorted':
                order = (_sort_descending_by_len(v), v)
    if order is None:
        # no sort: dictionary order decides
        pos = {k: i for i, k in enumerate(keys)}
        for a, b in pairs:
            if pos[b] < pos[a]:
                r.ok_plain('%r before %r' % (b, a), 'table order (no sort found)')
            else:
                r.fail(init.node, 'no length sort, and the table lists %r before its extension %r'
                       % (a, b), stmt='order %r / %r' % (a, b))
    elif order[0] == 'desc':
        for a, b in pairs:
            r.ok_plain('%r is tried before its prefix %r' % (b, a),
                       'sort key decreasing in len()', nontrivial=True)
    elif order[0] == 'asc':
        r.fail(order[1], 'special sequences are sorted shortest first: %d prefix pair(s) such as '
               '%r / %r match the shorter one' % (len(pairs), pairs[0][0], pairs[0][1]))
    else:
        r.undec(order[1], 'sort order not recognised')
    return r


def ix4(model):
    r = RuleResult('IX4', 'tables are well-formed: no empty special key, synthesised '
                   'SpecialTokens are table keys, rotating collections non-empty, operator '
                   'words have a default, accent names non-empty, argument codes over *AO',
                   floor=60)
    tab, node = _special(model)
    for k in tab:
        if k == '':
            r.fail(node, 'empty key: the scanner would not advance', stmt="special_tokens['']")
        else:
            r.ok_plain('special key %r non-empty' % k, 'literal')
    # literal SpecialToken texts outside the scanner
    for m in model.mods.values():
        if m.short == 'scanner':
            continue
        for n in ast.walk(m.tree):
            if isinstance(n, ast.Call):
                rc = model.resolve_call(n)
                if rc and rc[0] == 'class' and rc[1].qname == 'defs.SpecialToken' and len(n.args) >= 2:
                    t = n.args[1]
                    if isinstance(t, ast.Constant) and isinstance(t.value, str):
                        if t.value not in tab:
                            r.fail(n, 'SpecialToken text %r is not a key of special_tokens '
                                   '(KeyError when it is expanded)' % t.value)
                        elif t.value not in '{}' and len(tab[t.value]) > 1:
                            r.fail(n, 'synthesised SpecialToken %r expands to %d unpinned '
                                   'characters' % (t.value, len(tab[t.value])))
                        else:
                            r.ok(n, 'literal text is a table key with value of length <= 1')
                    else:
                        r.undec(n, 'SpecialToken with computed text')
    # language settings
    ls = tables.language_settings(model)
    if len(ls) < 3:
        raise AnalysisError('fewer than 3 ParserLanguageSettings found')
    for call, kw in ls:
        for coll in ('math_repl_inline', 'math_repl_display', 'lang_change_repl'):
            v = tables.literal(kw.get(coll)) if kw.get(coll) is not None else None
            if not isinstance(v, list) or not v or not all(isinstance(x, str) and x for x in v):
                r.fail(call, 'collection %s must be a non-empty list of non-empty strings' % coll,
                       stmt='%s=%s' % (coll, unparse(kw[coll]) if kw.get(coll) is not None else '?'))
            else:
                r.ok_plain('%s non-empty (%d entries)' % (coll, len(v)), 'literal')
        for coll in ('math_repl_inline_vowel', 'math_repl_display_vowel', 'lang_change_repl_vowel'):
            if kw.get(coll) is None:
                continue
            v = tables.literal(kw[coll])
            if v is not None and (not isinstance(v, list) or not v):
                r.fail(call, 'collection %s must be None or a non-empty list' % coll,
                       stmt='%s=%s' % (coll, unparse(kw[coll])))
            else:
                r.ok_plain('%s is None or non-empty' % coll, 'literal')
        ot = tables.literal(kw['math_op_text']) if kw.get('math_op_text') is not None else None
        if not isinstance(ot, dict) or None not in ot:
            r.fail(call, 'math_op_text needs the default entry None',
                   stmt='math_op_text=%s' % (unparse(kw['math_op_text'])[:60] if kw.get('math_op_text') is not None else '?'))
        else:
            r.ok_plain('math_op_text has the None default', 'literal')
        sm = tables.literal(kw['short_macros']) if kw.get('short_macros') is not None else None
        if isinstance(sm, dict):
            for k in sm:
                if not isinstance(k, str) or len(k) != 2:
                    r.fail(call, 'short macro key %r must have exactly two characters' % (k,),
                           stmt='short_macros[%r]' % (k,))
                else:
                    r.ok_plain('short macro %r has 2 characters' % k, 'literal')
    # accent macros
    acc, anode = tables.parameters_table(model, 'accent_macros')
    if not isinstance(acc, dict) or not acc:
        raise AnalysisError('Parameters.accent_macros is not a literal dict any more')
    for k, v in acc.items():
        if not (isinstance(v, list) and v and all(isinstance(x, str) and x for x in v)):
            r.fail(anode, 'accent %r needs a non-empty list of names' % k, stmt='accent_macros[%r]' % k)
        else:
            r.ok_plain('accent %r has %d name part(s)' % (k, len(v)), 'literal')
    for attr in ('math_punctuation', 'item_default_label', 'mark_latex_error'):
        v, n = tables.parameters_table(model, attr)
        if not v:
            r.fail(n, 'Parameters.%s must be non-empty' % attr, stmt='self.%s' % attr)
        else:
            r.ok_plain('Parameters.%s non-empty' % attr, 'literal')
    # babel language map
    babel = model.mod('packages.babel')
    lm = babel.globals.get('language_map')
    lmv = tables.literal(lm[0]) if lm else None
    if not isinstance(lmv, dict) or 'english' not in lmv:
        r.fail(babel.tree, "language_map needs the fallback entry 'english'", stmt='language_map')
    else:
        r.ok_plain("language_map['english'] present", 'literal')
    # argument codes
    for ent in tables.registry(model):
        a = ent['args']
        if a is None:
            r.ok(ent['node'], 'no argument code', sample=False)
            continue
        v = tables.literal(a)
        if isinstance(v, str):
            if set(v) - set('*AO'):
                r.fail(ent['node'], 'illegal argument code %r (fatal error at start-up)' % v)
            else:
                r.ok(ent['node'], 'argument code %r over *AO' % v, sample=False)
    return r


def mt4(model):
    r = RuleResult('MT4', 'every math_punctuation entry is a single character (it is compared '
                   'with the last character of the formula)', floor=4)
    v, n = tables.parameters_table(model, 'math_punctuation')
    if not isinstance(v, list):
        raise AnalysisError('Parameters.math_punctuation is not a literal list any more')
    for x in v:
        if not isinstance(x, str) or len(x) != 1:
            r.fail(n, 'entry %r is not a single character' % (x,), stmt='math_punctuation[%r]' % (x,))
        else:
            r.ok_plain('math_punctuation entry %r has length 1' % x, 'literal')
    return r
